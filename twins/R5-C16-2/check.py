"""Behaviour check for C16 refactoring 2 (Sampler codec). Prints PASS and exits 0.

Run from the repository root:
    PYTHONPATH=$PWD/src/python python check.py
"""
import hashlib
import logging
import random
import struct
import sys
from io import BytesIO

from rv.api import NOTE, Synth, m, read_sunvox_file
from rv.chunks.chunk import Chunk

logging.disable(logging.CRITICAL)

Sampler = m.Sampler
FORMATS = [Sampler.Format.int8, Sampler.Format.int16, Sampler.Format.float32]
CHANNELS = [Sampler.Channels.mono, Sampler.Channels.stereo]
LOOPS = list(Sampler.LoopType)
FAILURES = []


def check(cond, label):
    if not cond:
        FAILURES.append(label)
        print("FAIL:", label, file=sys.stderr)


def expect_raises(exc_type, fn, label):
    try:
        fn()
    except exc_type as e:
        check(type(e) is exc_type, f"{label}: exact type {exc_type.__name__}")
    except Exception as e:  # noqa
        check(False, f"{label}: raised {type(e).__name__}, wanted {exc_type.__name__}")
    else:
        check(False, f"{label}: did not raise {exc_type.__name__}")


# ---------------------------------------------------------------- file helpers


def write(mod):
    f = BytesIO()
    Synth(mod).write_to(f)
    return f.getvalue()


def read(raw):
    return read_sunvox_file(BytesIO(raw)).module


def iff_chunks(raw):
    pos = 0
    out = []
    while pos < len(raw):
        tag = raw[pos : pos + 4]
        (size,) = struct.unpack("<I", raw[pos + 4 : pos + 8])
        out.append((tag, raw[pos + 8 : pos + 8 + size]))
        pos += 8 + size
    return out


def iff_join(chunks):
    return b"".join(t + struct.pack("<I", len(d)) + d for t, d in chunks)


def specialized(raw):
    """[(chnm, {tag: data})] for the module-specific chunks of a written synth."""
    out = []
    seen_chnk = False
    for tag, data in iff_chunks(raw):
        if tag == b"CHNK":
            seen_chnk = True
        elif seen_chnk and tag == b"CHNM":
            out.append((struct.unpack("<I", data)[0], {}))
        elif seen_chnk and tag in (b"CHDT", b"CHFF", b"CHFR"):
            out[-1][1][tag] = data
    return out


def drop_chnms(raw, chnms):
    """Remove whole CHNM groups (CHNM + CHDT/CHFF/CHFR) with the given numbers."""
    out = []
    skipping = False
    seen_chnk = False
    for tag, data in iff_chunks(raw):
        if tag == b"CHNK":
            seen_chnk = True
        if seen_chnk and tag == b"CHNM":
            skipping = struct.unpack("<I", data)[0] in chnms
        elif tag not in (b"CHDT", b"CHFF", b"CHFR"):
            skipping = False
        if not skipping:
            out.append((tag, data))
    return iff_join(out)


def patch_chdt(raw, chnm, fn):
    """Replace CHDT of module chunk `chnm` by fn(old)."""
    out = []
    current = None
    seen_chnk = False
    for tag, data in iff_chunks(raw):
        if tag == b"CHNK":
            seen_chnk = True
        if seen_chnk and tag == b"CHNM":
            current = struct.unpack("<I", data)[0]
        if seen_chnk and tag == b"CHDT" and current == chnm:
            data = fn(data)
        out.append((tag, data))
    return iff_join(out)


# ---------------------------------------------------------------- snapshots


def env_snapshot(env):
    return (
        env.chnm,
        list(env.points),
        env.enable,
        env.sustain,
        env.loop,
        env.sustain_point,
        env.loop_start_point,
        env.loop_end_point,
        env.ctl_index,
        env.gain_pct,
        env.velocity,
        env.loaded,
    )


def sample_snapshot(s):
    if s is None:
        return None
    return (
        bytes(s.data),
        int(s.format),
        int(s.channels),
        s.rate,
        int(s.loop_type),
        s.loop_sustain,
        s.loop_start,
        s.loop_len,
        s.volume,
        s.finetune,
        s.panning,
        s.relative_note,
        s.reserved2,
        s.name,
        s.start_pos,
    )


def snapshot(mod, loaded=True):
    envs = [mod.volume_envelope, mod.panning_envelope, mod.pitch_envelope]
    envs += list(mod.effect_control_envelopes)
    snap = {
        "samples": [sample_snapshot(s) for s in mod.samples],
        "envelopes": [env_snapshot(e)[:-1] + ((e.loaded,) if loaded else ()) for e in envs],
        "note_samples": [(int(k), v) for k, v in mod.note_samples.items()],
        "vibrato": (
            int(mod.vibrato_type),
            mod.vibrato_attack,
            mod.vibrato_depth,
            mod.vibrato_rate,
            mod.volume_fadeout,
        ),
        "ins": (
            mod.instrument_name,
            mod.volume_old,
            mod.ins_finetune,
            mod.ins_relative_note,
            mod.editor_cursor,
            mod.editor_selected_size,
            mod.version,
            mod.max_version,
            mod.unused1,
            mod.unused2,
            mod.unused3,
            mod.unused4,
            mod.unused5,
            mod.unused6,
        ),
        "effect": None if mod.effect is None else mod.effect.read(),
    }
    return snap


def digest(*parts):
    h = hashlib.sha256()
    for p in parts:
        h.update(p if isinstance(p, bytes) else repr(p).encode())
    return h.hexdigest()[:20]


# ---------------------------------------------------------------- builders


def random_points(rng, lo, hi, n):
    xs = sorted(rng.randrange(0, 0x10000) for _ in range(n))
    return [(x, rng.randrange(lo, hi + 1)) for x in xs]


def randomize_envelope(rng, env, n=None, coarse=False):
    lo, hi = env.range
    if n is None:
        n = rng.choice([0, 1, 2, 3, 5, 12, 13, 40])
    pts = random_points(rng, lo, hi, n)
    if coarse:
        pts = [(x, (y // 0x200) * 0x200) for x, y in pts]
    env.points = pts
    env.enable = rng.random() < 0.5
    env.sustain = rng.random() < 0.5
    env.loop = rng.random() < 0.5
    top = max(n - 1, 0)
    env.sustain_point = rng.randint(0, top)
    env.loop_start_point = rng.randint(0, top)
    env.loop_end_point = rng.randint(0, top)
    env.ctl_index = rng.randrange(256)
    env.gain_pct = rng.randrange(256)
    env.velocity = rng.randrange(256)


def random_sample(rng, mod, fmt=None, ch=None, nbytes=None):
    s = mod.Sample()
    s.format = fmt if fmt is not None else rng.choice(FORMATS)
    s.channels = ch if ch is not None else rng.choice(CHANNELS)
    frames = rng.choice([0, 1, 2, 7, 100]) if nbytes is None else None
    if nbytes is None:
        nbytes = frames * s.frame_size
    s.data = bytes(rng.randrange(256) for _ in range(nbytes))
    s.rate = rng.choice([0, 1, 8000, 44100, 48000, 0xFFFFFFFF])
    s.loop_type = rng.choice(LOOPS)
    s.loop_sustain = rng.random() < 0.5
    s.loop_start = rng.choice([0, 1, 0xFFFFFFFF, rng.randrange(1 << 32)])
    s.loop_len = rng.choice([0, 1, 0xFFFFFFFF, rng.randrange(1 << 32)])
    s.volume = rng.randrange(256)
    s.finetune = rng.randint(-128, 127)
    s.panning = rng.randint(-128, 127)
    s.relative_note = rng.randint(-128, 127)
    s.reserved2 = rng.randrange(256)
    s.name = bytes(rng.randrange(1, 256) for _ in range(rng.choice([0, 1, 5, 21, 22])))
    s.start_pos = rng.choice([0, 1, 0xFFFFFFFF, rng.randrange(1 << 32)])
    return s


def random_sampler(seed, slots=None, with_effect=False, coarse_env=False, env_n=None):
    rng = random.Random(seed)
    mod = Sampler()
    if slots is None:
        slots = sorted(rng.sample(range(128), rng.choice([0, 1, 2, 5])))
    for i in slots:
        mod.samples[i] = random_sample(rng, mod)
    for k in mod.note_samples:
        mod.note_samples[k] = rng.randrange(1, 256) if rng.random() < 0.9 else 0
    envs = [mod.volume_envelope, mod.panning_envelope, mod.pitch_envelope]
    envs += mod.effect_control_envelopes
    for env in envs:
        randomize_envelope(rng, env, n=env_n, coarse=coarse_env)
    mod.vibrato_type = rng.choice(list(mod.VibratoType))
    mod.vibrato_attack = rng.randrange(256)
    mod.vibrato_depth = rng.randrange(256)
    mod.vibrato_rate = rng.randrange(64)
    mod.volume_fadeout = rng.randrange(8193)
    mod.instrument_name = bytes(
        rng.randrange(1, 256) for _ in range(rng.choice([0, 3, 22]))
    )
    mod.volume_old = rng.randrange(256)
    mod.ins_finetune = rng.randint(-128, 127)
    mod.ins_relative_note = rng.randint(-128, 127)
    mod.editor_cursor = rng.randint(-(1 << 31), (1 << 31) - 1)
    mod.editor_selected_size = rng.randint(-(1 << 31), (1 << 31) - 1)
    mod.unused1 = rng.randrange(1 << 32)
    mod.unused2 = rng.randrange(1 << 16)
    mod.unused3 = rng.randrange(1 << 16)
    mod.unused4 = rng.randrange(1 << 32)
    mod.unused5 = rng.randrange(256)
    mod.unused6 = rng.randrange(1 << 32)
    if with_effect:
        fx = m.Filter()
        fx.freq = rng.randrange(100, 14000)
        mod.effect = Synth(fx)
    return mod


def chunk(chnm, chdt, chff=None, chfr=None):
    c = Chunk()
    c.chnm = chnm
    c.chdt = chdt
    if chff is not None:
        c.chff = chff
    if chfr is not None:
        c.chfr = chfr
    return c


def roundtrip_ok(mod, label):
    """write -> read -> compare; returns (raw, loaded module)."""
    raw = write(mod)
    back = read(raw)
    before = snapshot(mod, loaded=False)
    after = snapshot(back, loaded=False)
    for key in before:
        check(before[key] == after[key], f"{label}: {key} survives save/load")
    check(back.is_legacy is False and back.legacy_chunks is None, f"{label}: not legacy")
    raw2 = write(back)
    check(raw2 == raw, f"{label}: second write is byte-identical")
    return raw, back


GOLDEN_RESULTS = {}


def golden(name, value):
    GOLDEN_RESULTS[name] = value
    if REGEN:
        return
    check(name in GOLDEN, f"golden {name} known")
    check(GOLDEN.get(name) == value, f"golden {name}: {value} == {GOLDEN.get(name)}")


def finish():
    if REGEN:
        print("GOLDEN = {")
        for k, v in GOLDEN_RESULTS.items():
            print(f"    {k!r}: {v!r},")
        print("}")
        return
    check(set(GOLDEN) == set(GOLDEN_RESULTS), "all goldens visited")
    if FAILURES:
        print(f"{len(FAILURES)} check(s) failed")
        sys.exit(1)
    print("PASS")


REGEN = "--regen" in sys.argv

GOLDEN = {
    'rt-300': '024115bbdda83ba44361',
    'rt-301': '3ba5a2e6a3b0a6093bc6',
    'rt-302': '08cc055571fee05dd3b8',
    'rt-303': '1374fa1f4b9887325ffe',
    'rt-304': 'de0f3d583fd4378e9402',
    'rt-305': '6f813c7de7ff174b6110',
    'rt-306': '3f5a62b882f9cb0f9a72',
    'rt-307': '20d08c71bdfd46e877b4',
    'rt-308': '086b1a23a28a49e2e740',
    'rt-309': 'cbdb2d4a0593d129d8c9',
    'rt-default': 'c665ea9372f6fad33025',
    'rt-fixture': 'e8e81adb230cc3628026',
    'sample-chunks': 'aaaf13349eb029112bda',
    'type-bytes': 'a3f8007c06800e821829',
    'sample-data-chunks': '49515de7adf458862b82',
    'rt-128': 'fac39f62c90250d3cad5',
}


# ---------------------------------------------------------------- round trips


def section_roundtrips(seeds):
    for seed in seeds:
        mod = random_sampler(seed, with_effect=(seed % 3 == 0))
        raw, back = roundtrip_ok(mod, f"random sampler {seed}")
        golden(f"rt-{seed}", digest(raw))
        # slots stay where they were put
        check(
            [i for i, s in enumerate(back.samples) if s is not None]
            == [i for i, s in enumerate(mod.samples) if s is not None],
            f"random sampler {seed}: slot indices kept",
        )
        clone = Synth(mod).clone().module
        check(snapshot(clone) == snapshot(back), f"random sampler {seed}: clone == reload")
    # default, untouched sampler
    raw, back = roundtrip_ok(Sampler(), "default sampler")
    golden("rt-default", digest(raw))
    # shipped fixture
    fixture = read_sunvox_file("tests/files/sampler.sunsynth").module
    raw, back = roundtrip_ok(fixture, "fixture")
    golden("rt-fixture", digest(raw, snapshot(back)))


# ---------------------------------------------------------------- samples

FORMAT_BITS = {1: 0x00, 2: 0x10, 4: 0x20}
BYTES_PER_VALUE = {1: 1, 2: 2, 4: 4}


def expected_sample_header(s):
    """Independent re-statement of the 0x2C-byte sample record."""
    frames = len(s.data) // (BYTES_PER_VALUE[int(s.format)] * (2 if int(s.channels) else 1))
    type_byte = int(s.loop_type) | FORMAT_BITS[int(s.format)]
    type_byte |= 0x40 if int(s.channels) else 0
    type_byte |= 4 if s.loop_sustain else 0
    out = struct.pack("<III", frames, s.loop_start, s.loop_len)
    out += struct.pack("<BbBBbB", s.volume, s.finetune, type_byte, s.panning + 128, s.relative_note, s.reserved2)
    out += s.name[:22] + bytes(22 - len(s.name[:22]))
    out += struct.pack("<I", s.start_pos)
    return out


def expected_sample_chunks(i, s):
    return [
        (b"CHNM", struct.pack("<I", 2 * i + 1)),
        (b"CHDT", expected_sample_header(s)),
        (b"CHNM", struct.pack("<I", 2 * i + 2)),
        (b"CHDT", s.data),
        (b"CHFF", struct.pack("<I", int(s.format) | int(s.channels))),
        (b"CHFR", struct.pack("<I", s.rate)),
    ]


def section_samples():
    rng = random.Random(1603)
    mod = Sampler()

    # a fresh Sample
    s = mod.Sample()
    check(
        sample_snapshot(s)
        == (b"", 4, 8, 44100, 0, False, 0, 0, 64, 100, 0, 16, 0, b"", 0),
        "Sample defaults",
    )
    check(s.frame_size == 8 and s.frames == 0, "default frame size")

    # frame_size / frames for every format x channels
    for fmt in FORMATS:
        for ch in CHANNELS:
            s = mod.Sample()
            s.format, s.channels = fmt, ch
            size = BYTES_PER_VALUE[int(fmt)] * (2 if ch is Sampler.Channels.stereo else 1)
            check(s.frame_size == size, f"frame_size {fmt.name} {ch.name}")
            for n in (0, 1, size - 1, size, size + 1, 10 * size + 3):
                s.data = bytes(n)
                check(s.frames == n // size, f"frames {fmt.name} {ch.name} {n}")
    # plain ints equal to the enum values are accepted as table keys
    s = mod.Sample()
    s.format, s.channels = 2, 0
    check(s.frame_size == 2, "int format/channels")
    s.format = 3
    expect_raises(KeyError, lambda: s.frame_size, "unknown format")
    s.format, s.channels = 2, 1
    expect_raises(KeyError, lambda: s.frame_size, "unknown channels")
    s.format, s.channels = None, Sampler.Channels.mono
    expect_raises(KeyError, lambda: s.frames, "format None")

    # sample_chunks layout, for every format x channels x loop x sustain + random fields
    acc = []
    for fmt in FORMATS:
        for ch in CHANNELS:
            for loop in LOOPS:
                for sustain in (False, True):
                    s = random_sample(rng, mod, fmt, ch)
                    s.loop_type, s.loop_sustain = loop, sustain
                    i = rng.randrange(128)
                    got = list(mod.sample_chunks(i, s))
                    check(got == expected_sample_chunks(i, s), f"sample_chunks {fmt.name} {ch.name} {loop.name} {sustain}")
                    check(len(got[1][1]) == 0x2C, "sample record is 0x2C bytes")
                    acc.append(got)
                    # decode it again through the loader entry points
                    target = Sampler()
                    target.load_sample_meta(chunk(2 * i + 1, got[1][1]))
                    loaded = target.samples[i]
                    check(loaded is not None and sum(x is not None for x in target.samples) == 1, "meta creates exactly slot i")
                    check(loaded._length == s.frames, "declared length kept")
                    check(loaded.data == b"" and loaded.rate == 44100, "meta alone leaves data/rate at defaults")
                    check(sample_snapshot(loaded)[1:3] == (int(fmt), int(ch)), "meta decodes format/channels from type byte")
                    check(loaded.format is fmt and loaded.channels is ch, "enum members, not ints")
                    check(loaded.loop_type is loop and loaded.loop_sustain is sustain, "loop type / sustain")
                    check(type(loaded.loop_sustain) is bool, "loop_sustain is a bool")
                    target.load_sample_data(chunk(2 * i + 2, s.data, int(fmt) | int(ch), s.rate))
                    check(sample_snapshot(target.samples[i]) == sample_snapshot(s), "meta+data == original")
                    check(target.samples[i] is loaded, "data lands in the sample created by meta")
    golden("sample-chunks", digest(acc))

    # name handling: padded, truncated at 22, trailing NULs stripped on load
    for name, back in (
        (b"", b""),
        (b"a", b"a"),
        (b"x" * 22, b"x" * 22),
        (b"y" * 30, b"y" * 22),
        (b"mid\0dle", b"mid\0dle"),
        (b"tail\0\0", b"tail"),
        (bytearray(b"ba"), b"ba"),
    ):
        s = mod.Sample()
        s.name = name
        rec = list(mod.sample_chunks(0, s))[1][1]
        check(rec[0x12:0x28] == bytes(name[:22]).ljust(22, b"\0"), f"name field {name!r}")
        t = Sampler()
        t.load_sample_meta(chunk(1, rec))
        check(t.samples[0].name == back, f"name back {name!r}")
    s = mod.Sample()
    s.name = "text"
    expect_raises(TypeError, lambda: list(mod.sample_chunks(0, s)), "str name")

    # the type byte: every value 0..255 through load_sample_meta
    template = bytearray(expected_sample_header(mod.Sample()))
    outcomes = []
    for value in range(256):
        template[0x0E] = value
        t = Sampler()
        try:
            t.load_sample_meta(chunk(5, bytes(template)))
        except ValueError as e:
            check(type(e) is ValueError and value & 3 == 3, f"type {value:#x}: loop bits 3 rejected")
            got = t.samples[2]
            check(got is not None and got.volume == 64 and got.finetune == 100, "fields before the type byte were stored")
            check(got.panning == 0 and got.relative_note == 16, "fields after the type byte stay at defaults")
            outcomes.append("V")
        except KeyError as e:
            check(type(e) is KeyError and value & 0x30 == 0x30 and value & 3 != 3, f"type {value:#x}: format bits 0x30 rejected")
            check(int(t.samples[2].loop_type) == value & 3, "loop type was stored before the failure")
            check(t.samples[2].format is Sampler.Format.float32, "format untouched on failure")
            outcomes.append("K")
        else:
            got = t.samples[2]
            want_fmt = {0x00: 1, 0x10: 2, 0x20: 4}[value & 0x30]
            check(
                (int(got.loop_type), int(got.format), int(got.channels), got.loop_sustain)
                == (value & 3, want_fmt, 8 if value & 0x40 else 0, bool(value & 4)),
                f"type {value:#x} decoded",
            )
            outcomes.append(".")
    golden("type-bytes", digest("".join(outcomes)))

    # truncated sample records
    full = expected_sample_header(random_sample(rng, mod))
    t = Sampler()
    t.load_sample_meta(chunk(1, full[:0x28]))
    check(t.samples[0].start_pos == 0, "missing start_pos defaults to 0")
    t.load_sample_meta(chunk(1, full[:0x2B]))
    check(t.samples[0].start_pos == 0, "partial start_pos defaults to 0")
    t = Sampler()
    t.load_sample_meta(chunk(3, full[:0x12]))
    check(t.samples[1].name == b"", "missing name reads empty")
    for cut in (0, 3, 4, 11, 12, 13, 14, 15, 16, 17):
        t = Sampler()
        expect_raises(RuntimeError, lambda: t.load_sample_meta(chunk(1, full[:cut])), f"sample record cut at {cut}")
        check(t.samples[0] is not None, "slot is filled before decoding starts")

    # slot arithmetic for all 128 slots (and chunk number 0x100, the last even one)
    t = Sampler()
    for i in range(128):
        t.load_sample_meta(chunk(2 * i + 1, full))
        t.load_sample_data(chunk(2 * i + 2, bytes([i]), 1, i))
    check([s.data for s in t.samples] == [bytes([i]) for i in range(128)], "slots 0..127 by chunk number")
    check([s.rate for s in t.samples] == list(range(128)), "rates by slot")

    # CHFF decoding
    for chff, fmt, ch in (
        (0, 1, 0), (1, 1, 0), (2, 2, 0), (4, 4, 0), (8, 1, 8), (9, 1, 8), (10, 2, 8), (12, 4, 8),
        (0x10 | 2, 2, 0), (0xFFFFFFF0 | 4, 4, 0), (0xF8 | 1, 1, 8),
    ):
        t = Sampler()
        t.samples[7] = t.Sample()
        t.load_sample_data(chunk(16, b"abc", chff, 22050))
        s = t.samples[7]
        check((s.data, int(s.format), int(s.channels), s.rate) == (b"abc", fmt, ch, 22050), f"CHFF {chff:#x}")
        check(s.format is Sampler.Format(fmt) and s.channels is Sampler.Channels(ch), "CHFF gives enum members")
    for chff in (3, 5, 6, 7, 11):
        t = Sampler()
        t.samples[0] = t.Sample()
        expect_raises(ValueError, lambda: t.load_sample_data(chunk(2, b"zz", chff, 1)), f"CHFF {chff} invalid format")
        check(t.samples[0].data == b"zz", "data stored before CHFF is decoded")
        check(t.samples[0].format is Sampler.Format.float32 and t.samples[0].rate == 44100, "rest untouched")
    t = Sampler()
    expect_raises(AttributeError, lambda: t.load_sample_data(chunk(2, b"zz", 1, 1)), "data without meta")
    t.samples[0] = t.Sample()
    expect_raises(TypeError, lambda: t.load_sample_data(chunk(2, b"zz")), "data chunk without CHFF")
    check(t.samples[0].data == b"zz", "data stored even so")

    # field-width errors on write
    def bad(field, value, exc=struct.error):
        s = mod.Sample()
        setattr(s, field, value)
        gen = mod.sample_chunks(0, s)
        expect_raises(exc, lambda: next(gen), f"sample.{field}={value!r}")

    bad("loop_start", 1 << 32)
    bad("loop_len", -1)
    bad("volume", 256)
    bad("finetune", 128)
    bad("finetune", -129)
    bad("panning", 128)
    bad("panning", -129)
    bad("relative_note", 128)
    bad("reserved2", 256)
    bad("start_pos", 1 << 32)
    bad("format", 3, KeyError)
    bad("channels", 4, KeyError)
    bad("loop_type", 1, AttributeError)
    s = mod.Sample()
    s.rate = 1 << 32
    got = []
    gen = mod.sample_chunks(9, s)
    expect_raises(struct.error, lambda: got.extend(gen), "rate too wide")
    check([t for t, _ in got] == [b"CHNM", b"CHDT", b"CHNM", b"CHDT", b"CHFF"], "everything before CHFR was produced")

    # sample_data_chunks: only filled slots, in slot order
    t = Sampler()
    check(list(t.sample_data_chunks()) == [], "no samples, no chunks")
    picks = {}
    for i in (127, 0, 64, 3):
        picks[i] = t.samples[i] = random_sample(rng, t)
    want = []
    for i in sorted(picks):
        want += expected_sample_chunks(i, picks[i])
    check(list(t.sample_data_chunks()) == want, "sample_data_chunks order and content")
    golden("sample-data-chunks", digest(want))

    # whole-file: all 128 slots, then sparse subsets, keep indices and bytes
    t = Sampler()
    for i in range(128):
        t.samples[i] = random_sample(rng, t)
    raw, back = roundtrip_ok(t, "128 slots")
    golden("rt-128", digest(raw))
    for slots in ([], [0], [127], [1, 126], list(range(0, 128, 7)), [5, 6, 7]):
        t = random_sampler(len(slots) + 500, slots=slots)
        raw, back = roundtrip_ok(t, f"slots {slots}")
        check([i for i, s in enumerate(back.samples) if s is not None] == slots, f"slots {slots} stay put")
        record = dict(specialized(raw))[0][b"CHDT"]
        check(struct.unpack_from("<H", record, 0x1C)[0] == (slots[-1] + 1 if slots else 0), f"samples_num for {slots}")
    # odd-length data (not a whole number of frames) is kept byte for byte
    for fmt in FORMATS:
        for ch in CHANNELS:
            t = Sampler()
            t.samples[2] = random_sample(rng, t, fmt, ch, nbytes=13)
            raw, back = roundtrip_ok(t, f"13 bytes {fmt.name} {ch.name}")
            check(back.samples[2]._length == 13 // t.samples[2].frame_size, "declared length is whole frames")


if __name__ == "__main__":
    section_roundtrips(range(300, 310))
    section_samples()
    finish()
