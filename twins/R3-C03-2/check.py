"""Behaviour check for Module.iff_chunks / options_chunks / Chunk.chunks and
Synth.chunks.

Run from the repository root:
    PYTHONPATH=<root>/src/python python check.py [--print]

Every module type is serialized (as a .sunsynth and inside a project), the
output is parsed with an independent chunk decoder and compared with the
public state of the module; sha256 digests of all outputs are compared with
golden values recorded on the unrefactored tree; exception types for invalid
inputs are checked too.
"""

import hashlib
import struct
import sys
from io import BytesIO

from rv.api import Project, Synth, m, read_sunvox_file
from rv.errors import EmptySynthError
from rv.modules import Chunk
from rv.modules.module import Module

failures = []


def check(cond, msg):
    if not cond:
        failures.append(msg)


def iter_chunks(data):
    pos = 0
    while pos < len(data):
        cid = data[pos : pos + 4]
        (n,) = struct.unpack("<I", data[pos + 4 : pos + 8])
        yield cid, data[pos + 8 : pos + 8 + n]
        pos += 8 + n
    assert pos == len(data), "trailing garbage"


def module_sections(data):
    """Split a file into lists of (id, payload) per module slot."""
    sections, cur = [], None
    for cid, payload in iter_chunks(data):
        if cid == b"SFFF":
            cur = []
        if cur is not None:
            cur.append((cid, payload))
        if cid == b"SEND":
            if cur is None:
                sections.append([(cid, payload)])
            else:
                sections.append(cur)
            cur = None
    return sections


def u32(b):
    return struct.unpack("<I", b)[0]


def i32(b):
    return struct.unpack("<i", b)[0]


def expected_snam(name):
    """Longest prefix of whole characters fitting in 32 bytes, NUL padded."""
    raw = b""
    for ch in name:
        enc = ch.encode("utf8")
        if len(raw) + len(enc) > 32:
            break
        raw += enc
    return raw + b"\0" * (32 - len(raw))


def expected_options(mod):
    used = 0
    out = [0] * 64
    for opt in type(mod).options.values():
        v = int(mod.option_values[opt.name]) & ((1 << opt.size) - 1)
        out[opt.byte] |= v << opt.bit
        used = max(used, opt.byte + 1)
    return bytes(out[:used])


def verify_section(mod, section, in_project, label):
    ids = [cid for cid, _ in section]
    check(ids[-1] == b"SEND" and section[-1][1] == b"", f"{label}: no SEND")
    std = [
        b"SFFF",
        b"SNAM",
        b"STYP",
        b"SFIN",
        b"SREL",
        b"SXXX",
        b"SYYY",
        b"SZZZ",
        b"SSCL",
        b"SVPR",
        b"SCOL",
        b"SMII",
        b"SMIN",
        b"SMIC",
        b"SMIB",
        b"SMIP",
    ]
    expect_ids = list(std)
    if mod.mtype is None or mod.mtype == "Output":
        expect_ids.remove(b"STYP")
    if not in_project:
        for c in (b"SXXX", b"SYYY", b"SZZZ", b"SVPR"):
            expect_ids.remove(c)
    if not mod.midi_out_name:
        expect_ids.remove(b"SMIN")
    head = ids[: len(expect_ids)]
    check(head == expect_ids, f"{label}: standard chunk order {head}")
    d = {}
    for cid, payload in section[: len(expect_ids)]:
        d[cid] = payload
    check(u32(d[b"SFFF"]) == mod.flags, f"{label}: SFFF")
    check(len(d[b"SNAM"]) == 32, f"{label}: SNAM len")
    check(d[b"SNAM"] == expected_snam(mod.name), f"{label}: SNAM {d[b'SNAM']!r}")
    if b"STYP" in d:
        check(d[b"STYP"] == mod.mtype.encode("utf8") + b"\0", f"{label}: STYP")
    check(i32(d[b"SFIN"]) == mod.mod_finetune, f"{label}: SFIN")
    check(i32(d[b"SREL"]) == mod.mod_relative_note, f"{label}: SREL")
    if in_project:
        check(i32(d[b"SXXX"]) == mod.x, f"{label}: SXXX")
        check(i32(d[b"SYYY"]) == mod.y, f"{label}: SYYY")
        check(i32(d[b"SZZZ"]) == mod.layer, f"{label}: SZZZ")
        check(u32(d[b"SVPR"]) == int(mod.visualization), f"{label}: SVPR")
    check(u32(d[b"SSCL"]) == mod.mod_scale, f"{label}: SSCL")
    check(d[b"SCOL"] == bytes(mod.color), f"{label}: SCOL")
    check(
        u32(d[b"SMII"]) == int(mod.midi_in_always) + 2 * mod.midi_in_channel,
        f"{label}: SMII",
    )
    if mod.midi_out_name:
        check(d[b"SMIN"] == mod.midi_out_name.encode("utf8") + b"\0", f"{label}: SMIN")
    check(u32(d[b"SMIC"]) == mod.midi_out_channel, f"{label}: SMIC")
    check(i32(d[b"SMIB"]) == mod.midi_out_bank, f"{label}: SMIB")
    check(i32(d[b"SMIP"]) == mod.midi_out_program, f"{label}: SMIP")

    rest = section[len(expect_ids) : -1]
    if in_project:
        check(rest and rest[0][0] == b"SLNK", f"{label}: SLNK missing")
        rest = [c for c in rest if c[0] not in (b"SLNK", b"SLnK")]
    attached = [n for n, c in mod.controllers.items() if c.attached(mod)]
    cvals = [i32(p) for cid, p in rest if cid == b"CVAL"]
    check(len(cvals) == len(attached), f"{label}: CVAL count {len(cvals)}")
    check(
        cvals == [mod.get_raw(n) for n in attached], f"{label}: CVAL values {cvals}"
    )
    cmid = [p for cid, p in rest if cid == b"CMID"]
    if attached:
        check(len(cmid) == 1 and len(cmid[0]) == 8 * len(attached), f"{label}: CMID")
        check(
            cmid[0] == b"".join(mod.controller_midi_maps[n].cmid_data for n in attached),
            f"{label}: CMID content",
        )
        check(
            [c for c, _ in rest[: len(attached) + 1]]
            == [b"CVAL"] * len(attached) + [b"CMID"],
            f"{label}: CVAL/CMID order",
        )
    else:
        check(not cmid, f"{label}: CMID without controllers")
    tail = rest[len(attached) + (1 if attached else 0) :]
    if mod.chnk:
        check(tail and tail[0][0] == b"CHNK", f"{label}: CHNK missing")
        declared = u32(tail[0][1])
        check(declared == mod.chnk, f"{label}: CHNK value")
        chnms = [u32(p) for cid, p in tail if cid == b"CHNM"]
        check(all(n < declared for n in chnms), f"{label}: chnm>=CHNK {chnms}")
        if type(mod).options:
            idx = [
                i
                for i, (cid, p) in enumerate(tail)
                if cid == b"CHNM" and u32(p) == mod.options_chnm
            ]
            check(len(idx) == 1, f"{label}: options chunk count {len(idx)}")
            if idx:
                cid, payload = tail[idx[0] + 1]
                check(cid == b"CHDT", f"{label}: options CHDT")
                check(
                    payload == expected_options(mod),
                    f"{label}: options bytes {payload!r}",
                )
    else:
        check(not tail, f"{label}: unexpected tail {[c for c, _ in tail]}")


def all_module_classes():
    return sorted(
        (
            c
            for c in vars(m).values()
            if isinstance(c, type) and issubclass(c, Module) and c is not Module
        ),
        key=lambda c: c.__name__,
    )


NAMES = [
    None,
    "",
    "x" * 32,
    "y" * 40,
    "z" * 31 + "é",  # 2-byte char straddling the 32-byte limit
    "z" * 30 + "€",  # 3-byte char ending exactly at byte 33
    "z" * 29 + "€",  # 3-byte char ending exactly at byte 32
    "\U0001f3b9" * 9,  # 4-byte chars; 8 fit
    "naïve über",
]


def configure(mod, k):
    """Deterministically vary the generic module attributes."""
    mod.mod_finetune = (-256, 0, 256, 17, -1)[k % 5]
    mod.mod_relative_note = (0, -12, 12, 100)[k % 4]
    mod.x, mod.y, mod.layer = (k * 37) % 1024 - 100, -(k * 11), k % 8
    mod.mod_scale = (256, 1, 512, 100)[k % 4]
    mod.color = ((0, 0, 0), (255, 255, 255), (1, 2, 3), [9, 8, 7])[k % 4]
    mod.midi_in_always = bool(k % 2)
    mod.midi_in_channel = k % 17
    mod.midi_out_name = (None, "", "synth port", "porté")[k % 4]
    mod.midi_out_channel = k % 16
    mod.midi_out_bank = (-1, 0, 127)[k % 3]
    mod.midi_out_program = (-1, 5, 0)[k % 3]
    mod.visualization = (0x000C0101, 0, 0x0FFF1F3F)[k % 3]
    if k % 3 == 0:
        mod.flags |= 0x80
    # flip options
    for j, (name, opt) in enumerate(type(mod).options.items()):
        if opt.size == 1:
            if (j + k) % 2:
                setattr(mod, name, not getattr(mod, name))
        elif opt.max is not None:
            setattr(mod, name, opt.min + (j + k) % (opt.max - opt.min + 1))
    # some midi maps
    from rv.cmidmap import MidiMessageType, Slope

    for j, name in enumerate(list(type(mod).controllers)[:3]):
        mm = mod.controller_midi_maps[name]
        mm.channel = (j + k) % 16
        mm.message_type = list(MidiMessageType)[(j + k) % 9]
        mm.message_parameter = (j * 1000 + k) % 65536
        mm.slope = list(Slope)[(j + k) % 6]


def build_all():
    out = {}
    for k, cls in enumerate(all_module_classes()):
        name = NAMES[k % len(NAMES)]
        kwargs = {} if name is None else {"name": name}
        mod = cls(**kwargs)
        configure(mod, k)
        if cls is m.MetaModule:
            mod.user_defined_controllers = 3
            mod.user_defined[0].label = "Cutoff"
            mod.user_defined[2].label = "Réso"
        out[cls.__name__] = mod
    mod = m.MetaModule()
    out["MetaModule-0ctl"] = mod
    mod = m.MetaModule(user_defined_controllers=96)
    out["MetaModule-96ctl"] = mod
    return out


GOLDEN = {
    # recorded on the unrefactored tree (regenerate with --print)
    "Adsr/synth": "8557517519ac350d0bf74b12866b9369b4c30192d1fdccffb6c111739dbf5c4d",
    "Amplifier/synth": "b186b55ffaa858206e19133d8b928cb2882d91ff5cc21c8d441748b2a54c4e95",
    "AnalogGenerator/synth": "20c81f8048e86537e3f86bdcf35d3018b190a39de22f61f013cff48106d06d90",
    "Compressor/synth": "2f6d3391bc1f0563af6252454c24bba84ac1c3f5b05ca9cf1066710d976c47cf",
    "Ctl2Note/synth": "70f7a3c1f1973a52a3cb971aa54f4a96241bbc8f467ef80ca7fefb3b76563740",
    "DcBlocker/synth": "c1e59f8943385e917a1f2886bda0720e82b63e65d8659e6620ee1c275fc92e9e",
    "Delay/synth": "aa3c409265086691140b1f338218cf162d34fa34127cdc6749b525ebaedc53ff",
    "Distortion/synth": "0dce7a58a56dc4b0be409bb3a0b3ba353bac22519a8f3f22565584e4b8fbc45c",
    "DrumSynth/synth": "10cb2207697a233f969f02c96838a0f0036ea91f48dd3affa05c09d94478708d",
    "Echo/synth": "399df5879e23777fd83dd0c1af47bc7e73e01f940630b325e77564473b5b2abc",
    "Eq/synth": "ea403f1de7e40e27f64d1f76d06bac88ac296a53d83121111a9c4ee48d41f7e4",
    "Feedback/synth": "2361c3c4e4376906e8dc6b733d52ca1b6cb833ff8fb0b1729423eef63b520c82",
    "Fft/synth": "782750cb80109aca288aa330ca1c1d695689d82813aa09c2c64c5717c0af0e33",
    "Filter/synth": "c140ca9aeb4a00948ba0dfd3cbca138a83c8a1e7d6e8fb7b805b5c9bfec1a14d",
    "FilterPro/synth": "86bd276186678c8a5f9e1db73e3604f1e96bdf8bce080c5176fa67e2caa20485",
    "Flanger/synth": "cb2d23c93695e77d006afda46eb6265946c111d217144b6c92cc806557bc2436",
    "Fm/synth": "29a350168ffe507996efe5f4bc24ed39238c2a4596a93e90874984fc7990218b",
    "Fmx/synth": "4154b1c57becee0444726cdc4f2e71571e8d0e6a6676732a5ebeec1cb86879cd",
    "Generator/synth": "57df5f2e2a39d09b2bb7fdf2859bd71149aa5303c7744a4308074b01f3a0a2f8",
    "Glide/synth": "4c5e2296a6c02786d8225c48fbbe490f346944927a14a9870a553d73aabde0e7",
    "Gpio/synth": "869d16ba3d25743883170ebda8ca87b85903ba08bfbce542791929bf66867d28",
    "Input/synth": "c8ed6b368ee9d3d3a92fd9ca859868d5a3e89d3346eab5220fcd4fe31c247f7d",
    "Kicker/synth": "b4564e875bbcdb5b22ae8669b80533f482e451225360a82b9cf67e5859369474",
    "Lfo/synth": "906d447478d474ab9fc50428fbbc4ada048e9d3a17b109d17821ac0292f9dc6d",
    "Loop/synth": "ba1ae77eb7f8a7198b6eb3b1ee4137b75fe7335bbac01080391293f430213044",
    "MetaModule/synth": "9b05103124b9b3aecbc4752a55da79ca5caae3eaf4d9bac7d7f8b3d147ba6a2f",
    "Modulator/synth": "403176a8867eac1d932bbe4ca10d1f77febd602e83784cd233c8058fab621c34",
    "MultiCtl/synth": "4fdaef2818871e570a622b182fe9738774e108a82ee67b2560ffe6161ebb1e87",
    "MultiSynth/synth": "10a50f859e4b7b0b5a3165a53247a751a981290f0521ad38f8dbdba90253f339",
    "Output/synth": "0603b41a37c4ff57a3f66edd106b34f32c46f97f823fc757d6d90b8647cac000",
    "Pitch2Ctl/synth": "9557705100dd834a60f51465b45bd3eca7acd465cab2617bdc86ea47d376727c",
    "PitchDetector/synth": "bd2193b842206c07af8d3fb821acde1e51733bb61a4c2b0188591837981ffc19",
    "PitchShifter/synth": "183816804b9dfba0a2bb4c4a5c014e1597f18dcd43705f5092e23a973cd42443",
    "Reverb/synth": "bc76343846d7639bf35f6afce7f848d5ab82bb76053101f2873cafa15904f97b",
    "Sampler/synth": "575db64f3ce7bb2178e3ca63430751ec6f1a20d7cfbf5d94f454a7088296a504",
    "Smooth/synth": "6304f6f54589d23f58522e24c5a5b6788fd2777ab4fa6927e285a04b87b1ff0d",
    "Sound2Ctl/synth": "2649b2aa25934cd17a044ad78382f871b4d94325305a5642c85fcfc3032fcbc6",
    "SpectraVoice/synth": "7ce4600e82b9b59680f2cc6a869b19cea2bfe09cc029d94d6780c5888fd85c35",
    "Velocity2Ctl/synth": "86b6a9f489d082bbd0f55b134346c043bd4dd168b379cf467db81e3cc4daf7f8",
    "Vibrato/synth": "70293f0560247363a150b52c679b46c0501901c6a2994312772541b0ba8fc335",
    "VocalFilter/synth": "08d3c215a68accb4abce24c72e5fd1ab66abee014c62fae26d15a9efbf53178a",
    "VorbisPlayer/synth": "42c80b6938744bf0d10d57ba69a9043de92696e9e1278e63437ab007713e3aad",
    "WaveShaper/synth": "4e6ca88ceed37399e00678b348221e6cced174212f54bf172b4f39a833d73024",
    "MetaModule-0ctl/synth": "5db044749e2b1bb0a49f0007da12bbfa468948c2b76e8346887f5f9f81a54c16",
    "MetaModule-96ctl/synth": "dc131b0ae8bd08849a9923cfe4eb95cad1b9c1fe797f07e750f4c33de50dac9a",
    "all-modules/project": "816d76cf1a457bffad27d66af0f1eca7e92248eb6d9a87992bc863e46d79d77d",
    "file:tests/files/sampler.sunsynth": "3b0f2915c2ec0456c0932e701153dc1fe981399cffe9631e080af6bc8b9736a0",
    "file:tests/files/metamodule.sunsynth": "55f5fd0bfba897453b071068bb34950f29667e951e5553cfba958d9cd2cf5f2c",
}


def expect_raises(label, exc_type, fn):
    try:
        fn()
    except Exception as e:  # noqa
        if type(e) is not exc_type:
            failures.append(f"{label}: raised {type(e).__name__}: {e}")
    else:
        failures.append(f"{label}: did not raise")


def chunk_class_cases():
    c = Chunk()
    c.chnm, c.chdt = 7, b"abc"
    check(
        list(c.chunks())
        == [
            (b"CHNM", b"\x07\0\0\0"),
            (b"CHDT", b"abc"),
            (b"CHFF", b"\0\0\0\0"),
            (b"CHFR", struct.pack("<I", 44100)),
        ],
        "Chunk default",
    )
    c.chff = None
    check([i for i, _ in c.chunks()] == [b"CHNM", b"CHDT", b"CHFR"], "Chunk no CHFF")
    c.chff, c.chfr = 9, None
    check(
        list(c.chunks())[2:] == [(b"CHFF", b"\x09\0\0\0")], "Chunk no CHFR, CHFF=9"
    )
    c.chff = c.chfr = None
    check([i for i, _ in c.chunks()] == [b"CHNM", b"CHDT"], "Chunk neither")
    c.chff, c.chfr = 0, 0
    check(len(list(c.chunks())) == 4, "Chunk zero values still written")
    c.chdt = None
    check(list(c.chunks())[1] == (b"CHDT", None), "Chunk chdt passthrough")
    c = Chunk()
    expect_raises("Chunk chnm None", struct.error, lambda: list(c.chunks()))
    c = Chunk()
    c.chnm, c.chdt, c.chff = 1, b"", -1
    g = c.chunks()
    check([next(g)[0], next(g)[0]] == [b"CHNM", b"CHDT"], "Chunk lazy prefix")
    expect_raises("Chunk chff -1", struct.error, lambda: next(g))
    check(not hasattr(Chunk(), "__dict__"), "Chunk keeps __slots__")


def error_cases():
    expect_raises("base Module", RuntimeError, lambda: list(Module().iff_chunks()))
    expect_raises("empty synth", EmptySynthError, lambda: Synth().read())

    def gen_prefix(mod, in_project, exc):
        got = []
        try:
            for cid, _ in mod.iff_chunks(in_project=in_project):
                got.append(cid)
        except Exception as e:  # noqa
            if type(e) is not exc:
                failures.append(f"prefix: raised {type(e).__name__}")
            return got
        failures.append("prefix: did not raise")
        return got

    mod = m.Amplifier()
    mod.mod_scale = -1
    check(
        gen_prefix(mod, True, struct.error)
        == [b"SFFF", b"SNAM", b"STYP", b"SFIN", b"SREL", b"SXXX", b"SYYY", b"SZZZ"],
        "prefix before bad SSCL (project)",
    )
    check(
        gen_prefix(mod, False, struct.error)
        == [b"SFFF", b"SNAM", b"STYP", b"SFIN", b"SREL"],
        "prefix before bad SSCL (synth)",
    )
    mod = m.Amplifier()
    mod.y = 2**31
    check(
        gen_prefix(mod, True, struct.error)
        == [b"SFFF", b"SNAM", b"STYP", b"SFIN", b"SREL", b"SXXX"],
        "prefix before bad SYYY",
    )
    mod = m.Amplifier()
    mod.color = (1, 2)
    check(gen_prefix(mod, False, struct.error)[-1] == b"SSCL", "bad SCOL arity")
    mod.color = (1, 2, 256)
    check(gen_prefix(mod, False, struct.error)[-1] == b"SSCL", "bad SCOL value")
    mod = m.Amplifier()
    mod.midi_in_channel = 1.5
    check(gen_prefix(mod, False, TypeError)[-1] == b"SCOL", "float midi channel")
    mod = m.Amplifier()
    mod.midi_in_channel = -1
    check(gen_prefix(mod, False, struct.error)[-1] == b"SCOL", "negative SMII")
    mod = m.Amplifier()
    mod.name = None
    check(gen_prefix(mod, False, AttributeError) == [b"SFFF"], "name None")
    mod = m.Amplifier()
    mod.midi_out_program = "1"
    check(gen_prefix(mod, False, struct.error)[-1] == b"SMIB", "SMIP str")

    # in_project default follows .parent
    mod = m.Amplifier()
    check(b"SXXX" not in [c for c, _ in mod.iff_chunks()], "detached default")
    Project().attach_module(mod)
    check(b"SXXX" in [c for c, _ in mod.iff_chunks()], "attached default")
    check(
        b"SXXX" not in [c for c, _ in mod.iff_chunks(in_project=False)],
        "attached, forced off",
    )

    # options
    mod = m.AnalogGenerator()
    mod.option_values["volume_envelope_scaling_per_key"] = None
    expect_raises("option None", TypeError, lambda: list(mod.options_chunks()))
    first = next(iter(type(mod).options))
    del mod.option_values[first]
    expect_raises("option missing", TypeError, lambda: list(mod.options_chunks()))
    mod = m.AnalogGenerator()
    g = mod.options_chunks()
    mod.options_chnm = -1
    expect_raises("options_chnm -1 on first next", struct.error, lambda: next(g))
    mod = m.Amplifier()
    check(list(mod.specialized_iff_chunks()) == [(None, None)], "no-options sentinel")
    check(list(mod.options_chunks()) == [(b"CHNM", b"\0\0\0\0"), (b"CHDT", b"")], "empty options_chunks")
    mod = m.MultiSynth()
    got = list(mod.specialized_iff_chunks())
    opts = list(mod.options_chunks())
    check(
        any(got[i : i + 2] == opts for i in range(len(got))),
        "MultiSynth options via specialized",
    )
    check(
        list(Module.specialized_iff_chunks(mod)) == opts,
        "base specialized_iff_chunks == options_chunks",
    )
    # raw (non-bool / oversize) option values are masked to their bit width
    mod = m.AnalogGenerator()
    for name, opt in type(mod).options.items():
        mod.option_values[name] = 0xFF
    data = list(mod.options_chunks())[1][1]
    check(data == expected_options(mod), "masked options")
    for name, opt in type(mod).options.items():
        mod.option_values[name] = -1
    check(list(mod.options_chunks())[1][1] == data, "negative options masked")

    # Synth: module without / with recompute hook, detaching during write
    class Hooked(m.Amplifier):
        calls = 0

        def recompute_controller_attachment(self):
            type(self).calls += 1

    Synth(Hooked()).read()
    check(Hooked.calls == 1, f"recompute hook calls {Hooked.calls}")

    class Broken(m.Amplifier):
        def recompute_controller_attachment(self):
            raise AttributeError("inner")

    expect_raises("inner AttributeError", AttributeError, lambda: Synth(Broken()).read())

    class BrokenProp(m.Amplifier):
        @property
        def recompute_controller_attachment(self):
            raise AttributeError("no hook here")

    check(Synth(BrokenProp()).read() == Synth(m.Amplifier()).read(), "property hook")

    mod = m.Amplifier()
    mod.controller_values["volume"] = 2**40
    ids = []
    try:
        for cid, _ in Synth(mod).chunks():
            ids.append(cid)
    except struct.error:
        pass
    else:
        failures.append("oversize CVAL did not raise")
    check(ids[-1] == b"SMIP" and b"CVAL" not in ids, f"CVAL failure position {ids[-3:]}")


def main():
    outputs = {}
    for label, mod in build_all().items():
        data = Synth(mod).read()
        sections = module_sections(data)
        check(len(sections) == 1, f"{label}: synth sections")
        verify_section(mod, sections[0], False, label + "/synth")
        outputs[label + "/synth"] = data
        # a second read gives identical bytes (no hidden state)
        check(Synth(mod).read() == data, f"{label}: unstable output")
        if mod.mtype != "Output":  # an Output synth has no STYP to reload from
            clone = read_sunvox_file(BytesIO(data))
            check(clone.read() == data, f"{label}: reread differs")

    project = Project()
    mods = build_all()
    mods.pop("Output")
    attached = []
    for k, (label, mod) in enumerate(mods.items()):
        project.attach_module(mod)
        attached.append((label, mod))
        if k % 2:
            project.connect(mod, project.output)
    data = project.read()
    sections = module_sections(data)
    check(len(sections) == len(project.modules), "project section count")
    verify_section(project.output, sections[0], True, "Output/project")
    for label, mod in attached:
        verify_section(mod, sections[mod.index], True, label + "/project")
    outputs["all-modules/project"] = data

    for name in ("tests/files/sampler.sunsynth", "tests/files/metamodule.sunsynth"):
        with open(name, "rb") as f:
            obj = read_sunvox_file(f)
        outputs["file:" + name] = obj.read()

    chunk_class_cases()
    error_cases()

    digests = {k: hashlib.sha256(v).hexdigest() for k, v in outputs.items()}
    if "--print" in sys.argv:
        for k, v in digests.items():
            print(f'    "{k}": "{v}",')
        return 0
    check(set(digests) == set(GOLDEN), "golden key set differs")
    for k, v in digests.items():
        check(GOLDEN.get(k) == v, f"{k}: digest {v} != golden {GOLDEN.get(k)}")

    if failures:
        print("FAIL")
        for f in failures:
            print("  -", f)
        return 1
    print(f"PASS ({len(outputs)} serialized objects checked)")
    return 0


if __name__ == "__main__":
    sys.exit(main())
