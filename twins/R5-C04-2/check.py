import hashlib
import io
import logging
import os
import struct
import sys
from enum import Enum
from pathlib import Path

logging.disable(logging.CRITICAL)

from rv.api import read_sunvox_file  # noqa: E402

ROOT = Path(os.getcwd())
FILES = ROOT / "tests" / "files"
FAILURES = []


def check(cond, msg):
    if not cond:
        FAILURES.append(msg)
        print("FAIL:", msg)


# ---------------------------------------------------------------- raw IFF tools
def split_chunks(blob):
    """Independent chunk splitter: [(id4, payload), ...]."""
    out, pos = [], 0
    while pos + 8 <= len(blob):
        cid = blob[pos : pos + 4]
        (size,) = struct.unpack("<I", blob[pos + 4 : pos + 8])
        out.append((cid, blob[pos + 8 : pos + 8 + size]))
        pos += 8 + size
    return out


def join_chunks(items):
    return b"".join(cid + struct.pack("<I", len(d)) + d for cid, d in items)


def u32(v):
    return struct.pack("<I", v)


def i32(v):
    return struct.pack("<i", v)


# ---------------------------------------------------------------- snapshots
SKIP_KEYS = {"parent", "project", "pattern", "_parent", "_project", "_pattern", "_order"}


def norm(v, depth=0, seen=None):
    seen = seen or ()
    if depth > 12:
        return "<deep>"
    if v is None or isinstance(v, (bool, int, float, str)):
        if isinstance(v, Enum):
            return ("enum", type(v).__name__, v.value)
        return v
    if isinstance(v, Enum):
        return ("enum", type(v).__name__, norm(v.value, depth + 1, seen))
    if isinstance(v, (bytes, bytearray)):
        return ("bytes", hashlib.sha1(bytes(v)).hexdigest(), len(v))
    if isinstance(v, (list, tuple)):
        return [norm(x, depth + 1, seen) for x in v]
    if isinstance(v, (set, frozenset)):
        return ("set", sorted((norm(x, depth + 1, seen) for x in v), key=repr))
    if isinstance(v, dict):
        return (
            "dict",
            sorted(
                ((norm(k, depth + 1, seen), norm(x, depth + 1, seen)) for k, x in v.items()),
                key=repr,
            ),
        )
    if hasattr(v, "tolist") and hasattr(v, "dtype"):
        return ("array", str(v.dtype), v.tolist())
    if id(v) in seen:
        return "<cycle>"
    if isinstance(v, type) or callable(v):
        return ("callable", getattr(v, "__name__", type(v).__name__))
    d = getattr(v, "__dict__", None)
    if d is None:
        slots = getattr(type(v), "__slots__", None)
        if slots:
            d = {s: getattr(v, s) for s in slots if hasattr(v, s)}
        else:
            return ("obj", type(v).__name__)
    seen = seen + (id(v),)
    return (
        "obj",
        type(v).__name__,
        sorted(
            ((k, norm(x, depth + 1, seen)) for k, x in d.items() if k not in SKIP_KEYS),
            key=repr,
        ),
    )


def snapshot(obj):
    """Deterministic, reader-independent dump of everything reachable from obj."""
    return norm(obj)


def digest(obj):
    return hashlib.sha256(repr(snapshot(obj)).encode()).hexdigest()[:16]


def load(blob):
    return read_sunvox_file(io.BytesIO(blob))


def fixture_paths():
    return sorted(p for p in FILES.rglob("*") if p.suffix in (".sunvox", ".sunsynth"))


def finish():
    if FAILURES:
        print("%d failure(s)" % len(FAILURES))
        sys.exit(1)
    print("PASS")


# ---------------------------------------------------------------- reference encoder
def cstr(s):
    return s.encode("utf8") + b"\0"


def ver(t):
    return bytes(reversed(t))


def enc_module(m):
    """m: None (empty slot) or dict description -> list of chunks."""
    if m is None:
        return [(b"SEND", b"")]
    out = [(b"SFFF", u32(m.get("flags", 0x49))), (b"SNAM", cstr(m["name"]).ljust(32, b"\0"))]
    if "type" in m:
        out.append((b"STYP", cstr(m["type"])))
    out += [
        (b"SFIN", i32(m.get("finetune", 0))),
        (b"SREL", i32(m.get("relnote", 0))),
        (b"SXXX", i32(m.get("x", 512))),
        (b"SYYY", i32(m.get("y", 512))),
        (b"SZZZ", u32(m.get("layer", 0))),
        (b"SSCL", u32(m.get("scale", 256))),
    ]
    if "vis" in m:
        out.append((b"SVPR", u32(m["vis"])))
    out.append((b"SCOL", bytes(m.get("color", (1, 2, 3)))))
    out.append((b"SMII", u32(m.get("smii", 0))))
    if "midi_out_name" in m:
        out.append((b"SMIN", cstr(m["midi_out_name"])))
    out += [
        (b"SMIC", i32(m.get("smic", 0))),
        (b"SMIB", i32(m.get("smib", -1))),
        (b"SMIP", i32(m.get("smip", -1))),
    ]
    if "links" in m:
        out.append((b"SLNK", b"".join(i32(x) for x in m["links"])))
    if "slots" in m:
        out.append((b"SLnK", b"".join(i32(x) for x in m["slots"])))
    for v in m.get("cvals", []):
        out.append((b"CVAL", i32(v)))
    if "cmid" in m:
        out.append((b"CMID", m["cmid"]))
    out.append((b"SEND", b""))
    return out


def enc_pattern(p):
    if p is None:
        return [(b"PEND", b"")]
    if "clone_of" in p:
        return [
            (b"PPAR", u32(p["clone_of"])),
            (b"PFFF", u32(p.get("pfff", 1))),
            (b"PXXX", i32(p.get("x", 0))),
            (b"PYYY", i32(p.get("y", 0))),
            (b"PEND", b""),
        ]
    notes = p["notes"]  # list of lines; each line a list of (note, vel, module, ctl, val)
    raw = b"".join(struct.pack("<BBHHH", *n) for line in notes for n in line)
    out = [(b"PDTA", raw)]
    if "name" in p:
        out.append((b"PNME", cstr(p["name"])))
    out += [
        (b"PCHN", u32(len(notes[0]))),
        (b"PLIN", u32(len(notes))),
        (b"PYSZ", u32(p.get("ysize", 32))),
        (b"PFLG", u32(p.get("pflg", 0))),
        (b"PICO", p.get("icon", bytes(range(32)))),
        (b"PFGC", bytes(p.get("fg", (0, 0, 0)))),
        (b"PBGC", bytes(p.get("bg", (255, 255, 255)))),
        (b"PFFF", u32(p.get("pfff", 0))),
        (b"PXXX", i32(p.get("x", 0))),
        (b"PYYY", i32(p.get("y", 0))),
        (b"PEND", b""),
    ]
    return out


def enc_project_chunks(d):
    out = [(b"SVOX", b""), (b"VERS", ver(d["vers"]))]
    if "bver" in d:
        out.append((b"BVER", ver(d["bver"])))
    for cid, key, pk in HEADER_FIELDS:
        if key in d:
            out.append((cid, pk(d[key])))
        if cid == b"GVOL" and "name" in d:
            out.append((b"NAME", cstr(d["name"])))
    for p in d.get("patterns", []):
        out += enc_pattern(p)
    for m in d.get("modules", []):
        out += enc_module(m)
    return out


HEADER_FIELDS = [
    (b"FLGS", "flags", u32),
    (b"SFGS", "sfgs", u32),
    (b"BPM ", "bpm", u32),
    (b"SPED", "tpl", u32),
    (b"TGRD", "tgrd", u32),
    (b"TGD2", "tgd2", u32),
    (b"GVOL", "gvol", u32),
    (b"MSCL", "mscl", u32),
    (b"MZOO", "mzoo", u32),
    (b"MXOF", "mxof", i32),
    (b"MYOF", "myof", i32),
    (b"LMSK", "lmsk", u32),
    (b"CURL", "curl", u32),
    (b"TIME", "time", i32),
    (b"REPS", "reps", i32),
    (b"SELS", "sels", u32),
    (b"LGEN", "lgen", i32),
    (b"PATN", "patn", u32),
    (b"PATT", "patt", u32),
    (b"PATL", "patl", u32),
]

REF = dict(
    vers=(1, 9, 6, 1),
    bver=(1, 9, 5, 2),
    flags=0x12345,
    sfgs=(5 << 3) | 2,
    bpm=133,
    tpl=5,
    tgrd=3,
    tgd2=7,
    gvol=90,
    name="Réf project",
    mscl=300,
    mzoo=200,
    mxof=-17,
    myof=23,
    lmsk=0b101,
    curl=2,
    time=-4,
    reps=12,
    sels=2,
    lgen=-1,
    patn=1,
    patt=2,
    patl=3,
    patterns=[
        dict(
            name="pat A",
            notes=[
                [(1, 2, 0x0103, 0x0405, 0x0607), (0, 0, 0, 0, 0)],
                [(128, 129, 0xFFFF, 0x1F00, 0x8001), (60, 0, 3, 0, 0)],
                [(0, 0, 0, 0, 0), (13, 64, 0x0201, 0x0011, 0x2233)],
            ],
            ysize=24,
            pflg=1,
            fg=(9, 8, 7),
            bg=(6, 5, 4),
            pfff=0x10,
            x=-64,
            y=96,
        ),
        None,
        dict(clone_of=0, pfff=0x9, x=12, y=-32),
    ],
    modules=[
        dict(name="Output", flags=0x43, links=[2, -1, -1], color=(255, 254, 253), x=900, y=-5),
        None,
        dict(
            name="amp one",
            type="Amplifier",
            flags=0x51,
            links=[3],
            cvals=[700, 28, 200],
            finetune=-33,
            relnote=4,
            layer=3,
            scale=128,
            vis=0x12345678,
            smii=(7 << 1) | 1,
            midi_out_name="dev",
            smic=3,
            smib=5,
            smip=9,
        ),
        dict(
            name="amp two",
            type="Amplifier",
            flags=0x51,
            links=[],
            cvals=[1, 2, 3, 1, 4, 0, 5, 6, 16390],
            cmid=b"".join(struct.pack("<BBBBHBB", i % 9, i, i % 6, 0, 1000 + i, 0, 0xC8) for i in range(9)),
        ),
        None,
        None,
    ],
)


def check_ref_project(p, label="ref"):
    """Assert every field of the hand-encoded reference project (independent oracle)."""
    def eq(a, b, what):
        check(a == b, "%s: %s: %r != %r" % (label, what, a, b))

    eq(type(p).__name__, "Project", "type")
    eq(p.loaded_sunvox_version, (1, 9, 6, 1), "VERS")
    eq(p.based_on_version, (1, 9, 5, 2), "BVER")
    eq(p.flags, 0x12345, "FLGS")
    eq(int(p.receive_sync_midi), 2, "SFGS midi")
    eq(int(p.receive_sync_other), 5, "SFGS other")
    eq(p.initial_bpm, 133, "BPM")
    eq(p.initial_tpl, 5, "SPED")
    eq(p.time_grid, 3, "TGRD")
    eq(p.time_grid2, 7, "TGD2")
    eq(p.global_volume, 90, "GVOL")
    eq(p.name, "Réf project", "NAME")
    eq(p.modules_scale, 300, "MSCL")
    eq(p.modules_zoom, 200, "MZOO")
    eq(p.modules_x_offset, -17, "MXOF")
    eq(p.modules_y_offset, 23, "MYOF")
    eq(p.modules_layer_mask, 5, "LMSK")
    eq(p.modules_current_layer, 2, "CURL")
    eq(p.timeline_position, -4, "TIME")
    eq(p.restart_position, 12, "REPS")
    eq(p.selected_module, 2, "SELS")
    eq(p.selected_generator, -1, "LGEN")
    eq(p.current_pattern, 1, "PATN")
    eq(p.current_track, 2, "PATT")
    eq(p.current_line, 3, "PATL")
    # patterns
    eq(len(p.patterns), 3, "pattern count")
    a, b, c = p.patterns
    eq(b, None, "empty pattern slot")
    eq(type(a).__name__, "Pattern", "pattern 0 type")
    eq((a.name, a.tracks, a.lines, a.y_size, a.flags_PFLG), ("pat A", 2, 3, 24, 1), "pattern hdr")
    eq(a.icon, bytes(range(32)), "PICO")
    eq((tuple(a.fg_color), tuple(a.bg_color)), ((9, 8, 7), (6, 5, 4)), "pattern colors")
    eq((a.flags_PFFF, a.x, a.y), (0x10, -64, 96), "pattern placement")
    got = [[(n.note, n.vel, n.module, n.ctl, n.val) for n in line] for line in a.data]
    eq(got, [[tuple(n) for n in line] for line in REF["patterns"][0]["notes"]], "notes")
    check(a.project is p and c.project is p, label + ": pattern.project")
    eq(type(c).__name__, "PatternClone", "pattern 2 type")
    eq((c.source, c.flags_PFFF, c.x, c.y), (0, 9, 12, -32), "clone fields")
    # modules
    eq([type(m).__name__ for m in p.modules], ["Output", "NoneType", "Amplifier", "Amplifier"], "module layout")
    m0, _, m2, m3 = p.modules
    eq([m0.index, m2.index, m3.index], [0, 2, 3], "module indexes")
    check(p.output is m0, label + ": project.output")
    check(all(m.parent is p for m in (m0, m2, m3)), label + ": module.parent")
    eq((m0.name, m0.flags, tuple(m0.color), m0.x, m0.y), ("Output", 0x43, (255, 254, 253), 900, -5), "output fields")
    eq((m0.in_links, m0.in_link_slots, m0.out_links, m0.out_link_slots), ([2], [0], [], []), "output links")
    eq((m2.in_links, m2.in_link_slots, m2.out_links, m2.out_link_slots), ([3], [0], [0], [0]), "amp one links")
    eq((m3.in_links, m3.in_link_slots, m3.out_links, m3.out_link_slots), ([], [], [2], [0]), "amp two links")
    eq((m2.name, m2.mtype, m2.flags), ("amp one", "Amplifier", 0x51), "amp one ident")
    eq((m2.mod_finetune, m2.mod_relative_note, m2.layer, m2.mod_scale), (-33, 4, 3, 128), "amp one misc")
    eq(int(m2.visualization), 0x12345678, "SVPR")
    eq((m2.midi_in_always, m2.midi_in_channel), (True, 7), "SMII")
    eq((m2.midi_out_name, m2.midi_out_channel, m2.midi_out_bank, m2.midi_out_program), ("dev", 3, 5, 9), "midi out")
    eq((m0.midi_in_always, m0.midi_in_channel, m0.midi_out_name), (False, 0, None), "output midi defaults")
    amp = lambda m: (m.volume, m.balance, m.dc_offset, m.inverse, m.stereo_width, m.absolute, m.fine_volume, m.gain, m.bipolar_dc_offset)
    eq(amp(m2), (700, -100, 72, False, 128, False, 32768, 1, 0), "truncated CVAL list leaves defaults")
    eq(amp(m3), (1, -126, -125, True, 4, False, 5, 6, 6), "full CVAL list")
    names = ["volume", "balance", "dc_offset", "inverse", "stereo_width", "absolute", "fine_volume", "gain", "bipolar_dc_offset"]
    got = [
        (mm.message_type.value, mm.channel, mm.slope.value, mm.message_parameter)
        for mm in (m3.controller_midi_maps[n] for n in names)
    ]
    eq(got, [(i % 9, i, i % 6, 1000 + i) for i in range(9)], "CMID")


def ref_blob():
    return join_chunks(enc_project_chunks(REF))


# digests of snapshot() for every shipped fixture, recorded on the unchanged tree
GOLDEN = {
    "amplifier.sunsynth": "5d6f880fedb5f904",
    "analog-generator.sunsynth": "3be7ceb0f016ec9c",
    "compressor.sunsynth": "e6f1038422f61688",
    "dc-blocker.sunsynth": "90aa1998869f0f48",
    "delay.sunsynth": "2e38f4fe0ca15aaa",
    "distortion.sunsynth": "1969b322f8a5dde9",
    "drum-synth.sunsynth": "488e1601728c1116",
    "echo.sunsynth": "580eaffedbb69fc2",
    "empty.sunvox": "66be1e92ec6532c7",
    "eq.sunsynth": "8f01a6e2c2d07800",
    "feedback.sunsynth": "7ad817f8f81fcd5a",
    "fft.sunsynth": "a0b0d6b410ada8bb",
    "filter-pro.sunsynth": "b3d981a8716b0a32",
    "filter.sunsynth": "43405146cbcc1e50",
    "flanger.sunsynth": "b12b2f389e627572",
    "fmx.sunsynth": "de9a7f9d3d90ad76",
    "generator.sunsynth": "624283da0b85d36b",
    "glide.sunsynth": "1cf43fc4070de7c7",
    "gpio.sunsynth": "cb05b77d563c8a09",
    "input.sunsynth": "a23f54a65f8c8ba9",
    "issue109/filter_lfo.sunvox": "6e55d05c6f26ed39",
    "issue41/sample.sunvox": "e11853aeb1ba9611",
    "issue54/test1.sunvox": "cea9ca107590a02d",
    "kicker.sunsynth": "59a6b8c06e9c1d8f",
    "lfo.sunsynth": "0d5bb121971aa05b",
    "loop.sunsynth": "4093635d3bd2e484",
    "metamodule-option-78.sunsynth": "c2666b79cc73033d",
    "metamodule-option-79.sunsynth": "2e5939fff56e3dbf",
    "metamodule-option-7a.sunsynth": "685d1bbb11bfd64a",
    "metamodule.sunsynth": "8fcc8d3bee277fda",
    "modulator.sunsynth": "15bace403c9eb3db",
    "module-multiselect.sunvox": "1683412b3881c570",
    "multictl.sunsynth": "b8e6c11ab7bcf06f",
    "multisynth-random-off.sunsynth": "741bd3f6ffea1442",
    "multisynth-random1.sunsynth": "aab8a6004f28bc26",
    "multisynth-random2.sunsynth": "ba1ea7fa357d858d",
    "multisynth-random3.sunsynth": "3f7571e21c859ac3",
    "multisynth.sunsynth": "f186cdab2dcb36b4",
    "pitch-shifter.sunsynth": "16664fcadd126d60",
    "pitch2ctl.sunsynth": "c3e5861640f5b8f2",
    "reverb.sunsynth": "bd96b899a99dcc63",
    "sampler.sunsynth": "d1c3c5ea0833ffdb",
    "single-fm.sunvox": "f67221a4f23364ad",
    "smooth.sunsynth": "9d2eebad4c95b971",
    "sound2ctl.sunsynth": "b43aafd48fbbc1ba",
    "spectravoice.sunsynth": "65143c11826b3abd",
    "supertracks.sunvox": "5596f5c3251e421d",
    "velocity2ctl.sunsynth": "663791474a8a7277",
    "vibrato.sunsynth": "abe22eeb52538033",
    "vocal-filter.sunsynth": "b4280c62a5d055c0",
    "vorbis-player.sunsynth": "03d538592c4550f5",
    "waveshaper.sunsynth": "0f1cfe307027aef4",
}


def check_fixtures_golden():
    paths = fixture_paths()
    check(len(paths) == len(GOLDEN), "fixture count %d" % len(paths))
    for p in paths:
        key = str(p.relative_to(FILES)).replace(os.sep, "/")
        got = digest(load(p.read_bytes()))
        check(got == GOLDEN.get(key), "golden digest differs for %s: %s" % (key, got))


# ================================================================ checks for refactoring 2
# (SunVoxReader: process_chunks / VERS / BVER / PDTA / PPAR / SFFF / process_end_of_file,
#  SunSynthReader, nested-section reading)
import copy
import random


def outcome(blob):
    """digest of the loaded object, or the exception type if loading fails."""
    try:
        return digest(load(blob))
    except Exception as e:  # noqa
        return "raises " + type(e).__name__


def simple_mod(name, links=None, slots=None, **kw):
    if name == "Output":
        d = dict(name=name, **kw)
    else:
        d = dict(name=name, type="Amplifier", flags=0x51, **kw)
    if links is not None:
        d["links"] = links
    if slots is not None:
        d["slots"] = slots
    return d


def project_with(modules, vers=(1, 9, 6, 1), patterns=()):
    return join_chunks(
        enc_project_chunks(dict(vers=vers, bpm=120, modules=modules, patterns=list(patterns)))
    )


def links_of(p):
    return [
        None if m is None else (m.in_links, m.in_link_slots, m.out_links, m.out_link_slots)
        for m in p.modules
    ]


def test_header_defaults_and_versions():
    from rv.project import Project

    fresh = Project()
    # only the magic: everything stays at documented defaults, BVER falls back to 1.7.0.0
    p = load(join_chunks([(b"SVOX", b"")]))
    check(p.based_on_version == (1, 7, 0, 0), "legacy BVER default")
    check(p.loaded_sunvox_version == fresh.loaded_sunvox_version, "VERS default")
    check(p.modules == [] and p.patterns == [], "no modules / patterns")
    for attr in (
        "flags initial_bpm initial_tpl time_grid time_grid2 global_volume name modules_scale modules_zoom "
        "modules_x_offset modules_y_offset modules_layer_mask modules_current_layer timeline_position "
        "restart_position selected_module selected_generator current_pattern current_track current_line "
        "receive_sync_midi receive_sync_other"
    ).split():
        check(getattr(p, attr) == getattr(fresh, attr), "default kept for " + attr)
    # VERS / BVER byte order
    for v in ((1, 9, 6, 1), (2, 1, 0, 3), (0, 0, 0, 255), (255, 1, 2, 3)):
        p = load(join_chunks([(b"SVOX", b""), (b"VERS", ver(v)), (b"BVER", ver(v[::-1]))]))
        check(p.loaded_sunvox_version == v and p.based_on_version == v[::-1], "version %r" % (v,))
        check(type(p.loaded_sunvox_version) is tuple, "version is a tuple")
        s = load(join_chunks([(b"SSYN", b""), (b"VERS", ver(v))] + enc_module(simple_mod("m"))))
        check(s.loaded_sunsynth_version == v, "synth version %r" % (v,))
    for bad in (b"", b"\x01\x02\x03", b"\x01\x02\x03\x04\x05"):
        for cid in (b"VERS", b"BVER"):
            check(outcome(join_chunks([(b"SVOX", b""), (cid, bad)])) == "raises error", "bad %s size" % cid)
    # BVER given explicitly as 1.7.0.0 or anything else is kept; BVER after modules is honoured too
    chunks_ = enc_project_chunks(dict(vers=(1, 9, 6, 1), modules=[simple_mod("Output", flags=0x43)]))
    p = load(join_chunks(chunks_ + [(b"BVER", ver((3, 2, 1, 0)))]))
    check(p.based_on_version == (3, 2, 1, 0), "late BVER")
    # dropping any single optional header chunk leaves exactly that field at its default
    ref_items = enc_project_chunks(REF)
    full = load(join_chunks(ref_items))
    field_of = {
        b"FLGS": ["flags"], b"SFGS": ["receive_sync_midi", "receive_sync_other"], b"BPM ": ["initial_bpm"],
        b"SPED": ["initial_tpl"], b"TGRD": ["time_grid"], b"TGD2": ["time_grid2"], b"GVOL": ["global_volume"],
        b"NAME": ["name"], b"MSCL": ["modules_scale"], b"MZOO": ["modules_zoom"], b"MXOF": ["modules_x_offset"],
        b"MYOF": ["modules_y_offset"], b"LMSK": ["modules_layer_mask"], b"CURL": ["modules_current_layer"],
        b"TIME": ["timeline_position"], b"REPS": ["restart_position"], b"SELS": ["selected_module"],
        b"LGEN": ["selected_generator"], b"PATN": ["current_pattern"], b"PATT": ["current_track"],
        b"PATL": ["current_line"], b"BVER": ["based_on_version"],
    }
    all_fields = sorted(set(sum(field_of.values(), [])))
    for cid, fields in field_of.items():
        items = [it for it in ref_items if it[0] != cid]
        check(len(items) == len(ref_items) - 1, "chunk %s present once" % cid)
        p = load(join_chunks(items))
        for f in all_fields:
            if f in fields:
                want = (1, 7, 0, 0) if f == "based_on_version" else getattr(fresh, f)
            else:
                want = getattr(full, f)
            check(getattr(p, f) == want, "drop %s: field %s = %r" % (cid, f, getattr(p, f)))
        check(links_of(p) == links_of(full), "drop %s: links unchanged" % cid)
    # reordering the independent header chunks changes nothing
    want = digest(full)
    head = [it for it in ref_items[1:] if it[0] in field_of or it[0] == b"VERS"]
    rest = [it for it in ref_items[1:] if it not in head]
    rng = random.Random(4)
    for _ in range(10):
        rng.shuffle(head)
        check(digest(load(join_chunks([ref_items[0]] + head + rest))) == want, "header reorder")


def test_module_positions():
    out = simple_mod("Output", flags=0x43)
    a, b = simple_mod("a"), simple_mod("b")
    cases = [
        ([out, None, None, a, None, b, None, None], ["Output", None, None, "a", None, "b"]),
        ([None, None], []),
        ([out], ["Output"]),
        ([None, a], [None, "a"]),
        ([out, a, b], ["Output", "a", "b"]),
    ]
    for mods, want in cases:
        p = load(project_with(copy.deepcopy(mods)))
        got = [None if m is None else m.name for m in p.modules]
        check(got == want, "module layout %r" % (got,))
        check(all(m is None or (m.index == i and m.parent is p) for i, m in enumerate(p.modules)), "indexes")
        first = p.modules[0] if p.modules else None
        check(type(first).__name__ == ("Output" if mods[0] is not None and want else "NoneType"), "slot 0 class")


def test_link_rebuilding():
    out = lambda **kw: simple_mod("Output", flags=0x43, **kw)
    m = simple_mod
    # hand-computed expectations: (in_links, in_link_slots, out_links, out_link_slots) per module
    p = load(project_with([out(links=[1, 2]), m("a", links=[2]), m("b", links=[])]))
    check(
        links_of(p) == [([1, 2], [0, 1], [], []), ([2], [0], [0], [0]), ([], [], [1, 0], [0, 1])],
        "slots derived when SLnK absent: %r" % links_of(p),
    )
    p = load(project_with([out(links=[2, -1, 1]), m("a"), m("b")]))
    check(
        links_of(p) == [([2, -1, 1], [0, -1, 0], [], []), ([], [], [0], [2]), ([], [], [0], [0])],
        "gap in SLNK: %r" % links_of(p),
    )
    p = load(project_with([out(links=[1, 2], slots=[1, 0]), m("a", links=[2], slots=[2]), m("b")]))
    check(
        links_of(p) == [([1, 2], [1, 0], [], []), ([2], [2], [-1, 0], [-1, 0]), ([], [], [0, -1, 1], [1, -1, 0])],
        "explicit SLnK: %r" % links_of(p),
    )
    # feedback loop (module linked to itself) and mutual links
    p = load(project_with([out(links=[1]), m("a", links=[1, 2]), m("b", links=[1])]))
    check(
        links_of(p) == [([1], [2], [], []), ([1, 2], [0, 0], [1, 2, 0], [0, 0, 0]), ([1], [1], [1], [1])],
        "feedback: %r" % links_of(p),
    )
    # empty slot between modules is preserved, link numbering not shifted
    p = load(project_with([out(links=[2]), None, m("a")]))
    check(links_of(p) == [([2], [0], [], []), None, ([], [], [0], [0])], "gap module: %r" % links_of(p))
    # error / warning paths keep their exception types
    check(outcome(project_with([out(links=[1]), None, m("a")])) == "raises AttributeError", "link to empty (no slots)")
    check(outcome(project_with([out(links=[1], slots=[0]), None, m("a")])) == "raises RuntimeError", "link to empty (slots)")
    check(outcome(project_with([out(links=[1, 2], slots=[0]), m("a"), m("b")])) == "raises IndexError", "short SLnK")
    check(outcome(project_with([out(links=[7], slots=[0]), m("a")])) == "raises IndexError", "dangling with slots")
    # seeded random topologies: aggregate outcome must match the value recorded on the unchanged tree
    rng = random.Random(20240)
    agg = hashlib.sha256()
    kinds = {}
    for _ in range(300):
        n = rng.randint(1, 6)
        mods = []
        for i in range(n):
            if i and rng.random() < 0.2:
                mods.append(None)
                continue
            d = out() if i == 0 else m("m%d" % i)
            if rng.random() < 0.8:
                k = rng.randint(0, 4)
                d["links"] = [rng.choice([-1] + list(range(n)) + ([n + 2] if rng.random() < 0.1 else [])) for _ in range(k)]
                if rng.random() < 0.4:
                    d["slots"] = [rng.randint(-1, 3) for _ in range(k if rng.random() < 0.9 else max(0, k - 1))]
            mods.append(d)
        mods += [None] * rng.randint(0, 2)
        o = outcome(project_with(mods))
        kinds[o[:6] == "raises" and o or "ok"] = kinds.get(o[:6] == "raises" and o or "ok", 0) + 1
        agg.update(o.encode())
    check(kinds.get("ok", 0) > 100 and len(kinds) >= 3, "random topologies cover ok and error paths: %r" % kinds)
    check(agg.hexdigest()[:16] == RANDOM_TOPOLOGY_DIGEST, "random topologies digest %s %r" % (agg.hexdigest()[:16], kinds))


class WarnCapture(logging.Handler):
    def __init__(self):
        super().__init__(level=logging.WARNING)
        self.messages = []

    def emit(self, record):
        if record.name == "rv.readers.sunvox":
            self.messages.append(record.getMessage())

    def __enter__(self):
        logging.disable(logging.NOTSET)
        logging.getLogger("rv").addHandler(self)
        return self

    def __exit__(self, *exc):
        logging.getLogger("rv").removeHandler(self)
        logging.disable(logging.CRITICAL)


def test_dangling_link_warning():
    out = simple_mod("Output", flags=0x43, links=[1, 7])
    with WarnCapture() as wc:
        # the warning is logged for each dangling link; the later out-link pass then
        # fails on the missing slot, as it always has
        res = outcome(project_with([out, simple_mod("a", links=[9, -1])]))
    check(
        wc.messages
        == [
            "Found SLNK on 1 referencing non-existent module 9",
            "Found SLNK on 0 referencing non-existent module 7",
        ],
        "dangling link warnings %r" % wc.messages,
    )
    check(res == "raises IndexError", "dangling link outcome %r" % res)


def test_patterns_and_legacy_fixup():
    notes = [[(60, 10, 0x0103, 0, 0), (0, 0, 0xFF02, 5, 6)], [(1, 1, 0x00FF, 1, 1), (2, 2, 0x0100, 2, 2)]]
    pats = [dict(notes=notes, name="p0"), None, dict(clone_of=0, x=4, y=8), None]
    mods = [simple_mod("Output", flags=0x43)]
    wide = [[0x0103, 0xFF02], [0x00FF, 0x0100]]
    narrow = [[0x03, 0x02], [0xFF, 0x00]]
    for vers, want in (
        ((1, 9, 5, 0), wide), ((1, 9, 6, 1), wide), ((2, 0, 0, 0), wide),
        ((1, 9, 4, 255), narrow), ((1, 8, 9, 9), narrow), ((0, 9, 9, 9), narrow), ((1, 7, 0, 0), narrow),
    ):
        p = load(project_with(copy.deepcopy(mods), vers=vers, patterns=copy.deepcopy(pats)))
        check([type(x).__name__ for x in p.patterns] == ["Pattern", "NoneType", "PatternClone", "NoneType"], "pattern slots")
        got = [[n.module for n in line] for line in p.patterns[0].data]
        check(got == want, "note.module for VERS %r: %r" % (vers, got))
        check([[(n.note, n.vel, n.ctl, n.val) for n in line] for line in p.patterns[0].data]
              == [[(a, b, d, e) for a, b, c, d, e in line] for line in notes], "other note fields untouched")
        check((p.patterns[2].source, p.patterns[2].x, p.patterns[2].y) == (0, 4, 8), "clone")
        check(p.patterns[0].project is p and p.patterns[2].project is p, "pattern ownership")
    # VERS chunk placed after the patterns still decides
    items = enc_project_chunks(dict(vers=(1, 9, 4, 0), modules=copy.deepcopy(mods), patterns=copy.deepcopy(pats)))
    vers_item = items.pop(1)
    p = load(join_chunks(items + [vers_item]))
    check([[n.module for n in line] for line in p.patterns[0].data] == narrow, "late VERS")


RANDOM_TOPOLOGY_DIGEST = "5bcbf6e277f71529"

test_header_defaults_and_versions()
test_module_positions()
test_link_rebuilding()
test_dangling_link_warning()
test_patterns_and_legacy_fixup()
check_ref_project(load(ref_blob()))
check_fixtures_golden()
finish()
