"""Behaviour check for Module.__init__ / Module.clone / Pattern.set_via_*.

Run from the repository root:
    PYTHONPATH=<root>/src/python python check.py
Prints PASS and exits 0 when everything behaves as documented here.
"""
import glob
import io
import os
import sys
from collections import defaultdict
from enum import Enum

import rv.modules  # noqa: F401  (registers all module classes)
from rv.api import NOTE, Note, Pattern, Project, Synth, m, read_sunvox_file
from rv.controller import DependentRange, Range
from rv.errors import ControllerValueError
from rv.modules import MODULE_CLASSES

FAILURES = []


def check(cond, msg):
    if not cond:
        FAILURES.append(msg)


def synth_bytes(mod):
    f = io.BytesIO()
    Synth(mod).write_to(f)
    return f.getvalue()


def snapshot(mod):
    # Serialise first: writing fills in the (defaultdict) midi maps lazily.
    data = synth_bytes(mod)
    return (
        dict(mod.controller_values),
        list(mod.controller_values),
        set(mod.controllers_loaded),
        dict(mod.option_values),
        list(mod.in_links),
        list(mod.in_link_slots),
        list(mod.out_links),
        list(mod.out_link_slots),
        mod.name,
        mod.x,
        mod.y,
        mod.layer,
        mod.mod_scale,
        mod.color,
        int(mod.visualization),
        mod.mod_finetune,
        mod.mod_relative_note,
        mod.midi_in_always,
        mod.midi_in_channel,
        mod.midi_out_name,
        mod.midi_out_channel,
        mod.midi_out_bank,
        mod.midi_out_program,
        {k: v.cmid_data for k, v in mod.controller_midi_maps.items()},
        data,
    )


def another_value(mod, name, controller):
    """A valid value for the controller that differs from the current one."""
    t = controller.instance_value_type(mod)
    current = getattr(mod, name)
    if isinstance(t, Range):
        return t.max if current != t.max else t.min
    if isinstance(t, type) and issubclass(t, Enum):
        others = [e for e in t if e != current]
        return others[-1] if others else current
    if t is bool:
        return not current
    return current


def mutate_everything(mod):
    for name, controller in mod.controllers.items():
        if name.startswith("user_defined_") and name != "user_defined_controllers":
            continue
        try:
            setattr(mod, name, another_value(mod, name, controller))
        except Exception:  # pragma: no cover - some combinations are invalid
            pass
    for name, option in mod.options.items():
        current = getattr(mod, name)
        if option.size == 1:
            setattr(mod, name, not current)
        else:
            setattr(mod, name, (option.max if option.max is not None else 1))
    mod.in_links.append(7)
    mod.in_link_slots.append(1)
    mod.out_links.append(9)
    mod.out_link_slots.append(2)
    mod.name = "changed"
    mod.x, mod.y, mod.layer = 1, 2, 3
    mod.mod_scale = 300
    mod.color = (1, 2, 3)
    mod.visualization = 0x01020304
    mod.mod_finetune = 5
    mod.mod_relative_note = -3
    mod.midi_in_always = True
    mod.midi_in_channel = 3
    mod.midi_out_name = "dev"
    mod.midi_out_channel = 4
    mod.midi_out_bank = 5
    mod.midi_out_program = 6
    first = next(iter(mod.controllers), None)
    if first is not None:
        mod.controller_midi_maps[first].cmid_data = b"\x01\x02\x03\x04\x05\x06\x07\x08"


EXPECTED_ATTR_ORDER = [
    "index",
    "parent",
    "controller_values",
    "controllers_loaded",
    "controller_midi_maps",
    "option_values",
    "mod_finetune",
    "mod_relative_note",
    "x",
    "y",
    "layer",
    "mod_scale",
    "color",
    "midi_in_always",
    "midi_in_channel",
    "midi_out_name",
    "midi_out_channel",
    "midi_out_bank",
    "midi_out_program",
    "name",
    "_visualization",
    "in_links",
    "in_link_slots",
    "out_links",
    "out_link_slots",
]


def test_construction_isolation():
    classes = [c for t, c in sorted(MODULE_CLASSES.items())]
    check(len(classes) >= 30, "expected the full module registry")
    for cls in classes:
        a, b = cls(), cls()
        label = cls.__name__
        # per-instance containers
        for attr in (
            "controller_values",
            "controllers_loaded",
            "controller_midi_maps",
            "option_values",
            "in_links",
            "in_link_slots",
            "out_links",
            "out_link_slots",
        ):
            check(getattr(a, attr) is not getattr(b, attr), f"{label}.{attr} shared")
            check(
                getattr(a, attr) is not getattr(cls, attr, None),
                f"{label}.{attr} is the class attribute",
            )
        check(type(a.controller_values) is dict, f"{label} controller_values type")
        check(type(a.controllers_loaded) is set, f"{label} controllers_loaded type")
        check(
            type(a.controller_midi_maps) is defaultdict,
            f"{label} controller_midi_maps type",
        )
        check(a.in_links == [] and a.out_links == [], f"{label} links not empty")
        check(
            a.in_link_slots == [] and a.out_link_slots == [],
            f"{label} link slots not empty",
        )
        # all controllers are loaded, independent ones first, in definition order
        names = list(cls.controllers)
        dependent = [
            n
            for n in names
            if isinstance(cls.controllers[n].value_type, DependentRange)
        ]
        independent = [n for n in names if n not in dependent]
        check(
            list(a.controller_values) == independent + dependent,
            f"{label} controller_values order",
        )
        check(a.controllers_loaded == set(names), f"{label} controllers_loaded")
        check(set(a.option_values) >= set(cls.options), f"{label} option names")
        if not any(opt.exclusive_of for opt in cls.options.values()):
            check(
                list(a.option_values) == list(cls.options), f"{label} option order"
            )
        for n, opt in cls.options.items():
            check(getattr(a, n) == opt.default, f"{label}.{n} option default")
        # attribute creation order of the plain Module part
        attr_order = [k for k in vars(a) if k in EXPECTED_ATTR_ORDER]
        expected_order = [
            k
            for k in EXPECTED_ATTR_ORDER
            # Output.name is a read-only style property, not an instance attribute
            if not (k == "name" and isinstance(cls.name, property))
        ]
        check(attr_order == expected_order, f"{label} attribute order")
        check(a.index is None and a.parent is None, f"{label} index/parent")
        if not isinstance(cls.name, property):
            check(a.name == cls.name, f"{label} default name")
        check(
            (a.x, a.y, a.layer, a.mod_scale, a.color)
            == (512, 512, 0, 256, (255, 255, 255)),
            f"{label} placement defaults",
        )
        check(int(a.visualization) == 0x000C0101, f"{label} visualization default")
        check(
            (
                a.mod_finetune,
                a.mod_relative_note,
                a.midi_in_always,
                a.midi_in_channel,
                a.midi_out_name,
                a.midi_out_channel,
                a.midi_out_bank,
                a.midi_out_program,
            )
            == (0, 0, False, 0, None, 0, -1, -1),
            f"{label} tuning/midi defaults",
        )
        if cls.mtype in (None, "Output") or cls is rv.modules.Module:
            continue
        before = snapshot(b)
        fresh = snapshot(cls())
        check(before == fresh, f"{label}: two fresh instances differ")
        mutate_everything(a)
        check(snapshot(a) != fresh, f"{label}: mutation had no effect on A")
        check(snapshot(b) == before, f"{label}: mutating A changed B")
        check(snapshot(cls()) == fresh, f"{label}: mutating A changed a new instance")


def test_kwargs():
    amp = m.Amplifier(
        volume=100,
        name="amp",
        x=1,
        y=2,
        layer=3,
        finetune=4,
        relative_note=5,
        color=(9, 8, 7),
        midi_in_always=True,
        midi_in_channel=2,
        midi_out_name="out",
        midi_out_channel=3,
        midi_out_bank=4,
        midi_out_program=5,
        visualization=0x11,
        index=6,
        parent=None,
        inverse=True,
    )
    check(amp.volume == 100 and amp.controller_values["volume"] == 100, "kw volume")
    check(amp.name == "amp", "kw name")
    check((amp.x, amp.y, amp.layer) == (1, 2, 3), "kw x/y/layer")
    check((amp.mod_finetune, amp.mod_relative_note) == (4, 5), "kw tuning")
    check(amp.color == (9, 8, 7), "kw color")
    check(
        (
            amp.midi_in_always,
            amp.midi_in_channel,
            amp.midi_out_name,
            amp.midi_out_channel,
            amp.midi_out_bank,
            amp.midi_out_program,
        )
        == (True, 2, "out", 3, 4, 5),
        "kw midi",
    )
    check(int(amp.visualization) == 0x11, "kw visualization")
    check(amp.index == 6 and int(amp) == 7, "kw index")
    check(amp.inverse is True, "kw option")
    # name=None keeps the class default
    check(m.Amplifier(name=None).name == "Amplifier", "name=None")
    check(m.Amplifier(name="").name == "", "name=''")
    # scale / mod_scale
    check(m.Amplifier().mod_scale == 256, "default scale")
    check(m.Amplifier(scale=300).mod_scale == 300, "scale kw")
    check(m.Amplifier(scale=300).scale == 300, "scale property")
    check(m.Amplifier(mod_scale=123).mod_scale == 123, "mod_scale kw")
    check(m.Amplifier(scale=300, mod_scale=123).mod_scale == 300, "scale wins")
    smooth = m.Smooth(scale=7)
    check("scale" in m.Smooth.controllers, "Smooth has a scale controller")
    check(smooth.controller_values["scale"] == 7, "Smooth scale controller kw")
    check(smooth.mod_scale == 256, "Smooth mod_scale untouched by scale kw")
    check(m.Smooth(scale=7, mod_scale=99).mod_scale == 99, "Smooth mod_scale kw")
    # invalid value: same error type, raised for independent controllers first
    try:
        m.Amplifier(volume=99999)
    except ControllerValueError:
        pass
    else:
        check(False, "out of range volume accepted")
    # string enum names are converted
    lfo = m.Lfo(waveform="square", frequency_unit="hz", freq=16000)
    check(lfo.waveform == m.Lfo.Waveform.square, "enum by name")
    check(lfo.frequency_unit == m.Lfo.FrequencyUnit.hz, "enum by name 2")
    check(lfo.freq == 16000, "dependent range uses the unit given in kw")
    check(list(lfo.controller_values)[-1] == "freq", "dependent controller is last")
    check(
        list(lfo.controller_values)[:3] == ["volume", "type", "amplitude"],
        "definition order otherwise",
    )
    delay = m.Delay(delay_unit=m.Delay.DelayUnit.hz, delay_l=400, delay_r=2)
    check((delay.delay_l, delay.delay_r) == (400, 2), "Delay dependent kw")
    check(
        list(delay.controller_values)[-2:] == ["delay_l", "delay_r"],
        "Delay dependent order",
    )


def test_clone():
    files = sorted(glob.glob(os.path.join("tests", "files", "*.sunsynth")))
    check(len(files) > 30, "test synth files not found; run from the repo root")
    for path in files:
        original = read_sunvox_file(path).module
        twin = read_sunvox_file(path).module
        label = os.path.basename(path)
        before = synth_bytes(original)
        check(synth_bytes(twin) == before, f"{label}: two loads differ")
        copy = original.clone()
        check(copy is not original, f"{label}: clone is the same object")
        check(type(copy) is type(original), f"{label}: clone type")
        check(copy.parent is None and copy.index is None, f"{label}: clone placement")
        check(synth_bytes(copy) == before, f"{label}: clone bytes differ")
        check(
            copy.controller_values == original.controller_values
            and copy.controller_values is not original.controller_values,
            f"{label}: clone controller values",
        )
        copy_before = snapshot(copy)
        mutate_everything(copy)
        check(synth_bytes(original) == before, f"{label}: clone mutation leaked")
        check(synth_bytes(twin) == before, f"{label}: clone mutation leaked to twin")
        copy2 = original.clone()
        check(snapshot(copy2) == copy_before, f"{label}: second clone differs")
        mutate_everything(original)
        check(snapshot(copy2) == copy_before, f"{label}: original mutation leaked")
        check(synth_bytes(twin) == before, f"{label}: original mutation hit twin")
    # clones of freshly constructed modules (not in a project / in a project)
    gen = m.AnalogGenerator(volume=11)
    check(gen.clone().volume == 11, "clone keeps controller value")
    project = Project()
    attached = project.attach_module(m.Amplifier(volume=77, x=10))
    cloned = attached.clone()
    check(cloned.parent is None and cloned.volume == 77, "clone of attached module")
    check(attached.parent is project, "original stays attached")


def test_patterns():
    a = Pattern(tracks=3, lines=5)
    b = Pattern(tracks=3, lines=5)
    b_before = b.raw_data
    check(a.data is not b.data, "pattern data shared")

    def fill(pattern, line, track):
        return Note(note=NOTE.C4, vel=line + 1, module=track + 1)

    result = a.set_via_fn(fill)
    check(result is a, "set_via_fn returns the pattern")
    check(all(n.pattern is a for row in a.data for n in row), "notes adopted (fn)")
    check(a.data[4][2].vel == 5 and a.data[4][2].module == 3, "set_via_fn content")
    check(b.raw_data == b_before, "set_via_fn leaked into another pattern")
    check(len(a.raw_data) == 3 * 5 * 8, "raw data length")

    kept = a.data
    kept_raw = a.raw_data

    def broken(pattern, line, track):
        if line == 3:
            raise RuntimeError("boom")
        return Note()

    try:
        a.set_via_fn(broken)
    except RuntimeError:
        pass
    else:
        check(False, "exception swallowed")
    check(a.data is kept and a.raw_data == kept_raw, "failed set_via_fn changed data")

    def gen(pattern, new):
        check(new is not pattern.data, "generator gets a private copy")
        yield 0, 0, Note(note=NOTE.D4, vel=9)
        yield 4, 2, Note(note=NOTE.E4, vel=10)

    old = a.data
    result = a.set_via_gen(gen)
    check(result is a, "set_via_gen returns the pattern")
    check(a.data is not old, "set_via_gen replaced the grid")
    check(all(n.pattern is a for row in a.data for n in row), "notes adopted (gen)")
    check(a.data[0][0].note == NOTE.D4 and a.data[4][2].vel == 10, "gen content")
    check(a.data[1][1].vel == 2, "untouched notes kept by set_via_gen")
    check(b.raw_data == b_before, "set_via_gen leaked into another pattern")
    check(old[0][0].note == NOTE.C4, "old grid not modified")

    # raw_data setter addresses notes by line and track
    c = Pattern(tracks=3, lines=5)
    c.raw_data = a.raw_data
    check(c.raw_data == a.raw_data, "raw_data round trip")
    check(c.data[4][2].vel == 10 and c.data[0][0].vel == 9, "raw_data placement")
    c.data[2][1].vel = 99
    check(a.data[2][1].vel != 99, "raw_data copy is independent")
    c.clear()
    check(c.raw_data == bytes(3 * 5 * 8), "clear")
    check(all(n.pattern is c for row in c.data for n in row), "clear adopts notes")


def main():
    test_construction_isolation()
    test_kwargs()
    test_clone()
    test_patterns()
    if FAILURES:
        for failure in FAILURES:
            print("FAIL:", failure)
        sys.exit(1)
    print("PASS")


if __name__ == "__main__":
    main()
