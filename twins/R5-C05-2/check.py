"""Behaviour check for C05-2: reading links, CVALs and finishing a project load.

Exercises ModuleReader.process_SLNK/process_SLnK (trailing -1 entries, empty
and repeated chunks, bad lengths), the application of CVAL chunks at SEND
(order, unknown controllers, log messages), SunVoxReader.process_end_of_file
(trailing empty modules, rebuilding missing SLnK slots, out-link generation,
legacy module high bytes, error cases) and read_sunvox_file (file handling and
the range-error override), plus the C05 property (idempotent load/save, pure
save) on every fixture with mutated CVAL/SLNK/SLnK chunks.

Run as: cd <root> && PYTHONPATH=<root>/src/python /venv/bin/python check.py
"""
import hashlib
import logging
import random
import struct
import sys
import tempfile
from collections import defaultdict
from enum import Enum
from io import BytesIO
from pathlib import Path

import rv
import rv.api
from rv import errors
from rv.note import NOTE
from rv.pattern import Pattern
from rv.readers.reader import read_sunvox_file

ROOT = Path(rv.__file__).resolve().parents[3]
FILES = ROOT / "tests" / "files"

failures = []


def check(cond, msg):
    if not cond:
        failures.append(msg)
        print("FAIL:", msg)


class Capture(logging.Handler):
    def __init__(self):
        super().__init__(level=logging.DEBUG)
        self.records = []

    def emit(self, record):
        if record.name == "rv.readers.reader":
            return  # per-chunk dispatch chatter
        exc = record.exc_info[1] if record.exc_info else None
        self.records.append(
            (record.name, record.levelname, record.getMessage(), repr(exc))
        )

    def take(self, level=logging.WARNING):
        out = [r for r in self.records if logging.getLevelName(r[1]) >= level]
        del self.records[:]
        return out


capture = Capture()
logging.getLogger().addHandler(capture)
logging.getLogger().setLevel(logging.WARNING)


# --------------------------------------------------------------------------
# chunk helpers
# --------------------------------------------------------------------------
def iter_chunks(data):
    pos = 0
    while pos + 8 <= len(data):
        name = data[pos : pos + 4]
        (size,) = struct.unpack("<I", data[pos + 4 : pos + 8])
        yield name, data[pos + 8 : pos + 8 + size]
        pos += 8 + size


def build(chunks):
    return b"".join(n + struct.pack("<I", len(d)) + d for n, d in chunks)


def ints(*values):
    return struct.pack(f"<{len(values)}i", *values)


def load(data):
    return read_sunvox_file(BytesIO(data))


def split_modules(data):
    """Return (head chunks, [chunks of module 0, module 1, ...])."""
    head, mods, cur = [], [], None
    for name, payload in iter_chunks(data):
        if cur is None and name != b"SFFF" and not mods:
            head.append((name, payload))
            continue
        if cur is None:
            cur = []
        cur.append((name, payload))
        if name == b"SEND":
            mods.append(cur)
            cur = None
    return head, mods


def join_modules(head, mods):
    return build(head + [c for m in mods for c in m])


def with_links(mod_chunks, slnk=None, slnk_extra=(), slot_chunks=()):
    """Replace SLNK/SLnK chunks of one module with the given payloads."""
    out = []
    for name, payload in mod_chunks:
        if name == b"SLnK":
            continue
        if name == b"SLNK":
            out.append((b"SLNK", payload if slnk is None else slnk))
            out.extend((b"SLNK", p) for p in slnk_extra)
            out.extend((b"SLnK", p) for p in slot_chunks)
            continue
        out.append((name, payload))
    return out


def links_of(project):
    return [
        None
        if m is None
        else (m.index, list(m.in_links), list(m.in_link_slots), list(m.out_links), list(m.out_link_slots))
        for m in project.modules
    ]


def base_project():
    m = rv.api.m
    p = rv.api.Project()
    gen = p.new_module(m.Generator)
    amp = p.new_module(m.Amplifier)
    flt = p.new_module(m.Filter)
    rev = p.new_module(m.Reverb)
    gen >> amp >> p.output
    gen >> flt >> rev >> p.output
    amp >> rev
    return p


def outcome(data):
    """Load data; describe the result or the error, plus warnings."""
    capture.take()
    try:
        project = load(data)
    except Exception as e:
        return ("ERR", type(e).__name__, str(e), capture.take())
    warnings = capture.take()
    links = links_of(project)
    try:
        saved = project.read()
        again = load(saved).read()
    except Exception as e:
        return ("SAVE-ERR", links, warnings, type(e).__name__, str(e))
    return ("OK", links, warnings, hashlib.sha256(saved).hexdigest(), saved == again)


# --------------------------------------------------------------------------
# 1. link chunks
# --------------------------------------------------------------------------
def test_links():
    digest = hashlib.sha256()
    p = base_project()
    data = p.read()
    head, mods = split_modules(data)
    check(len(mods) == 5, f"expected 5 modules, got {len(mods)}")
    base = outcome(data)
    check(base[0] == "OK" and base[4], "base project loads and is stable")
    check(base[1] == links_of(p), f"links survive: {base[1]} vs {links_of(p)}")
    check(
        base[1][0] == (0, [2, 4], [0, 0], [], []),
        f"output links {base[1][0]}",
    )
    check(base[1][4] == (4, [3, 2], [0, 1], [0], [1]), f"reverb links {base[1][4]}")

    def variant(index, **kw):
        new = list(mods)
        new[index] = with_links(mods[index], **kw)
        return join_modules(head, new)

    cases = {
        "trailing -1 dropped": variant(0, slnk=ints(2, 4, -1, -1)),
        "all -1": variant(0, slnk=ints(-1, -1, -1)),
        "inner -1 kept": variant(0, slnk=ints(2, -1, 4, -1)),
        "leading -1 kept": variant(0, slnk=ints(-1, 2)),
        "empty": variant(0, slnk=b""),
        "repeated": variant(0, slnk=ints(2, -1), slnk_extra=[ints(4, -1, -1)]),
        "repeated all -1": variant(0, slnk=ints(2, 4), slnk_extra=[ints(-1, -1)]),
        "repeated empty": variant(0, slnk=ints(2, 4), slnk_extra=[b""]),
        "explicit slots": variant(4, slot_chunks=[ints(0, 1)]),
        "explicit slots swapped": variant(4, slot_chunks=[ints(1, 0)]),
        "slots trailing -1": variant(4, slot_chunks=[ints(0, 1, -1, -1)]),
        "slots all zero": variant(4, slot_chunks=[ints(0, 0)]),
        "slots all -1": variant(4, slot_chunks=[ints(-1, -1)]),
        "slots empty": variant(4, slot_chunks=[b""]),
        "slots large": variant(4, slot_chunks=[ints(3, 5)]),
        "slots short": variant(4, slot_chunks=[ints(1)]),
        "slots long": variant(4, slot_chunks=[ints(0, 1, 2)]),
        "slots negative": variant(4, slot_chunks=[ints(-2, 0)]),
        "slots repeated": variant(4, slot_chunks=[ints(1), ints(0, -1)]),
        "odd length": variant(0, slnk=ints(2, 4) + b"\x01\x02"),
        "too short": variant(0, slnk=b"\x01\x02"),
        "odd slots": variant(4, slot_chunks=[ints(0, 1) + b"\x00"]),
        "missing module": variant(0, slnk=ints(2, 9)),
        "missing module with slots": variant(0, slnk=ints(2, 9), slot_chunks=[ints(0, 1)]),
        "self link": variant(2, slnk=ints(1, 2)),
        "negative link": variant(0, slnk=ints(2, -2)),
        "duplicate link": variant(0, slnk=ints(2, 2, 4)),
    }
    # empty (SEND only) modules: in the middle and at the end
    hole = list(mods)
    hole.insert(5, [(b"SEND", b"")])
    hole.insert(5, [(b"SEND", b"")])
    cases["trailing empty modules"] = join_modules(head, hole)
    hole = list(mods)
    hole[3] = [(b"SEND", b"")]  # filter removed, reverb still links to 3
    cases["link to empty module"] = join_modules(head, hole)
    hole = list(mods)
    hole[3] = [(b"SEND", b"")]
    hole[4] = with_links(mods[4], slnk=ints(2))
    hole[0] = with_links(mods[0], slnk=ints(2, 3))
    cases["rebuilt link to empty module"] = join_modules(head, hole)
    hole = list(mods)
    hole[3] = [(b"SEND", b"")]
    hole[4] = with_links(mods[4], slnk=ints(2))
    cases["hole in the middle"] = join_modules(head, hole)
    hole[4] = with_links(mods[4], slnk=ints(2, -1))
    hole.append([(b"SEND", b"")])
    cases["-1 link while last module empty"] = join_modules(head, hole)

    results = {}
    for label, blob in cases.items():
        results[label] = res = outcome(blob)
        digest.update(repr((label, res)).encode())

    def ok(label):
        res = results[label]
        check(res[0] == "OK", f"{label}: {res[:3]}")
        if res[0] == "OK":
            check(res[4], f"{label}: re-save drifts")
        return res

    check(ok("trailing -1 dropped")[1] == base[1], "trailing -1 == base")
    check(ok("trailing -1 dropped")[3] == base[3], "trailing -1 saves like base")
    check(ok("all -1")[1][0] == (0, [], [], [], []), "all -1 -> no links")
    check(ok("empty")[1][0] == (0, [], [], [], []), "empty -> no links")
    check(ok("all -1")[3] == ok("empty")[3], "all -1 saves like empty")
    check(ok("inner -1 kept")[1][0][1:3] == ([2, -1, 4], [0, -1, 0]), f"inner {results['inner -1 kept'][1][0]}")
    check(ok("leading -1 kept")[1][0][1:3] == ([-1, 2], [-1, 0]), "leading -1")
    check(ok("repeated")[1] == base[1], f"repeated {results['repeated'][1][0]}")
    check(ok("repeated all -1")[1] == base[1], "repeated all -1")
    check(ok("repeated empty")[1] == base[1], "repeated empty")
    check(ok("explicit slots")[1] == base[1], "explicit slots equal rebuilt ones")
    check(ok("slots trailing -1")[1] == base[1], "slot trailing -1 dropped")
    check(ok("explicit slots swapped")[1][4][2] == [1, 0], "swapped slots kept")
    check(ok("slots empty")[1][4][2] == [0, 0], "empty SLnK -> rebuilt (after the others)")
    check(ok("slots all -1")[1] == ok("slots empty")[1], "all -1 SLnK == empty SLnK")
    check(ok("slots all -1")[3] == ok("slots empty")[3], "all -1 SLnK saves like empty SLnK")
    check(ok("slots large")[1][4][2] == [3, 5], "large slots kept")
    check(ok("slots large")[1][3][3] == [-1, -1, -1, 4], f"padded out links {results['slots large'][1][3]}")
    check(ok("slots large")[1][2][3] == [0, -1, -1, -1, -1, 4], f"padded out links {results['slots large'][1][2]}")
    check(ok("self link")[0] == "OK", "self link")
    check(ok("trailing empty modules")[1] == base[1], "trailing empty modules dropped")
    check(ok("hole in the middle")[1][3] is None, "hole preserved")
    for label in ("odd length", "too short", "odd slots"):
        check(results[label][:2] == ("ERR", "error"), f"{label}: {results[label][:3]}")
    check(results["slots short"][:2] == ("ERR", "IndexError"), f"slots short {results['slots short'][:3]}")
    check(results["missing module with slots"][:2] == ("ERR", "IndexError"), "missing module w/ slots")
    res = results["missing module"]
    check(
        res[-1][:1]
        == [("rv.readers.sunvox", "WARNING", "Found SLNK on 0 referencing non-existent module 9", "None")]
        or (res[0] == "OK" and res[2][:1] == [("rv.readers.sunvox", "WARNING", "Found SLNK on 0 referencing non-existent module 9", "None")]),
        f"missing module warning {res}",
    )
    check(results["link to empty module"][:3] == ("ERR", "RuntimeError", ""), f"{results['link to empty module'][:3]}")
    check(results["rebuilt link to empty module"][:3] == ("ERR", "AttributeError", "'NoneType' object has no attribute 'out_link_slots'"), f"{results['rebuilt link to empty module'][:3]}")
    check(results["-1 link while last module empty"][0] == "OK", f"{results['-1 link while last module empty'][:3]}")
    return digest.hexdigest()


# --------------------------------------------------------------------------
# 2. CVAL application order and unknown controllers
# --------------------------------------------------------------------------
def test_cvals():
    digest = hashlib.sha256()
    m = rv.api.m
    logging.getLogger("rv.readers.module").setLevel(logging.DEBUG)
    try:
        for cls, extra in ((m.Lfo, [7, 8, 9]), (m.Amplifier, [428]), (m.Delay, []), (m.MetaModule, [])):
            mod = cls()
            if cls is m.MetaModule:
                mod.user_defined_controllers = 2
            data = rv.api.Synth(mod).read()
            chunks = list(iter_chunks(data))
            last = max(i for i, (n, _) in enumerate(chunks) if n == b"CVAL")
            n_cvals = sum(1 for n, _ in chunks if n == b"CVAL")
            chunks[last + 1 : last + 1] = [(b"CVAL", ints(v)) for v in extra]
            capture.take()
            synth = load(build(chunks))
            records = capture.take(logging.DEBUG)
            mine = [r for r in records if r[0] == "rv.readers.module"]
            digest.update(repr((cls.__name__, mine)).encode())
            unsupported = [r[2] for r in mine if r[1] == "WARNING"]
            expected = [
                f"Unsupported controller at index {n_cvals + i} with raw value {v}"
                for i, v in reversed(list(enumerate(extra)))
            ]
            if cls is not m.MetaModule:
                check(unsupported == expected, f"{cls.__name__}: {unsupported} != {expected}")
                setting = [r[2].split()[1] for r in mine if r[1] == "DEBUG" and r[2].startswith("Setting ")]
                names = [n for n, c in mod.controllers.items() if c.attached(mod)]
                check(setting == names[::-1], f"{cls.__name__}: set order {setting}")
                kinds = [r[1] for r in mine if r[2].startswith(("Setting", "Unsupported"))]
                check(kinds == ["WARNING"] * len(extra) + ["DEBUG"] * len(names), "warnings come first")
                check(synth.module.controllers_loaded == set(mod.controllers), "controllers_loaded")
            digest.update(synth.read())
            check(load(synth.read()).read() == synth.read(), f"{cls.__name__} stable")
        # fewer CVALs than controllers: the rest keep defaults
        data = rv.api.Synth(m.Amplifier(volume=100, balance=-5)).read()
        chunks = list(iter_chunks(data))
        idx = [i for i, (n, _) in enumerate(chunks) if n == b"CVAL"]
        del chunks[idx[2] : idx[-1] + 1]
        amp = load(build(chunks)).module
        check((amp.volume, amp.balance, amp.dc_offset) == (100, -5, 0), "partial CVALs")
    finally:
        logging.getLogger("rv.readers.module").setLevel(logging.NOTSET)
    return digest.hexdigest()


# --------------------------------------------------------------------------
# 3. read_sunvox_file: file handling and error mode
# --------------------------------------------------------------------------
def test_read_sunvox_file():
    path = FILES / "amplifier.sunsynth"
    blob = path.read_bytes()
    chunks = list(iter_chunks(blob))
    i = [k for k, (n, _) in enumerate(chunks) if n == b"CVAL"][1]  # balance
    chunks[i] = (b"CVAL", ints(428))
    oor = build(chunks)
    for arg in (str(path), path):
        check(read_sunvox_file(arg).module.mtype == "Amplifier", "read by name")
        check(errors.RAISE_CONTROLLER_VALUE_ERRORS is True, "flag restored")
    f = BytesIO(oor)
    capture.take()
    synth = read_sunvox_file(f)
    check(not f.closed, "caller's file left open")
    check(synth.module.balance == 300, "out-of-range balance kept")
    check(
        capture.take()
        == [("rv.modules.module", "WARNING", "0(Amplifier).balance=300 is not within [-128, 128]", "RangeValidationError(300, -128, 128)")],
        "warning while reading",
    )
    check(errors.RAISE_CONTROLLER_VALUE_ERRORS is True, "flag restored after warn")
    with tempfile.TemporaryDirectory() as tmp:
        name = Path(tmp) / "oor.sunsynth"
        name.write_bytes(oor)
        opened = []
        real_open = Path.open

        def spy(self, *a, **kw):
            fh = real_open(self, *a, **kw)
            if a[:1] == ("rb",):
                opened.append(fh)
            return fh

        Path.open = spy
        try:
            check(read_sunvox_file(str(name)).module.balance == 300, "read oor by name")
            bad = Path(tmp) / "bad.sunsynth"
            head, mods = split_modules(base_project().read())
            mods[0] = with_links(mods[0], slnk=b"abc")
            bad.write_bytes(join_modules(head, mods))
            try:
                read_sunvox_file(bad)
            except Exception as e:
                check(type(e).__name__ in ("error", "RuntimeError", "AttributeError"), f"bad file {e!r}")
            else:
                check(False, "bad file loaded")
        finally:
            Path.open = real_open
        check(len(opened) == 2 and all(fh.closed for fh in opened), "files opened by the reader are closed")
        check(errors.RAISE_CONTROLLER_VALUE_ERRORS is True, "flag restored after error")
        try:
            read_sunvox_file(str(Path(tmp) / "missing.sunvox"))
        except FileNotFoundError:
            pass
        else:
            check(False, "missing file")
        check(errors.RAISE_CONTROLLER_VALUE_ERRORS is True, "flag restored after open error")
    errors.RAISE_CONTROLLER_VALUE_ERRORS = False
    try:
        load(blob)
        check(errors.RAISE_CONTROLLER_VALUE_ERRORS is False, "previous value restored")
    finally:
        errors.RAISE_CONTROLLER_VALUE_ERRORS = True
    capture.take()


# --------------------------------------------------------------------------
# 4. legacy files: module high byte
# --------------------------------------------------------------------------
def test_legacy():
    digest = hashlib.sha256()
    p = base_project()
    pat = Pattern(tracks=2, lines=4)
    p.attach_pattern(pat)
    pat.data[0][0].note = NOTE.C4
    pat.data[0][0].module = 0x0102
    pat.data[1][1].module = 0xFF03
    pat.data[2][0].module = 0x00FF
    p.attach_pattern(None)
    p += rv.api.PatternClone(source=0, x=8)
    for version, masked in (((1, 9, 4, 9), True), ((1, 9, 5, 0), False), ((2, 1, 2, 1), False), ((1, 7, 0, 0), True)):
        p.sunvox_version = version
        loaded = load(p.read())
        got = [[n.module for n in line] for line in loaded.patterns[0].data]
        want = [[0x0102, 0], [0, 0xFF03], [0x00FF, 0], [0, 0]]
        if masked:
            want = [[v & 0xFF for v in line] for line in want]
        check(got == want, f"{version}: {got}")
        check(loaded.loaded_sunvox_version == version, "loaded version")
        check(loaded.patterns[1] is None, "empty pattern kept")
        saved = loaded.read()
        check(load(saved).read() == saved, f"{version} stable")
        digest.update(saved)
    return digest.hexdigest()


# --------------------------------------------------------------------------
# 5. The property on fixtures with mutated CVAL / SLNK / SLnK
# --------------------------------------------------------------------------
INTERESTING = [-(2**31), -70000, -1, 0, 1, 127, 128, 255, 256, 300, 428, 556, 32768, 70000, 2**31 - 1]


def loadable(data):
    try:
        load(data)
    except Exception:
        return False
    return True


def set_cvals(data, values):
    out, ordinal = [], 0
    for name, payload in iter_chunks(data):
        if name == b"CVAL":
            if ordinal in values:
                payload = ints(values[ordinal])
            ordinal += 1
        out.append((name, payload))
    return build(out)


def free_cvals(data, limit=40):
    count = sum(1 for name, _ in iter_chunks(data) if name == b"CVAL")
    return [
        i
        for i in range(min(count, limit))
        if loadable(set_cvals(data, {i: 70000})) and loadable(set_cvals(data, {i: -70000}))
    ]


def mutate(data, free, rng):
    values = {i: rng.choice(INTERESTING) if rng.random() < 0.6 else rng.randint(-2000, 70000) for i in free if rng.random() < 0.6}
    out = []
    for name, payload in iter_chunks(set_cvals(data, values)):
        if name == b"SLNK":
            n = len(payload) // 4
            vals = list(struct.unpack(f"<{n}i", payload))
            roll = rng.random()
            if roll < 0.35:
                vals += [-1] * rng.randint(1, 3)
            elif roll < 0.5 and vals:
                vals[rng.randrange(len(vals))] = -1
            elif roll < 0.6:
                vals = [-1] * rng.randint(0, 2)
            payload = ints(*vals)
            out.append((name, payload))
            continue
        if name == b"SLnK" and rng.random() < 0.5:
            payload = payload + ints(-1) * rng.randint(0, 2)
        out.append((name, payload))
    return build(out)


def snap(obj, memo=None):
    memo = {} if memo is None else memo
    if isinstance(obj, (int, float, str, bytes, bool, type(None), Enum)):
        return repr(obj)
    if isinstance(obj, type) or callable(obj) and not hasattr(obj, "__dict__"):
        return getattr(obj, "__qualname__", type(obj).__name__)
    if isinstance(obj, type(snap)):
        return obj.__qualname__
    if id(obj) in memo:
        return f"<ref {type(obj).__name__}>"
    memo[id(obj)] = True
    if isinstance(obj, defaultdict):
        blank = snap(obj.default_factory())
        items = {repr(k): snap(v, memo) for k, v in obj.items()}
        return {k: v for k, v in items.items() if v != blank}
    if isinstance(obj, dict):
        return {repr(k): snap(v, memo) for k, v in obj.items()}
    if isinstance(obj, (list, tuple)):
        return [snap(v, memo) for v in obj]
    if isinstance(obj, (set, frozenset)):
        return sorted(repr(v) for v in obj)
    if isinstance(obj, bytearray):
        return repr(bytes(obj))
    state = {}
    if hasattr(obj, "__dict__"):
        state.update(vars(obj))
    for klass in type(obj).__mro__:
        for slot in getattr(klass, "__slots__", ()):
            if hasattr(obj, slot):
                state[slot] = getattr(obj, slot)
    if not state:
        return repr(obj) if type(obj).__repr__ is not object.__repr__ else type(obj).__name__
    return {"__class__": type(obj).__name__, **{k: snap(v, memo) for k, v in sorted(state.items())}}


def test_property():
    rng = random.Random(50502)
    digest = hashlib.sha256()
    paths = sorted(p for p in FILES.rglob("*") if p.suffix in (".sunvox", ".sunsynth"))
    check(len(paths) >= 50, f"found only {len(paths)} fixtures")
    cases = 0
    for path in paths:
        original = path.read_bytes()
        free = free_cvals(original)
        variants = [original] + [mutate(original, free, rng) for _ in range(3)]
        for i, x in enumerate(variants):
            tag = f"{path.name}#{i}"
            capture.take()
            try:
                obj = load(x)
            except Exception as e:  # not loadable: outside the property
                digest.update(f"{tag}:ERR:{type(e).__name__}:{e};".encode())
                continue
            digest.update(repr(capture.take()).encode())
            before = snap(obj)
            y = obj.read()
            check(y == obj.read(), f"{tag}: saving twice differs")
            check(snap(obj) == before, f"{tag}: saving changed the object")
            cur = y
            for n in range(3):
                nxt = load(cur).read()
                check(nxt == y, f"{tag}: drift at cycle {n + 2}")
                cur = nxt
            digest.update(hashlib.sha256(y).digest())
            if hasattr(obj, "modules"):
                digest.update(repr(links_of(obj)).encode())
            cases += 1
    check(cases >= 150, f"only {cases} loadable cases")
    if "--print" in sys.argv:
        print("cases", cases)
    return digest.hexdigest()


EXPECTED = {
    "links": "fc92529382e4629a7b1e3794c50c44965271e229f4674fa832f2f2c57d86a045",
    "cvals": "9558cf315b0b3af953ea95f161bc2d7d67d36c542e2e23d423c43def20acba2d",
    "legacy": "f29bc25b1d24e22a279513ab2008996b1627925a045ca7e18cb4b97197262a3c",
    "property": "1d2fe295f1dca069d359849e6cb0077f6c0d90a1e172a704db7f16e401da7cfe",
}


def main():
    got = {}
    got["links"] = test_links()
    got["cvals"] = test_cvals()
    test_read_sunvox_file()
    got["legacy"] = test_legacy()
    got["property"] = test_property()
    if "--print" in sys.argv:
        for k, v in got.items():
            print(k, v)
    else:
        for k, v in got.items():
            check(v == EXPECTED[k], f"{k} digest {v}")
    if failures:
        print(f"{len(failures)} failure(s)")
        sys.exit(1)
    print("PASS")


if __name__ == "__main__":
    main()
