"""Behaviour check for Visualization sub-fields and the SMII / SFGS packed words."""
import struct
import sys
from io import BytesIO

import rv.api  # noqa: F401  (import order: avoids the rv.note <-> rv.modules cycle)
from rv.api import m
from rv.modules.module import LevelMode, Orientation, OscilloscopeMode, Visualization
from rv.project import Project
from rv.readers.reader import read_sunvox_file

failures = []


def check(cond, msg):
    if not cond:
        failures.append(msg)


# field name -> (shift, mask, kind)
FIELDS = {
    "level_mode": (0, 0b11111, "mask"),
    "orientation": (5, 1, "mask"),
    "oscilloscope_mode": (8, 0b11111, "mask"),
    "oscilloscope_size": (16, 0xFF, "clamp"),
    "bg_transparency": (24, 3, "clamp"),
    "shadow_opacity": (26, 3, "clamp"),
}
ENUMS = {
    "level_mode": LevelMode,
    "orientation": Orientation,
    "oscilloscope_mode": OscilloscopeMode,
}
VALID = {
    "level_mode": range(5),
    "orientation": range(2),
    "oscilloscope_mode": range(8),
    "oscilloscope_size": (0, 1, 0xA5, 0xFF),
    "bg_transparency": range(4),
    "shadow_opacity": range(4),
}
NEW = {
    "level_mode": list(range(0, 40)) + [LevelMode.glow, 0x100 | 3, -1],
    "orientation": [0, 1, 2, 3, Orientation.vertical, Orientation.horizontal, True, -1],
    "oscilloscope_mode": list(range(0, 40)) + [OscilloscopeMode.xy, 0x47, -1],
    "oscilloscope_size": list(range(-2, 260)) + [1000, -1000],
    "bg_transparency": list(range(-3, 8)) + [100],
    "shadow_opacity": list(range(-3, 8)) + [100],
}
RESERVED = (0, (1 << 6) | (1 << 14) | (1 << 30), (3 << 6) | (7 << 13) | (15 << 28))


def stored(name, v):
    shift, mask, kind = FIELDS[name]
    if kind == "mask":
        return int(v) & mask
    return max(0, min(v, mask))


def read_all(word):
    return {name: (word >> s) & mk for name, (s, mk, _) in FIELDS.items()}


olds = []
for lm in VALID["level_mode"]:
    for o in VALID["orientation"]:
        for om in VALID["oscilloscope_mode"]:
            for sz in VALID["oscilloscope_size"]:
                for bg in VALID["bg_transparency"]:
                    for sh in VALID["shadow_opacity"]:
                        olds.append(lm | o << 5 | om << 8 | sz << 16 | bg << 24 | sh << 26)

# getters on every valid word
for old in olds:
    for r in RESERVED:
        vis = Visualization(old | r)
        got = {name: getattr(vis, name) for name in FIELDS}
        check(got == read_all(old), "getters %x" % (old | r))
        for name, enum in ENUMS.items():
            check(type(got[name]) is enum, "enum type " + name)
        check(int(vis) == old | r and vis.value == old | r, "int()")

# setters: every (old word, sub-field, new value); old words thinned for the big domains
for name, (shift, mask, kind) in FIELDS.items():
    stride = 7 if name == "oscilloscope_size" else 1
    for old in olds[::stride]:
        for r in RESERVED[:: (2 if name == "oscilloscope_size" else 1)]:
            word = old | r
            for new in NEW[name]:
                vis = Visualization(word)
                setattr(vis, name, new)
                want = (word & ~(mask << shift)) | (stored(name, new) << shift)
                if vis.value != want or type(vis.value) is not int:
                    check(False, "set %s=%r on %x -> %x want %x" % (name, new, word, vis.value, want))
                    continue
                enum = ENUMS.get(name)
                if enum is not None and stored(name, new) not in list(map(int, enum)):
                    try:
                        getattr(vis, name)
                        check(False, "undefined member readable")
                    except ValueError:
                        pass
                else:
                    check(getattr(vis, name) == stored(name, new), "readback " + name)

# chained setting of all fields on one object, twice over
vis = Visualization(0x000C0101)
for rnd in range(2):
    vis.level_mode = LevelMode.glow if rnd else LevelMode.mono
    vis.orientation = Orientation.vertical if rnd else Orientation.horizontal
    vis.oscilloscope_mode = OscilloscopeMode.xy if rnd else OscilloscopeMode.bars
    vis.oscilloscope_size = 0xFE if rnd else 3
    vis.bg_transparency = 3 if rnd else 1
    vis.shadow_opacity = 1 if rnd else 2
check(vis.value == 4 | 1 << 5 | 7 << 8 | 0xFE << 16 | 3 << 24 | 1 << 26, "chained %x" % vis.value)

# word whose enumerated part is undefined: that getter and setter raise ValueError,
# the object is unchanged, other sub-fields still work
for bad_word, bad_name in ((0x1F, "level_mode"), (9 << 8, "oscilloscope_mode")):
    vis = Visualization(bad_word)
    for op in (lambda: getattr(vis, bad_name), lambda: setattr(vis, bad_name, 1)):
        try:
            op()
            check(False, "undefined member accepted")
        except ValueError:
            pass
    check(vis.value == bad_word, "unchanged after ValueError")
    vis.shadow_opacity = 2
    check(vis.value == bad_word | 2 << 26, "other field on bad word")
# wrong types
for name in FIELDS:
    vis = Visualization(0x000C0101)
    try:
        setattr(vis, name, "x")
        check(False, "str accepted for " + name)
    except (TypeError, ValueError) as e:
        want = ValueError if name in ("orientation", "oscilloscope_mode") else TypeError
        check(type(e) is want, "error type %s %r" % (name, e))
    check(vis.value == 0x000C0101, "unchanged after type error")

# Module.visualization wraps the stored word; SVPR chunk carries it
proj = Project()
mod = proj.new_module(m.Generator)
check(int(mod.visualization) == 0x000C0101, "default vis")
v = mod.visualization
v.oscilloscope_size = 0x40
mod.visualization = int(v)
check(dict(mod.iff_chunks())[b"SVPR"] == struct.pack("<I", 0x00400101), "SVPR")

# SMII: always flag (bit 0) and channel
for always in (False, True, 0, 1):
    for channel in (0, 1, 2, 15, 16, 17, 0x7FFF):
        mod.midi_in_always = always
        mod.midi_in_channel = channel
        for in_project in (True, False, None):
            chunks = [c for c in mod.iff_chunks(in_project=in_project) if c[0] == b"SMII"]
            check(
                chunks == [(b"SMII", struct.pack("<I", int(always) + (channel << 1)))],
                "SMII %r %r" % (always, channel),
            )
        buf = BytesIO()
        proj.write_to(buf)
        buf.seek(0)
        back = read_sunvox_file(buf).modules[mod.index]
        check(back.midi_in_always is bool(always), "always back %r" % (back.midi_in_always,))
        check(back.midi_in_channel == channel, "channel back")
        check(int(back.visualization) == 0x00400101, "vis back")
mod.midi_in_always = "yes"
try:
    list(mod.iff_chunks())
    check(False, "str always accepted")
except ValueError:
    pass
mod.midi_in_always = False
# chunk order around the touched lines
tags = [t for t, _ in mod.iff_chunks(in_project=True)]
i = tags.index(b"SMII")
check(tags[i - 2 : i + 2] == [b"SVPR", b"SCOL", b"SMII", b"SMIC"], "module chunk order %r" % tags)

# SFGS: two 3-bit sync command sets
for midi in range(8):
    for other in range(8):
        proj.receive_sync_midi = midi
        proj.receive_sync_other = other
        gen = proj.chunks()
        head = [next(gen) for _ in range(6)]
        check([t for t, _ in head][3:6] == [b"FLGS", b"SFGS", b"BPM "], "project chunk order")
        check(head[4] == (b"SFGS", struct.pack("<I", midi | other << 3)), "SFGS %d %d" % (midi, other))
        buf = BytesIO()
        proj.write_to(buf)
        buf.seek(0)
        back = read_sunvox_file(buf)
        check((back.receive_sync_midi, back.receive_sync_other) == (midi, other), "SFGS back")
# defaults and enum members
p2 = Project()
check(dict(c for c in p2.chunks() if c[0] == b"SFGS")[b"SFGS"] == struct.pack("<I", 1 | 1 << 3), "SFGS default")
p2.receive_sync_midi = Project.SyncCommand.tempo | Project.SyncCommand.position
p2.receive_sync_other = Project.SyncCommand.start_stop
check(dict(c for c in p2.chunks() if c[0] == b"SFGS")[b"SFGS"] == struct.pack("<I", 6 | 1 << 3), "SFGS enum")
# reader masks bits above the two fields
from rv.readers.sunvox import SunVoxReader  # noqa: E402

class _Holder:
    pass

rd = SunVoxReader.__new__(SunVoxReader)
rd._object = _Holder()
for word in (0, 0xFFFFFFFF, 0b101_011, 0b1_110_001, 0x40):
    rd.process_SFGS(struct.pack("<I", word))
    check(
        (rd.object.receive_sync_midi, rd.object.receive_sync_other) == (word & 7, word >> 3 & 7),
        "process_SFGS %x" % word,
    )
from rv.readers.module import ModuleReader  # noqa: E402

mr = ModuleReader.__new__(ModuleReader)
mr._object = _Holder()
for word in (0, 1, 2, 3, 0x21, 0xFFFFFFFF, 0xFFFFFFFE):
    mr.process_SMII(struct.pack("<I", word))
    check(mr.object.midi_in_always is bool(word & 1), "process_SMII always")
    check(mr.object.midi_in_channel == word >> 1, "process_SMII channel")
for rdr, meth in ((rd, "process_SFGS"), (mr, "process_SMII")):
    try:
        getattr(rdr, meth)(b"\0\0\0")
        check(False, "short chunk accepted")
    except struct.error:
        pass

if failures:
    print("FAIL", len(failures), failures[:10])
    sys.exit(1)
print("PASS")
