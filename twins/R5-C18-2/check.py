"""C18 check (errors side): the strictness override context manager and the
raise-or-warn helper behave as documented, and loads built on them restore
the flag on every exit path.

Run from the repository root:
    PYTHONPATH=<root>/src/python python check.py
"""
import glob
import hashlib
import io
import logging
import os
import shutil
import struct
import sys
import tempfile
from pathlib import Path

import rv.api as rv
import rv.errors as E
import rv.readers.reader as R
from rv.synth import Synth

logging.disable(logging.CRITICAL)

ORIG_OPEN = Path.open
OPENED = []  # every file the library opened through Path.open
FAILS = []
# sha256 over the outcome (result class or exception type) of every load below
EXPECTED_DIGEST = "cd7d062c10416df3"


def expect(cond, msg):
    if not cond:
        FAILS.append(msg)


class Spy:
    """File proxy: records the flag at every read, optionally fails."""

    def __init__(self, f, fail_at=None, fail_close=False, exc=OSError):
        self._f = f
        self.reads = 0
        self.flags = []
        self.fail_at = fail_at
        self.fail_close = fail_close
        self.exc = exc
        self.close_calls = 0

    def read(self, *a):
        self.flags.append(E.RAISE_CONTROLLER_VALUE_ERRORS)
        if self.fail_at is not None and self.reads == self.fail_at:
            self.reads += 1
            raise self.exc("injected read fault")
        self.reads += 1
        return self._f.read(*a)

    def seek(self, *a):
        return self._f.seek(*a)

    def tell(self):
        return self._f.tell()

    def close(self):
        self.close_calls += 1
        self._f.close()
        if self.fail_close:
            raise OSError("injected close fault")

    @property
    def closed(self):
        return self._f.closed


class patched_open:
    """Wrap Path.open so the check sees the files the library opens."""

    def __init__(self, **spy_kw):
        self.spy_kw = spy_kw

    def __enter__(self):
        spy_kw = self.spy_kw
        flag_at_open = self.flag_at_open = []

        def _open(self_path, *a, **kw):
            flag_at_open.append(E.RAISE_CONTROLLER_VALUE_ERRORS)
            f = Spy(ORIG_OPEN(self_path, *a, **kw), **spy_kw)
            OPENED.append(f)
            return f

        Path.open = _open
        del OPENED[:]
        return self

    def __exit__(self, *exc):
        Path.open = ORIG_OPEN


def load(arg, initial):
    """Run a load with the flag preset; return (outcome, flag_after_is_same)."""
    E.RAISE_CONTROLLER_VALUE_ERRORS = initial
    try:
        obj = rv.read_sunvox_file(arg)
        outcome = type(obj).__name__
    except BaseException as e:  # noqa
        outcome = "!" + type(e).__name__
    same = E.RAISE_CONTROLLER_VALUE_ERRORS is initial
    E.RAISE_CONTROLLER_VALUE_ERRORS = True
    return outcome, same


def fixtures():
    files = sorted(
        glob.glob("tests/files/**/*.sunvox", recursive=True)
        + glob.glob("tests/files/**/*.sunsynth", recursive=True)
    )
    assert len(files) >= 40, "run from the repository root"
    return files


def chunk_boundaries(data):
    pos, out = 0, []
    while pos + 8 <= len(data):
        out.append(pos)
        out.append(pos + 8)
        (size,) = struct.unpack("<I", data[pos + 4 : pos + 8])
        pos += 8 + size
    out.append(len(data))
    return sorted(set(b for b in out if b <= len(data)))


def nested_document():
    inner = rv.Project()
    s = inner.new_module(rv.m.Sampler)
    s.effect = Synth(rv.m.Amplifier(volume=300))
    s >> inner.output
    outer = rv.Project()
    outer.new_module(rv.m.MetaModule, project=inner)
    f = io.BytesIO()
    outer.write_to(f)
    return f.getvalue()


class FakeLog:
    def __init__(self):
        self.calls = []

    def warning(self, *a, **kw):
        self.calls.append((a, kw))


class Boom(Exception):
    pass


def get():
    return E.RAISE_CONTROLLER_VALUE_ERRORS


def put(v):
    E.RAISE_CONTROLLER_VALUE_ERRORS = v


def main():
    digest = hashlib.sha256()
    override = E.override_raise_controller_value_errors
    marker = object()
    values = (True, False, None, 0, 1, "", "lenient", marker)

    # -- 1. the context manager on its own ------------------------------------------
    for initial in values:
        for new in values:
            put(initial)
            cm = override(new)
            expect(get() is initial, "1 flag changed before __enter__")
            with cm as bound:
                expect(bound is None, "1 yields a value")
                expect(get() is new, "1 flag not overridden")
            expect(get() is initial, f"1 not restored {initial!r}->{new!r}")
            # leaving through exceptions of several kinds; the exception object survives
            for exc in (Boom("x"), KeyError("k"), KeyboardInterrupt(), SystemExit(3), StopIteration()):
                put(initial)
                try:
                    with override(new):
                        expect(get() is new, "1 flag not overridden (exc)")
                        raise exc
                except RuntimeError as e:
                    # contextlib turns StopIteration raised in the block back into itself
                    expect(False, f"1 unexpected RuntimeError {e}")
                except BaseException as e:  # noqa
                    expect(e is exc, f"1 exception replaced {type(exc).__name__}")
                else:
                    expect(False, "1 exception swallowed")
                expect(get() is initial, f"1 not restored after {type(exc).__name__}")
            # value assigned inside the block is discarded on exit
            put(initial)
            with override(new):
                put("scribble")
            expect(get() is initial, "1 inner assignment survived")

    # leaving via return / break / continue / generator close
    def via_return(v):
        with override(v):
            return get()

    put(True)
    expect(via_return(False) is False and get() is True, "1 return")
    for _ in range(2):
        with override(False):
            break
    expect(get() is True, "1 break")

    def gen():
        with override(False):
            yield get()
            yield get()

    g = gen()
    expect(next(g) is False and get() is False, "1 generator holds override")
    g.close()
    expect(get() is True, "1 generator close restores")

    # nesting, including nested failure at each depth
    for initial in (True, False):
        for fail_depth in (None, 0, 1, 2, 3):
            put(initial)
            seq = [False, True, True, False]
            trace = []

            def nest(d):
                if d == len(seq):
                    return
                with override(seq[d]):
                    trace.append(get())
                    if fail_depth == d:
                        raise Boom(d)
                    nest(d + 1)
                    trace.append(get())

            try:
                nest(0)
                expect(fail_depth is None, "1 nested: no exception")
            except Boom:
                expect(fail_depth is not None, "1 nested: unexpected exception")
            expect(get() is initial, f"1 nested not restored {initial} {fail_depth}")
            digest.update(repr(trace).encode())

    # a used manager cannot be entered again; the decorator form makes a fresh one per call
    put(True)
    cm = override(False)
    with cm:
        pass
    try:
        with cm:
            expect(False, "1 one-shot manager re-entered")
    except (RuntimeError, AttributeError) as e:
        digest.update(type(e).__name__.encode())
    expect(get() is True, "1 flag after failed re-entry")

    @override(False)
    def decorated(x):
        if x:
            raise Boom()
        return get()

    for _ in range(3):
        expect(decorated(0) is False and get() is True, "1 decorator")
        try:
            decorated(1)
        except Boom:
            pass
        expect(get() is True, "1 decorator after exception")
    expect(override.__name__ == "override_raise_controller_value_errors", "1 name")
    expect(bool(override.__doc__) and "temporarily" in override.__doc__, "1 doc")

    # -- 2. raise_or_warn_controller_value_validation -------------------------------
    row = E.raise_or_warn_controller_value_validation
    cause = E.RangeValidationError(5, 0, 1)
    for flag in values:
        for args in ((), ("msg",), ("%s is bad", "x"), ("a", "b", "c")):
            for from_exc in (cause, None):
                put(flag)
                log = FakeLog()
                try:
                    r = row(from_exc, log, *args)
                    expect(not flag, f"2 should have raised for {flag!r}")
                    expect(r is None, "2 return value")
                    expect(log.calls == [(args, {"exc_info": from_exc})], f"2 log {log.calls}")
                except E.ControllerValueError as e:
                    expect(bool(flag), f"2 should have warned for {flag!r}")
                    expect(e.args == args, "2 args")
                    expect(e.__cause__ is from_exc, "2 cause")
                    expect(e.__suppress_context__, "2 raise-from")
                    expect(isinstance(e, ValueError), "2 ValueError")
                    expect(log.calls == [], "2 logged while strict")
                expect(get() is flag, "2 flag changed")
    put(True)

    # -- 3. through the module API ---------------------------------------------------
    for name, bad, ok in (("volume", 99999, 100), ("balance", -4000, 5)):
        put(True)
        amp = rv.m.Amplifier()
        try:
            setattr(amp, name, bad)
            expect(False, f"3 strict set {name}")
        except E.ControllerValueError as e:
            expect(isinstance(e.__cause__, E.RangeValidationError), "3 cause")
            digest.update(str(e).encode())
        setattr(amp, name, ok)
        with override(False):
            setattr(amp, name, bad)
            expect(getattr(amp, name) == bad, f"3 lenient set {name}")
            with override(True):
                try:
                    amp.set_raw(name, 10 ** 6)
                    expect(False, "3 strict set_raw inside lenient")
                except E.ControllerValueError:
                    pass
            amp.set_raw(name, 10 ** 6)
        try:
            setattr(amp, name, bad)
            expect(False, f"3 strict again {name}")
        except E.ControllerValueError:
            pass

    # -- 4. loads built on the override ---------------------------------------------
    files = fixtures()
    initials = (True, False)
    tmpdir = tempfile.mkdtemp(prefix="c18chk")
    picked = [f for f in files if os.path.getsize(f) < 700][:10] + [
        "tests/files/metamodule.sunsynth",
        "tests/files/sampler.sunsynth",
        "tests/files/empty.sunvox",
    ]
    for name in files:
        for initial in initials:
            with patched_open() as po:
                outcome, same = load(name, initial)
            expect(same and not outcome.startswith("!"), f"4 load {name} {outcome}")
            expect(len(OPENED) == 1 and OPENED[0].closed, f"4 leak {name}")
            expect(po.flag_at_open == [False], f"4 open outside override {name}")
            expect(set(OPENED[0].flags) == {False}, f"4 not lenient {name}")
            digest.update(outcome.encode())
    for name in picked:
        with patched_open():
            load(name, True)
        nreads = OPENED[0].reads
        for initial in initials:
            for k in range(nreads):
                with patched_open(fail_at=k, exc=OSError):
                    outcome, same = load(name, initial)
                expect(same, f"4 flag not restored {name} read {k} {initial}")
                expect(outcome == "!OSError", f"4 fault swallowed {name} read {k}")
                expect(len(OPENED) == 1 and OPENED[0].closed, f"4 leak {name} read {k}")

    data = nested_document()
    broken_type = data.replace(b"Amplifier", b"Amplifiex")
    j = data.find(b"CVAL", data.find(b"Amplifier"))
    out_of_range = data[: j + 8] + struct.pack("<i", 99999) + data[j + 12 :]
    p = os.path.join(tmpdir, "n.sunvox")
    for initial in initials:
        for blob, want in (
            (data, "Project"),
            (broken_type, "!KeyError"),
            (out_of_range, "Project"),
        ):
            with open(p, "wb") as out:
                out.write(blob)
            with patched_open():
                outcome, same = load(p, initial)
            expect(outcome == want and same, f"4 nested {outcome} {want} {initial}")
            expect(len(OPENED) == 1 and OPENED[0].closed, f"4 nested leak {want}")
        saved = R.RAISE_RANGE_ERRORS_ON_READ
        try:
            R.RAISE_RANGE_ERRORS_ON_READ = True
            outcome, same = load(io.BytesIO(out_of_range), initial)
            expect(outcome == "!ControllerValueError" and same, f"4 strict read {outcome}")
        finally:
            R.RAISE_RANGE_ERRORS_ON_READ = saved
        # a load issued from inside an explicit override leaves that override in place
        put(initial)
        with override(marker):
            for blob in (data, broken_type, data[:1000]):
                try:
                    rv.read_sunvox_file(io.BytesIO(blob))
                except Exception:
                    pass
                expect(get() is marker, "4 load inside override")
        expect(get() is initial, "4 outer override")
        put(True)
    for cut in sorted(set(chunk_boundaries(data)) | set(range(0, len(data), 61))):
        res = []
        for initial in initials:
            outcome, same = load(io.BytesIO(data[:cut]), initial)
            expect(same, f"4 truncation flag {cut} {initial}")
            res.append(outcome)
        expect(res[0] == res[1], f"4 truncation outcome depends on flag {cut}")
        digest.update(f"{cut}:{res[0]};".encode())
        amp = rv.m.Amplifier()
        try:
            amp.volume = 99999
            expect(False, f"4 lenient mode leaked after truncation at {cut}")
        except E.ControllerValueError:
            pass

    shutil.rmtree(tmpdir, ignore_errors=True)
    expect(get() is True, "final flag")
    expect(
        digest.hexdigest()[:16] == EXPECTED_DIGEST,
        "outcome digest changed: " + digest.hexdigest()[:16],
    )
    if FAILS:
        print("FAIL (%d)" % len(FAILS))
        for m in FAILS[:25]:
            print("  ", m)
        sys.exit(1)
    print("outcome digest", digest.hexdigest()[:16])
    print("PASS")


if __name__ == "__main__":
    main()
