"""Behaviour check for refactoring C01-2 (passes before and after the patch)."""
import hashlib
import logging
import struct
import sys
from enum import Enum
from io import BytesIO

logging.disable(logging.CRITICAL)

from rv.api import NOTECMD, Pattern, PatternClone, Project, Synth, read_sunvox_file
from rv.cmidmap import MidiMessageType, Slope
from rv.controller import DependentRange, Range
from rv.modules import MODULE_CLASSES
from rv.modules.output import Output

FAILURES = []


def expect(cond, label):
    if not cond:
        FAILURES.append(label)
        print("FAIL:", label)


class Lcg:
    """Tiny deterministic generator (independent of the random module)."""

    def __init__(self, seed):
        self.state = seed & 0xFFFFFFFF

    def next(self):
        self.state = (self.state * 1664525 + 1013904223) & 0xFFFFFFFF
        return self.state >> 8

    def below(self, n):
        return self.next() % n

    def between(self, lo, hi):
        return lo + self.below(hi - lo + 1)

    def pick(self, seq):
        return seq[self.below(len(seq))]


NAMES = [
    "",
    "a",
    "x" * 31,
    "x" * 32,
    "x" * 33,
    "y" * 70,
    "x" * 31 + "é",  # two-byte char straddling byte 32
    "x" * 30 + "€",  # three-byte char straddling byte 32
    "x" * 29 + "\U0001f600",  # four-byte char straddling byte 32
    "x" * 28 + "\U0001f600",  # four-byte char ending exactly at byte 32
    "é" * 16,
    "é" * 17,
    "€" * 11,
    "\U0001f600" * 9,
    "Café del mar",
    " spaced  name ",
]


def stored_name(name):
    """Longest prefix of name whose UTF-8 form fits 32 bytes."""
    out = ""
    for ch in name:
        if len((out + ch).encode("utf8")) > 32:
            break
        out += ch
    return out


def set_some_controllers(rng, mod):
    for cname, ctl in mod.controllers.items():
        if rng.below(3) == 0:
            continue
        if isinstance(ctl.value_type, DependentRange) or not ctl.attached(mod):
            continue
        t = ctl.instance_value_type(mod)
        try:
            if isinstance(t, Range):
                choice = rng.below(3)
                value = (t.min, t.max, rng.between(t.min, t.max))[choice]
            elif isinstance(t, type) and issubclass(t, Enum):
                value = rng.pick(list(t))
            elif t is bool:
                value = bool(rng.below(2))
            else:
                continue
            setattr(mod, cname, value)
        except Exception:
            pass


def set_some_options(rng, mod):
    for oname, opt in mod.options.items():
        if rng.below(2):
            continue
        try:
            if opt.size == 1:
                setattr(mod, oname, bool(rng.below(2)))
            else:
                setattr(mod, oname, rng.below(1 << opt.size))
        except Exception:
            pass


def set_some_midi_maps(rng, mod):
    for cname in list(mod.controllers)[:: 1 + rng.below(3)]:
        mm = mod.controller_midi_maps[cname]
        mm.channel = rng.below(17)
        mm.message_type = rng.pick(list(MidiMessageType))
        mm.message_parameter = rng.below(0x10000)
        mm.slope = rng.pick(list(Slope))


def build_project(seed, n_modules=12, holes=True, every_type=False):
    rng = Lcg(seed)
    p = Project()
    p.name = rng.pick(NAMES + ["Proj ♫ %d" % seed])
    p.flags = rng.pick([0, 1, 0xFFFFFFFF, rng.below(1 << 24)])
    p.initial_bpm = rng.pick([1, 125, 0xFFFFFFFF, rng.between(1, 800)])
    p.initial_tpl = rng.between(1, 31)
    p.global_volume = rng.between(0, 256)
    p.time_grid = rng.between(0, 64)
    p.time_grid2 = rng.between(0, 64)
    p.modules_scale = rng.between(0, 1024)
    p.modules_zoom = rng.between(0, 1024)
    p.modules_x_offset = rng.pick([0, -1, -(2**31), 2**31 - 1, rng.between(-999, 999)])
    p.modules_y_offset = rng.pick([0, -1, -(2**31), 2**31 - 1, rng.between(-999, 999)])
    p.modules_layer_mask = rng.pick([0, 0xFF, 0xFFFFFFFF])
    p.modules_current_layer = rng.below(8)
    p.timeline_position = rng.pick([0, 0, 1, -1, -(2**31), 2**31 - 1, 77])
    p.restart_position = rng.pick([0, 0, 1, -5, 2**31 - 1, 300])
    p.selected_module = rng.below(20)
    p.selected_generator = rng.pick([-1, 0, 3, -(2**31)])
    p.current_pattern = rng.below(9)
    p.current_track = rng.below(32)
    p.current_line = rng.below(999)
    p.receive_sync_midi = rng.below(8)
    p.receive_sync_other = rng.below(8)
    p.output.name = rng.pick(["Output", "Out é", "o" * 40])
    p.output.x, p.output.y = rng.between(-50, 1500), rng.between(-50, 1500)

    type_names = [n for n in MODULE_CLASSES if n != "Output"]
    if every_type:
        chosen = list(type_names)
    else:
        chosen = [rng.pick(type_names) for _ in range(n_modules)]
    mods = []
    for i, tname in enumerate(chosen):
        if holes and rng.below(5) == 0:
            p.attach_module(None)
        cls = MODULE_CLASSES[tname]
        kw = dict(
            x=rng.between(-2000, 2000),
            y=rng.between(-2000, 2000),
            layer=rng.below(8),
            color=(rng.below(256), rng.below(256), rng.below(256)),
            midi_in_always=bool(rng.below(2)),
            midi_in_channel=rng.below(17),
            midi_out_channel=rng.below(17),
            midi_out_bank=rng.between(-1, 16383),
            midi_out_program=rng.between(-1, 127),
        )
        if rng.below(3):
            kw["name"] = rng.pick(NAMES)
        if rng.below(3) == 0:
            kw["midi_out_name"] = rng.pick(["", "dev", "Gerät 1"])
        if rng.below(2):
            kw["visualization"] = rng.below(1 << 28)
        if rng.below(2):
            kw["mod_scale"] = rng.between(1, 1024)
        kw = {k: v for k, v in kw.items() if k not in cls.controllers}
        mod = cls(**kw)
        mod.mod_finetune = rng.between(-256, 256)
        mod.mod_relative_note = rng.between(-64, 64)
        p.attach_module(mod, loading=bool(rng.below(4) == 0))
        mod.flags |= rng.pick([0, 0x80, 0x100, 0x4000, 0x02000000])
        set_some_controllers(rng, mod)
        set_some_options(rng, mod)
        set_some_midi_maps(rng, mod)
        mods.append(mod)
    everything = [p.output] + mods
    for _ in range(len(mods) * 2):
        a, b = rng.pick(mods), rng.pick(everything)
        if a is not b:
            p.connect(a, b)
    for _ in range(len(mods) // 3):
        a, b = rng.pick(mods), rng.pick(everything)
        if a is not b:
            p.connect(~a, b)

    n_pat = rng.below(6)
    real = []
    for i in range(n_pat):
        kind = rng.below(5)
        if kind == 0:
            p.attach_pattern(None)
        elif kind == 1 and real:
            p.attach_pattern(
                PatternClone(
                    source=rng.pick(real),
                    x=rng.between(-100, 4000),
                    y=rng.between(-500, 500),
                )
            )
        else:
            pat = Pattern(
                tracks=rng.between(1, 6),
                lines=rng.between(1, 12),
                x=rng.between(-100, 4000),
                y=rng.between(-500, 500),
                y_size=rng.between(1, 64),
                flags_PFLG=rng.below(4),
                flags_PFFF=rng.pick([0, 2, 8, 16]),
                fg_color=(rng.below(256), rng.below(256), rng.below(256)),
                bg_color=(rng.below(256), rng.below(256), rng.below(256)),
                icon=bytes(rng.below(256) for _ in range(32)),
            )
            if rng.below(2):
                pat.name = rng.pick(NAMES + ["paté"])
            for line in pat.data:
                for note in line:
                    if rng.below(2):
                        note.note = rng.pick(
                            [0, 1, 60, 120, 128, 129, 130, 131, 132, 133, 134, 140]
                        )
                        note.vel = rng.pick([0, 1, 129, rng.below(130)])
                        note.module = rng.pick([0, 1, 255, 256, 0xFFFF, rng.below(40)])
                        note.ctl = rng.pick([0, 0xFFFF, rng.below(0x10000)])
                        note.val = rng.pick([0, 0xFFFF, 0x8000, rng.below(0x10000)])
            real.append(p.attach_pattern(pat))
    return p


def snap_module(mod):
    if mod is None:
        return None
    return dict(
        cls=type(mod).__name__,
        mtype=mod.mtype,
        index=mod.index,
        name=mod.name,
        flags=mod.flags,
        x=mod.x,
        y=mod.y,
        layer=mod.layer,
        scale=mod.mod_scale,
        vis=int(mod.visualization),
        color=tuple(mod.color),
        finetune=mod.mod_finetune,
        relnote=mod.mod_relative_note,
        midi=(
            mod.midi_in_always,
            mod.midi_in_channel,
            mod.midi_out_name or None,
            mod.midi_out_channel,
            mod.midi_out_bank,
            mod.midi_out_program,
        ),
        ctl={k: repr(v) for k, v in mod.controller_values.items()},
        raw={k: mod.get_raw(k) for k, c in mod.controllers.items() if c.attached(mod)},
        opt={k: int(v) for k, v in mod.option_values.items()},
        cmid={
            k: mod.controller_midi_maps[k].cmid_data
            for k, c in mod.controllers.items()
            if c.attached(mod)
        },
        special=list(mod.specialized_iff_chunks()) if mod.chnk else None,
        in_links=list(mod.in_links),
        in_link_slots=list(mod.in_link_slots),
        out_links=list(mod.out_links),
        out_link_slots=list(mod.out_link_slots),
    )


def snap_pattern(pat):
    if pat is None:
        return None
    if isinstance(pat, PatternClone):
        return ("clone", pat.source, pat.flags_PFFF, pat.x, pat.y)
    return (
        "pattern",
        pat.name,
        pat.tracks,
        pat.lines,
        pat.y_size,
        pat.flags_PFLG,
        pat.icon,
        tuple(pat.fg_color),
        tuple(pat.bg_color),
        pat.flags_PFFF,
        pat.x,
        pat.y,
        [
            [(int(n.note), n.vel, n.module, n.ctl, n.val) for n in line]
            for line in pat.data
        ],
    )


PROJECT_FIELDS = [
    "sunvox_version", "based_on_version", "flags", "initial_bpm", "initial_tpl",
    "global_volume", "name", "time_grid", "time_grid2", "modules_scale",
    "modules_zoom", "modules_x_offset", "modules_y_offset", "modules_layer_mask",
    "modules_current_layer", "timeline_position", "restart_position",
    "selected_module", "selected_generator", "current_pattern", "current_track",
    "current_line",
]


def snap_project(p, as_stored=False):
    """Observable state; with as_stored, apply the documented storage limits."""
    fields = {k: getattr(p, k) for k in PROJECT_FIELDS}
    fields["sync"] = (int(p.receive_sync_midi), int(p.receive_sync_other))
    modules = [snap_module(mod) for mod in p.modules]
    if as_stored:
        while modules and modules[-1] is None:
            modules.pop()
        for ms in modules:
            if ms is not None:
                ms["name"] = stored_name(ms["name"])
                # trailing "disconnected" markers are not kept by the reader
                for key in ("in_links", "in_link_slots", "out_links", "out_link_slots"):
                    while ms[key] and ms[key][-1] == -1:
                        ms[key].pop()
    patterns = [snap_pattern(pat) for pat in p.patterns]
    return dict(fields=fields, modules=modules, patterns=patterns)


def digest(data):
    return hashlib.sha256(data).hexdigest()


def finish():
    if FAILURES:
        print("%d check(s) failed" % len(FAILURES))
        sys.exit(1)
    print("PASS")


# --------------------------------------------------------------------------
# C01-2: SunVoxReader chunk handlers and end-of-file link reconstruction
# --------------------------------------------------------------------------
import glob
import os
from struct import pack

from rv.readers.sunvox import SunVoxReader


def serialize(chunk_list):
    out = b""
    for name, data in chunk_list:
        if name is None:
            continue
        out += name + pack("<I", len(data)) + data
    return out


def load(chunk_list):
    return read_sunvox_file(BytesIO(serialize(chunk_list)))


def outcome(chunk_list):
    """Snapshot of the loaded project, or the exception type that loading raises."""
    try:
        return repr(snap_project(load(chunk_list)))
    except Exception as e:  # noqa
        return "raised " + type(e).__name__


def replace(chunk_list, tag, data, nth=0):
    out, seen = [], 0
    for name, old in chunk_list:
        if name == tag:
            if seen == nth:
                old = data
            seen += 1
        out.append((name, old))
    return out


def without(chunk_list, *tags):
    return [(n, d) for n, d in chunk_list if n not in tags]


RESULTS = {}

# 1. Every project-level scalar survives, over its whole documented width.
SCALARS = [
    ("flags", "I"), ("initial_bpm", "I"), ("initial_tpl", "I"), ("time_grid", "I"),
    ("time_grid2", "I"), ("global_volume", "I"), ("modules_scale", "I"),
    ("modules_zoom", "I"), ("modules_x_offset", "i"), ("modules_y_offset", "i"),
    ("modules_layer_mask", "I"), ("modules_current_layer", "I"),
    ("timeline_position", "i"), ("restart_position", "i"), ("selected_module", "I"),
    ("selected_generator", "i"), ("current_pattern", "I"), ("current_track", "I"),
    ("current_line", "I"),
]
for attr, width in SCALARS:
    values = [0, 1, 2**31 - 1]
    values += [2**31, 2**32 - 1] if width == "I" else [-1, -(2**31)]
    for value in values:
        p = Project()
        setattr(p, attr, value)
        q = read_sunvox_file(BytesIO(p.read()))
        expect(getattr(q, attr) == value, "%s=%d survives" % (attr, value))
        expect(type(getattr(q, attr)) is int, "%s is a plain int" % attr)
        others = [a for a, _ in SCALARS if a != attr]
        expect(
            all(getattr(q, a) == getattr(Project(), a) for a in others),
            "%s=%d leaves other fields alone" % (attr, value),
        )

# 2. A handler exists for every chunk tag the writer can emit at project level.
TAGS = (
    "VERS BVER FLGS SFGS BPM SPED TGRD TGD2 GVOL NAME MSCL MZOO MXOF MYOF LMSK CURL "
    "TIME REPS SELS LGEN PATN PATT PATL PDTA PEND PPAR SFFF SEND PAMD"
).split()
for tag in TAGS:
    expect(callable(getattr(SunVoxReader, "process_" + tag, None)), "handler " + tag)
expect(getattr(SunVoxReader, "process_XXXX", None) is None, "no stray handler")

# 3. SFGS: two 3-bit fields, higher bits ignored.
base = list(Project().chunks())
for val in list(range(64)) + [64, 0xFF, 0x1C0, 0xFFFFFFC0, 0xFFFFFFFF, 0x12345678]:
    q = load(replace(base, b"SFGS", pack("<I", val)))
    expect(
        (q.receive_sync_midi, q.receive_sync_other) == (val & 7, (val >> 3) & 7),
        "SFGS %#x" % val,
    )
for midi in range(8):
    for other in range(8):
        p = Project()
        p.receive_sync_midi, p.receive_sync_other = midi, other
        q = p.clone()
        expect((q.receive_sync_midi, q.receive_sync_other) == (midi, other), "sync rt")

# 4. VERS/BVER decoding, default "based on" version, NAME termination.
q = load(replace(replace(base, b"VERS", bytes([4, 3, 2, 1])), b"BVER", bytes([0, 9, 8, 7])))
expect(q.loaded_sunvox_version == (1, 2, 3, 4), "VERS reversed")
expect(q.based_on_version == (7, 8, 9, 0), "BVER reversed")
expect(q.sunvox_version == Project().sunvox_version, "own version untouched")
q = load(without(base, b"BVER"))
expect(q.based_on_version == (1, 7, 0, 0), "legacy based-on version")
for raw, want in [
    (b"plain", "plain"),
    (b"plain\0", "plain"),
    (b"cut\0tail\0", "cut"),
    (b"\0", ""),
    (b"", ""),
    ("Üñí ♫".encode("utf8") + b"\0", "Üñí ♫"),
]:
    expect(load(replace(base, b"NAME", raw)).name == want, "NAME %r" % raw)
RESULTS["bad-name"] = outcome(replace(base, b"NAME", b"\xff\xfe\0"))
for name in NAMES + ["", "x" * 500, "tab\tnew\nline"]:
    p = Project()
    p.name = name
    expect(p.clone().name == name, "project name %r" % name)

# 5. Malformed scalar chunks raise struct.error (not silently accepted).
for tag in [b"VERS", b"BVER", b"FLGS", b"SFGS", b"BPM ", b"MXOF", b"PATL", b"LGEN"]:
    for bad in (b"", b"\1\2\3", b"\1\2\3\4\5"):
        RESULTS["bad-%s-%d" % (tag.decode(), len(bad))] = outcome(replace(base, tag, bad))
        try:
            load(replace(base, tag, bad))
            expect(False, "bad %r accepted" % tag)
        except struct.error:
            pass
# Unknown chunks are skipped.
q = load(base[:5] + [(b"ZZZZ", b"junk"), (b"PAMD", b"")] + base[5:])
expect(snap_project(q) == snap_project(Project().clone()), "unknown chunk ignored")

# 6. Generated projects: whole-project round trip, including link tables.
for seed in range(1, 41):
    p = build_project(seed)
    want = snap_project(p, as_stored=True)
    q = read_sunvox_file(BytesIO(p.read()))
    expect(snap_project(q) == want, "seed %d round trip" % seed)
    r = q.clone()
    expect(snap_project(r) == want, "seed %d second generation" % seed)
    if seed <= 6:
        RESULTS["seed%d" % seed] = repr(snap_project(q))
    # Same file without the optional SLnK chunks: slots are re-derived.
    RESULTS["noslots%d" % seed] = outcome(without(list(p.chunks()), b"SLnK"))
    # Pretend the file came from an old SunVox: module numbers lose the high byte.
    old = load(replace(list(p.chunks()), b"VERS", bytes([0, 4, 9, 1])))
    expect(old.loaded_sunvox_version == (1, 9, 4, 0), "old version seen")
    for pat_new, pat_old in zip(q.patterns, old.patterns):
        if isinstance(pat_new, Pattern):
            for line_new, line_old in zip(pat_new.data, pat_old.data):
                for n_new, n_old in zip(line_new, line_old):
                    expect(n_old.module == n_new.module & 0xFF, "legacy module byte")
                    expect(
                        (n_old.note, n_old.vel, n_old.ctl, n_old.val)
                        == (n_new.note, n_new.vel, n_new.ctl, n_new.val),
                        "legacy other cells",
                    )
    edge = load(replace(list(p.chunks()), b"VERS", bytes([0, 5, 9, 1])))
    expect(
        [snap_pattern(x) for x in edge.patterns] == want["patterns"],
        "1.9.5.0 keeps wide module numbers",
    )

# 7. Trailing empty module slots are dropped, inner ones kept.
p = Project()
p.attach_module(None)
amp = MODULE_CLASSES["Amplifier"]()
p.attach_module(amp, loading=True)
p.attach_module(None)
p.attach_module(None)
q = p.clone()
expect([type(x).__name__ for x in q.modules] == ["Output", "NoneType", "Amplifier"], "trim")
expect(q.modules[2].index == 2, "index kept")
only_empty = [c for c in base if c[0] not in (b"SFFF",)]
cut = base[: [n for n, _ in base].index(b"SFFF")]
q = load(cut + [(b"SEND", b""), (b"SEND", b"")])
expect(q.modules == [], "only empty slots -> no modules")
q = load(cut)
expect(q.modules == [] and q.patterns == [], "no modules at all")

# 8. Hand-made link tables.
def star_project(n):
    p = Project()
    mods = [p.new_module(MODULE_CLASSES["Generator"]) for _ in range(n)]
    for mod in mods:
        p.connect(mod, p.output)
    return p, mods


p, mods = star_project(4)
cl = list(p.chunks())
RESULTS["star"] = outcome(cl)
links = pack("<4i", 1, 2, 3, 4)
RESULTS["star-noslots"] = outcome(without(cl, b"SLnK"))
RESULTS["star-gap"] = outcome(replace(without(cl, b"SLnK"), b"SLNK", pack("<4i", 1, -1, 3, 4)))
RESULTS["star-trailing-gap"] = outcome(
    replace(without(cl, b"SLnK"), b"SLNK", pack("<5i", 1, 2, -1, -1, -1))
)
RESULTS["star-dangling"] = outcome(replace(without(cl, b"SLnK"), b"SLNK", pack("<2i", 1, 9)))
RESULTS["star-dangling-slots"] = outcome(replace(cl, b"SLNK", pack("<2i", 1, 9)))
RESULTS["star-self"] = outcome(replace(without(cl, b"SLnK"), b"SLNK", pack("<2i", 0, 1)))
RESULTS["star-negative"] = outcome(replace(without(cl, b"SLnK"), b"SLNK", pack("<2i", -2, 1)))
RESULTS["star-dupe"] = outcome(replace(without(cl, b"SLnK"), b"SLNK", pack("<3i", 2, 2, 2)))
RESULTS["star-odd-size"] = outcome(replace(cl, b"SLNK", b"\1\0\0\0\2\0"))
# explicit slots, some far beyond the current table size
with_slots = []
for name, data in without(cl, b"SLnK"):
    with_slots.append((name, data))
    if name == b"SLNK" and data == links:
        with_slots.append((b"SLnK", pack("<4i", 3, 0, 0, 0)))
RESULTS["star-wide-slots"] = outcome(with_slots)
with_slots = [
    (n, pack("<4i", 0, -2, 0, 0) if n == b"SLnK" else d) for n, d in with_slots
]
RESULTS["star-negative-slot"] = outcome(with_slots)
wide = load([(n, pack("<4i", 3, 0, 0, 0) if n == b"SLnK" else d) for n, d in with_slots])
expect(wide.modules[1].out_links == [-1, -1, -1, 0], "out links padded up to the slot")
expect(wide.modules[1].out_link_slots == [-1, -1, -1, 0], "out slots padded up to the slot")
expect(wide.modules[0].in_link_slots == [3, 0, 0, 0], "explicit slots kept")
# a link to an empty slot
p2 = Project()
p2.attach_module(None)
g = MODULE_CLASSES["Generator"]()
p2.attach_module(g, loading=True)
p2.connect(g, p2.output)
cl2 = list(p2.chunks())
RESULTS["hole-ok"] = outcome(cl2)
RESULTS["hole-link"] = outcome(replace(cl2, b"SLNK", pack("<1i", 1)))
hole = []
for name, data in replace(cl2, b"SLNK", pack("<1i", 1)):
    hole.append((name, data))
    if name == b"SLNK" and data == pack("<1i", 1):
        hole.append((b"SLnK", pack("<1i", 5)))
RESULTS["hole-link-slots"] = outcome(hole)
try:
    load(hole)
    expect(False, "link to an empty slot accepted")
except RuntimeError:
    pass
# chains and fan-out with several slots per source
p3 = Project()
a, b, c, d = (p3.new_module(MODULE_CLASSES["Amplifier"]) for _ in range(4))
p3.connect([a, b], [c, d])
p3.connect([c, d], p3.output)
p3.connect(a, p3.output)
p3.connect(~b, d)
p3.connect(d, a)
cl3 = list(p3.chunks())
RESULTS["mesh"] = outcome(cl3)
RESULTS["mesh-noslots"] = outcome(without(cl3, b"SLnK"))
q = load(cl3)
for mod in q.modules:
    for slot, src in enumerate(mod.in_links):
        if src >= 0:
            back = mod.in_link_slots[slot]
            expect(q.modules[src].out_links[back] == mod.index, "out link mirrors in link")
            expect(q.modules[src].out_link_slots[back] == slot, "out slot mirrors in slot")

# 9. The repository's own fixtures still load the same way.
for path in sorted(glob.glob(os.path.join("tests", "files", "**", "*.sunvox"), recursive=True)):
    with open(path, "rb") as f:
        proj = read_sunvox_file(f)
    RESULTS["file:" + path.replace(os.sep, "/")] = repr(snap_project(proj))
    expect(snap_project(proj.clone())["fields"]["name"] == proj.name, "fixture reloads " + path)
expect(sum(k.startswith("file:") for k in RESULTS) >= 4, "fixtures found")

DIGESTS = {k: digest(v.encode("utf8")) if not v.startswith("raised ") else v for k, v in RESULTS.items()}
EXPECTED_DIGESTS = {'bad-BPM -0': 'raised error',
 'bad-BPM -3': 'raised error',
 'bad-BPM -5': 'raised error',
 'bad-BVER-0': 'raised error',
 'bad-BVER-3': 'raised error',
 'bad-BVER-5': 'raised error',
 'bad-FLGS-0': 'raised error',
 'bad-FLGS-3': 'raised error',
 'bad-FLGS-5': 'raised error',
 'bad-LGEN-0': 'raised error',
 'bad-LGEN-3': 'raised error',
 'bad-LGEN-5': 'raised error',
 'bad-MXOF-0': 'raised error',
 'bad-MXOF-3': 'raised error',
 'bad-MXOF-5': 'raised error',
 'bad-PATL-0': 'raised error',
 'bad-PATL-3': 'raised error',
 'bad-PATL-5': 'raised error',
 'bad-SFGS-0': 'raised error',
 'bad-SFGS-3': 'raised error',
 'bad-SFGS-5': 'raised error',
 'bad-VERS-0': 'raised error',
 'bad-VERS-3': 'raised error',
 'bad-VERS-5': 'raised error',
 'bad-name': 'raised UnicodeDecodeError',
 'file:tests/files/empty.sunvox': 'b094825efe995805e707e63b32c21b3985803bebf96733f5e75a35ee51db45be',
 'file:tests/files/issue109/filter_lfo.sunvox': '5e0fb8a6a0165234f6ebc0528ebb7f8c0c213dcbeb6c36496100604d06666046',
 'file:tests/files/issue41/sample.sunvox': 'ced63f9190d9a3a52a66edabe1d11627f12f80ea892343bcde804661ee77966e',
 'file:tests/files/issue54/test1.sunvox': '73f550c9d7e0ca182093a6fe9f4c688b50187f43ee28bd790f68ed7bf15bb4df',
 'file:tests/files/module-multiselect.sunvox': 'f6bbfa9d45f8e70acf3e4936fbd439a47b04561cf83c9fb34e3a82ed5a1aeca5',
 'file:tests/files/single-fm.sunvox': '993fa49799c21802c31edd9c260ddff2c96afa75284ca7e3ac5d5bf768e76201',
 'file:tests/files/supertracks.sunvox': 'fba76cf28c94f95cb0c326da67ad15a2c1eb931ef62dc3ec15ffdafb15cee94e',
 'hole-link': 'raised AttributeError',
 'hole-link-slots': 'raised RuntimeError',
 'hole-ok': '57a72271bacf1cdf8fa58da0a2b4f8ee3c3c78c8f0c6480b3ab5a59dae79439e',
 'mesh': '27e6063ed1e204d3778eafcc2cce8b0eae5241e0c0bc5c47bde3850149649aa9',
 'mesh-noslots': '280ad510bbca14e164d28a1a15a39b7d750093d7a0929373baa333ce0f956bf8',
 'noslots1': 'f7f3546bcb244c685883a4287e306c482bb2bb7e52fd6389401580500a47c9e1',
 'noslots10': 'b8023b05ddb926150a3e20e27a804eb6b59799147df66f86a43b57c813297db3',
 'noslots11': 'f4143ee7a5ed47b01ea3b1276217e14f10726b9411498e8dfd9015696c794499',
 'noslots12': 'dfd6103d4dba83bb3762250610e01850885e7e616dded31f06a39dd9dcc7c9e8',
 'noslots13': 'b185afc6aa475b5d44571dabaab92399cfe958dd30ceed9e51f27077ea5a05dd',
 'noslots14': '2faec507f3ef938b7f8d1182192adcb146fe6ffc7cd91b562e880d699cc1196c',
 'noslots15': 'ba1836ec333bc7cdabc56361164f973d81e7189402123e4e8144e9c6e77db915',
 'noslots16': '00ba667c0735ff9403ae1f72c447a8ed54c8129094857c3cb4a922c9603479a2',
 'noslots17': '993110f20284c5aea4646a3bf14947471657b21a7d867fe92aca615f23a797c1',
 'noslots18': '8f199a0cb777c8dca61f48cf56195a15cb0a6648328d47998d570312150b4d5c',
 'noslots19': '0cfafdbcb7b3620795e09e01a177abd06e1a53f0455a07282477f11830cfcff2',
 'noslots2': 'f1e2990afda909295a68878ca9e936dc18f793bf7c60942e49b2693e8e550cd8',
 'noslots20': '958dcfa530890fe896c5e69e2960fff029da0ce8d5d4513ec2d03ce842d23c86',
 'noslots21': '7d358dec0094061b5f790e42f86d2ba5c6c3b8ce6741287966ec8e14fef05f84',
 'noslots22': '5dba776678768a293bc24e65bf5488a52d4ccb92963e7763cf3f42e9bd740acb',
 'noslots23': 'e5b117e6bf6c42fb757f63df10ec8ed8e8bd6354f996d9ccd78ef604c491866c',
 'noslots24': 'c27a629e83718cef4599adcea1b6e0656936a02d67df42104dfa1b1fb5d0e182',
 'noslots25': '2d531d39f96efe3b0cce3dfb6e870da484b86777b4d7ddd0af459f879d03214a',
 'noslots26': 'a2085c9252368d5fffad8489fa7b5bf8ce279bac59fbc56b84c91192bac90f0c',
 'noslots27': 'c4b85a4acffd742ad01517eb95904135452a9cb1b334ef4c5a7ffe13c35629fa',
 'noslots28': '9542de55040ef1c471589c7fa0d0457de2cbc346c3435e21844947ff9256af71',
 'noslots29': 'e09c00d347da43bd75221321e6aa8f82b5dd9137615e3e53deb206638b5bb7d1',
 'noslots3': '239b22d87031c0da2718f6da20b7ed6c66dbd5f8377cd1987b1fc22944d10149',
 'noslots30': '3e3ba08658bc9a04d73ba31410fcf3bd32e701ddaf75f1d804211131f1dc0c23',
 'noslots31': '4da6adb7fdafcfed054d63cd402fc4127e55f5249a30746e644f4dfab00fb135',
 'noslots32': '153f8ea9e5f890a583916e851177e0da06443351296ce79a0b015770b98366a1',
 'noslots33': '5a0fd2d51c049debc07ff375d0cc44f98470e66abe8bcda50e17b84b10c4261a',
 'noslots34': 'bf203f31022add68acc0fe47da61a9e9d6e288e24e9f70c5f21d86c0e55268f1',
 'noslots35': 'f8fc61df757c894cb8fffb55ff38f65b75673637918b8641cb521d2f6791f824',
 'noslots36': '48d95456ae1122ee06fa04fbb7fee31707900dbda63600ac0f563c9d24d22068',
 'noslots37': '908d19a2f96d1d9b67e11e432f6ca8d509a471a25bd5ae827800fc9a552bc9e9',
 'noslots38': '8f9bd112a6c16fc847eee69b582b42792dbe4f9b8cde66296698e6506f93028f',
 'noslots39': 'a889e64f65030f53138f3350c4436efb59d01d8bbc5ff3ba0ee989104bf8c75d',
 'noslots4': '6cfbc5d4357929d1960dffc88b0569a72957093403fa325e079db1650c732bc2',
 'noslots40': '018bc0b8e52a7f4af96748a277e925b24a1e606a94f83a694df0ddd0db5da404',
 'noslots5': '220889ab02e0acc5721fcce298e5d9a109dca0e82b0138103f151f5b1c322d11',
 'noslots6': '44426fa3afa5675c5de0b8495b43847df23e11f675d95f865d018c17b0566a81',
 'noslots7': '033c5f2ee4febf19ea5533f243adac66baaf8b1872116ca5053c1f1c2a3e31d3',
 'noslots8': '17089292cd957d3c872d5e384a77439722fd090c130adb63cb434f88fcad1fa6',
 'noslots9': '565ba05ba486efed326508a1c25bc53538240785366d87773bff517d0bd92d43',
 'seed1': '24f777c99460b1b86f0b1ff461b8e51f1c63c0178a216f7c4977a9f03afc3a34',
 'seed2': 'e31d550f696516c8887ac42dd00478a68bcd42080a567216f886bf915921932f',
 'seed3': '77e37ce94dad7eb7fd2994a57d8ea954acd2b445bb528c6d0cfc9426bfb986b7',
 'seed4': '887b95267b5456f0b172f7a9b0879038f98d97b00d1284e16e3b6c934682d982',
 'seed5': '3277894eb2d68c686e4c68f40ec2ea9806c9fe3a037259cc759bd634692425ac',
 'seed6': '5d65951efe8ed7d564597f9e1dfb70377f1f28a1938d54da444c6652cc09c157',
 'star': 'b49b449305d7cf86e78e80ad662369f216469d0ded092e618e4639b362ebf342',
 'star-dangling': 'raised IndexError',
 'star-dangling-slots': 'raised IndexError',
 'star-dupe': '7087669ed71e46b57c1ebfcc4401a99228d5d0f58616c686efc4d3d406b9245f',
 'star-gap': 'fe03b8e2d2cb6788a49f208baa4f76b8d853d80bdc2a629749b8da4618d51f7f',
 'star-negative': 'f0015ad6024a48ced8f1cc87cc358e19b82e99949ab3734dfb808a33953ed8f2',
 'star-negative-slot': 'raised IndexError',
 'star-noslots': 'b49b449305d7cf86e78e80ad662369f216469d0ded092e618e4639b362ebf342',
 'star-odd-size': 'raised error',
 'star-self': 'ff572b16beb3079e673784a67c02d7d94e825eb963bb1e0894d13fea44387425',
 'star-trailing-gap': '8af8a89c0209d724c50423bb9e2fb6881afea31c0170b8f164b532ea608cf96d',
 'star-wide-slots': '53b6ebf4181f239b35919e01e77733bf6490649d40212d516b064ab78da5ad4f'}
if "--print-digests" in sys.argv:
    print(DIGESTS)
else:
    for key in sorted(set(DIGESTS) | set(EXPECTED_DIGESTS)):
        expect(DIGESTS.get(key) == EXPECTED_DIGESTS.get(key), "recorded outcome: " + key)

finish()
