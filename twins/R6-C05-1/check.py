"""Behaviour check for the C05-1 refactoring (compiled structs / cached lookups in the
save path and in the module reader).

Run from the repository root:
    PYTHONPATH=<root>/src/python python check.py

Exercises Project.chunks, Synth.chunks, Module.iff_chunks, Module.options_chunks and
ModuleReader.process_SLNK / process_SLnK / process_CVAL on the fixtures and on mutated
copies of them, checks the C05 property (re-saving is stable, saving is pure) and
compares a digest of everything observed against the value recorded on the unchanged
tree.
"""
import hashlib
import io
import logging
import struct
import sys
from collections import Counter, defaultdict
from pathlib import Path

import rv.api as rv
from rv.lib.iff import chunks as iff_chunks
from rv.modules import MODULE_CLASSES
from rv.project import Project
from rv.readers.module import ModuleReader
from rv.readers.reader import read_sunvox_file
from rv.synth import Synth

EXPECTED_DIGEST = "e8c38102e222f56cf7952dd30f594eabb1cef88eede01c60170f097702ebfe34"

logging.disable(logging.CRITICAL)

ROOT = Path.cwd()
FILES = sorted(
    p
    for p in (ROOT / "tests" / "files").rglob("*")
    if p.suffix in (".sunvox", ".sunsynth")
)
assert len(FILES) > 40, "run me from the repository root"

digest = hashlib.sha256()
failures = []
stats = Counter()


def note(*parts):
    for part in parts:
        if not isinstance(part, bytes):
            part = repr(part).encode()
        digest.update(len(part).to_bytes(8, "little"))
        digest.update(part)


def check(cond, msg):
    if not cond:
        failures.append(msg)


# ---------------------------------------------------------------- helpers


def snapshot(obj, seen=None, depth=0):
    """Structural snapshot of an object graph (cycle safe)."""
    if seen is None:
        seen = {}
    if obj is None or isinstance(obj, (int, float, str, bytes, bool)):
        return obj
    if id(obj) in seen:
        return ("<ref>", seen[id(obj)])
    seen[id(obj)] = len(seen)
    if isinstance(obj, defaultdict) and obj.default_factory is not None:
        # Reading a missing key of a defaultdict materialises the default; that is
        # not an observable change, so entries equal to the default are left out.
        blank = snapshot(obj.default_factory(), {})
        items = [(k, snapshot(v, {})) for k, v in obj.items()]
        return ("defaultdict", [(k, v) for k, v in items if v != blank])
    if isinstance(obj, dict):
        return ("dict", [(snapshot(k, seen), snapshot(v, seen)) for k, v in obj.items()])
    if isinstance(obj, (list, tuple)):
        return (type(obj).__name__, [snapshot(x, seen) for x in obj])
    if isinstance(obj, (set, frozenset)):
        return ("set", sorted(repr(snapshot(x, seen)) for x in obj))
    if isinstance(obj, (bytearray, memoryview)):
        return bytes(obj)
    if hasattr(obj, "tobytes") and hasattr(obj, "dtype"):
        return ("ndarray", str(obj.dtype), obj.shape, obj.tobytes())
    if isinstance(obj, type) or callable(obj) and not hasattr(obj, "__dict__"):
        return ("callable", getattr(obj, "__qualname__", repr(obj)))
    state = {}
    if hasattr(obj, "__dict__"):
        state.update(vars(obj))
    for cls in type(obj).__mro__:
        for slot in getattr(cls, "__slots__", ()):
            if hasattr(obj, slot):
                state[slot] = getattr(obj, slot)
    return (
        type(obj).__name__,
        [(k, snapshot(v, seen)) for k, v in sorted(state.items())],
    )


def save(obj):
    f = io.BytesIO()
    obj.write_to(f)
    return f.getvalue()


def load(data):
    return read_sunvox_file(io.BytesIO(data))


def cycle(data, label, n=3):
    """Load/save `data` n times; record and check stability + purity."""
    try:
        obj = load(data)
    except Exception as e:  # noqa - error types are part of the behaviour
        note(label, "load-error", type(e).__name__, str(e))
        stats["load-error " + type(e).__name__] += 1
        return None
    try:
        before = snapshot(obj)
        y = save(obj)
        after = snapshot(obj)
        y_again = save(obj)
    except Exception as e:  # noqa
        note(label, "save-error", type(e).__name__, str(e))
        stats["save-error " + type(e).__name__] += 1
        return None
    note(label, y)
    stats["stable-checked"] += 1
    check(before == after, f"{label}: saving changed the object's state")
    check(y == y_again, f"{label}: saving twice gave different bytes")
    prev = y
    for i in range(n):
        try:
            nxt = save(load(prev))
        except Exception as e:  # noqa
            note(label, "recycle-error", i, type(e).__name__, str(e))
            check(False, f"{label}: cycle {i} failed with {e!r}")
            return y
        check(nxt == prev, f"{label}: drift at cycle {i + 2}")
        prev = nxt
    return y


def parse(data):
    """Flat list of [name, payload] for an IFF byte string."""
    return [[name, payload] for name, payload in iff_chunks(io.BytesIO(data))]


def build(chunk_list):
    out = bytearray()
    for name, payload in chunk_list:
        out += name + struct.pack("<I", len(payload)) + payload
    return bytes(out)


# ------------------------------------------------ 1. fixtures, unmodified

originals = {}
for path in FILES:
    data = path.read_bytes()
    originals[path] = data
    cycle(data, path.name)

# ------------------------------------------------ 2. mutated fixtures

CVAL_VALUES = [0, 1, 255, 256, 300, 32768, 65536, 100000, -1, -5, -129, -(2**31), 2**31 - 1]
LINK_TAILS = [
    [],
    [-1],
    [-1, -1, -1],
    [0],
    [0, -1],
    [-1, 0],
    [0, 0, 0],
]


def mutate_all(path, data):
    cl = parse(data)
    cval_idx = [i for i, (n, _) in enumerate(cl) if n == b"CVAL"]
    slnk_idx = [i for i, (n, _) in enumerate(cl) if n == b"SLNK"]
    slot_idx = [i for i, (n, _) in enumerate(cl) if n == b"SLnK"]
    chdt_idx = [
        i
        for i, (n, p) in enumerate(cl)
        if n == b"CHDT" and 0 < len(p) <= 64 and cl[i - 1][0] == b"CHNM"
    ]
    # (a) every CVAL set to the same out-of-range value
    for v in CVAL_VALUES:
        m = [list(c) for c in cl]
        for i in cval_idx:
            m[i][1] = struct.pack("<i", v)
        yield f"{path.name}/cval-all={v}", build(m)
    # (b) single CVALs pushed far outside, one at a time (first 12)
    for k, i in enumerate(cval_idx[:12]):
        for v in (300, -300, 70000):
            m = [list(c) for c in cl]
            m[i][1] = struct.pack("<i", v)
            yield f"{path.name}/cval[{k}]={v}", build(m)
    # (c) link arrays: append tails, truncate, odd sizes
    for k, i in enumerate(slnk_idx[:6]):
        base = cl[i][1]
        for tail in LINK_TAILS:
            m = [list(c) for c in cl]
            m[i][1] = base + struct.pack(f"<{len(tail)}i", *tail)
            yield f"{path.name}/slnk[{k}]+{tail}", build(m)
        for extra in (b"\x01", b"\xff\xff", b"\x00\x00\x00"):
            m = [list(c) for c in cl]
            m[i][1] = base + extra
            yield f"{path.name}/slnk[{k}]+raw{extra!r}", build(m)
    for k, i in enumerate(slot_idx[:6]):
        base = cl[i][1]
        n = len(base) // 4
        for fill in (0, -1, 1, 3):
            m = [list(c) for c in cl]
            m[i][1] = struct.pack(f"<{n}i", *([fill] * n))
            yield f"{path.name}/slot[{k}]=all{fill}", build(m)
        for tail in LINK_TAILS:
            m = [list(c) for c in cl]
            m[i][1] = base + struct.pack(f"<{len(tail)}i", *tail)
            yield f"{path.name}/slot[{k}]+{tail}", build(m)
        m = [list(c) for c in cl]
        del m[i]
        yield f"{path.name}/slot[{k}]-removed", build(m)
    # (d) option bytes
    for k, i in enumerate(chdt_idx[:4]):
        base = cl[i][1]
        for fill in (0x00, 0xFF, 0x55, 0xAA):
            m = [list(c) for c in cl]
            m[i][1] = bytes([fill]) * len(base)
            yield f"{path.name}/chdt[{k}]=fill{fill:#x}", build(m)
        m = [list(c) for c in cl]
        m[i][1] = base[:1]
        yield f"{path.name}/chdt[{k}]-short", build(m)


mutation_count = 0
for path, data in originals.items():
    for label, mutated in mutate_all(path, data):
        mutation_count += 1
        cycle(mutated, label, n=2)
note("mutations", mutation_count)
check(mutation_count > 1000, "expected more than 1000 mutated files")

# ------------------------------------------------ 3. generated projects / synths


def generated():
    p = Project()
    p.name = "generated"
    gen = p.new_module(rv.m.Generator, name="gen", volume=10)
    amp = p.new_module(rv.m.Amplifier, name="amp" * 20, dc_offset=-100, balance=-128)
    flt = p.new_module(rv.m.Filter, name="fünf")
    lfo = p.new_module(rv.m.Lfo)
    ech = p.new_module(rv.m.Echo)
    gen >> amp >> flt >> p.output
    gen >> flt
    lfo >> p.output
    ech >> p.output
    p.connect([gen, lfo], ech)
    yield "gen/connected", p
    gen >> ~flt
    yield "gen/hole-in-links", p
    ech >> ~p.output
    yield "gen/trailing-hole", p
    lfo >> ~p.output
    yield "gen/two-trailing-holes", p
    p.modules[lfo.index] = None
    yield "gen/none-module", p
    p.timeline_position = -4
    p.restart_position = 7
    p.selected_generator = 3
    yield "gen/positions", p


for label, proj in generated():
    data = save(proj)
    note(label, data)
    cycle(data, label)

for name, cls in sorted(MODULE_CLASSES.items()):
    if name == "Output":
        continue
    mod = cls()
    try:
        data = save(Synth(mod))
    except Exception as e:  # noqa
        note("synth", name, type(e).__name__, str(e))
        continue
    note("synth", name, data)
    cycle(data, f"synth/{name}")
    # same module inside a project
    p = Project()
    p.attach_module(cls())
    data = save(p)
    note("proj", name, data)
    cycle(data, f"proj/{name}")

try:
    save(Synth())
except Exception as e:  # noqa
    note("empty synth", type(e).__name__, str(e))
try:
    list(rv.m.Module().iff_chunks())
except Exception as e:  # noqa
    note("base module", type(e).__name__, str(e))

# ------------------------------------------------ 4. options_chunks, all module types


def option_patterns(mod):
    names = list(mod.options)
    yield "defaults", {}
    yield "all-true", {n: True for n in names}
    yield "all-false", {n: False for n in names}
    yield "big-ints", {n: 0x1FF for n in names}
    yield "negative", {n: -1 for n in names}
    yield "alternating", {n: (i % 2) * 5 for i, n in enumerate(names)}


for name, cls in sorted(MODULE_CLASSES.items()):
    if not cls.options:
        continue
    for option in cls.options.values():
        check(0 <= option.byte < 64, f"{name}.{option.name}: byte out of table")
        check(option.size >= 1 and option.bit >= 0, f"{name}.{option.name}: bad size/bit")
        check(option.bit + option.size <= 8, f"{name}.{option.name}: crosses a byte")
    for label, values in option_patterns(cls()):
        mod = cls()
        mod.option_values.update(values)
        before = dict(mod.option_values)
        try:
            out = list(mod.options_chunks())
        except Exception as e:  # noqa
            out = (type(e).__name__, str(e))
        note("options", name, label, out)
        check(before == mod.option_values, f"{name}: options_chunks changed option_values")
        if isinstance(out, list):
            check([c[0] for c in out] == [b"CHNM", b"CHDT"], f"{name}: chunk names")
            check(
                len(out[1][1]) == max(o.byte for o in cls.options.values()) + 1,
                f"{name}: CHDT length",
            )
    mod = cls()
    mod.option_values.pop(next(iter(cls.options)))
    try:
        list(mod.options_chunks())
    except Exception as e:  # noqa
        note("options-missing", name, type(e).__name__)

# ------------------------------------------------ 5. link readers in isolation


def read_links(method, data, initial=()):
    reader = ModuleReader(io.BytesIO(), index=1)
    reader._object = rv.m.Amplifier()
    target = (
        reader.object.in_links if method == "process_SLNK" else reader.object.in_link_slots
    )
    target.extend(initial)
    try:
        result = getattr(reader, method)(data)
    except Exception as e:  # noqa
        return type(e).__name__, str(e), list(target)
    check(result is None, f"{method} returned a value")
    other = (
        reader.object.in_link_slots if method == "process_SLNK" else reader.object.in_links
    )
    check(other == [], f"{method} touched the other list")
    return list(target)


LINK_ARRAYS = [
    [],
    [-1],
    [-1, -1],
    [0],
    [5, -1],
    [-1, 5],
    [-1, 5, -1, -1],
    [1, 2, 3],
    [0, 0, 0, -1],
    [-2, -1],
    [2**31 - 1, -(2**31), -1],
    list(range(300)) + [-1] * 300,
]
for method in ("process_SLNK", "process_SLnK"):
    for arr in LINK_ARRAYS:
        payload = struct.pack(f"<{len(arr)}i", *arr)
        for initial in ((), (7,), (-1,), (7, -1), (-1, -1)):
            got = read_links(method, payload, initial)
            note(method, arr[:8], len(arr), initial, got)
            if isinstance(got, list):
                full = list(initial) + arr
                if payload:
                    while full and full[-1] == -1:
                        full.pop()
                check(got == full, f"{method}({arr[:8]}, initial={initial}) -> {got[:8]}")
    for raw in (b"\x00", b"\x01\x02\x03", b"\xff" * 5, b"\xff" * 7, b"\x00" * 9):
        note(method, raw, read_links(method, raw, (3,)))

# CVAL / scalar chunk decoding incl. wrong sizes
for method in ("process_CVAL", "process_SFIN", "process_SSCL", "process_SCOL", "process_SMII"):
    for raw in (b"", b"\x01", b"\x01\x02\x03", b"\xff\xff\xff\xff", b"\x00\x00\x00\x80", b"\x01" * 5):
        reader = ModuleReader(io.BytesIO(), index=1)
        reader._object = rv.m.Amplifier()
        try:
            getattr(reader, method)(raw)
            got = (
                list(reader._cvals),
                reader.object.mod_finetune,
                reader.object.mod_scale,
                reader.object.color,
                reader.object.midi_in_always,
                reader.object.midi_in_channel,
            )
        except Exception as e:  # noqa
            got = (type(e).__name__, str(e))
        note(method, raw, got)

# ------------------------------------------------ 6. save-side edge cases

p = Project()
a = p.new_module(rv.m.Amplifier)
b = p.new_module(rv.m.Amplifier)
a >> b >> p.output
for slots in ([0], [-1], [1], [0, 0]):
    b.in_link_slots[:] = slots
    try:
        names = [n for n, _ in p.chunks()]
        got = (names.count(b"SLNK"), names.count(b"SLnK"))
    except Exception as e:  # noqa
        got = (type(e).__name__, str(e))
    note("slot-elision", slots, got)
b.in_link_slots[:] = [0]
for attr, value in (
    ("flags", -1),
    ("initial_bpm", 2**32),
    ("modules_x_offset", 2**31),
    ("name", "x" * 300),
):
    q = Project()
    setattr(q, attr, value)
    try:
        got = hashlib.sha256(save(q)).hexdigest()
    except Exception as e:  # noqa
        got = (type(e).__name__, str(e))
    note("project-field", attr, got)
for attr, value in (
    ("mod_finetune", 2**31),
    ("color", (1, 2)),
    ("color", (1, 2, 256)),
    ("midi_out_name", "out"),
    ("midi_out_name", ""),
    ("name", "é" * 40),
    ("midi_in_channel", 9),
    ("flags", -1),
):
    mod = rv.m.Amplifier()
    setattr(mod, attr, value)
    for in_project in (None, True, False):
        try:
            got = list(mod.iff_chunks(in_project=in_project))
        except Exception as e:  # noqa
            got = (type(e).__name__, str(e))
        note("module-field", attr, value, in_project, got)

# ------------------------------------------------ verdict

result = digest.hexdigest()
if failures:
    print("FAIL")
    for f in failures[:40]:
        print("  -", f)
    sys.exit(1)
if result != EXPECTED_DIGEST:
    print("FAIL: behaviour digest differs from the one recorded on the unchanged tree")
    print("  expected", EXPECTED_DIGEST)
    print("  got     ", result)
    sys.exit(1)
print("PASS", result[:16], f"({len(FILES)} fixtures, {mutation_count} mutated files)")
print("    ", dict(stats))
