"""Behaviour check for refactoring C01-3 (passes before and after the patch)."""
import hashlib
import logging
import struct
import sys
from enum import Enum
from io import BytesIO

logging.disable(logging.CRITICAL)

from rv.api import NOTECMD, Pattern, PatternClone, Project, Synth, read_sunvox_file
from rv.cmidmap import MidiMessageType, Slope
from rv.controller import DependentRange, Range
from rv.modules import MODULE_CLASSES
from rv.modules.output import Output

FAILURES = []


def expect(cond, label):
    if not cond:
        FAILURES.append(label)
        print("FAIL:", label)


class Lcg:
    """Tiny deterministic generator (independent of the random module)."""

    def __init__(self, seed):
        self.state = seed & 0xFFFFFFFF

    def next(self):
        self.state = (self.state * 1664525 + 1013904223) & 0xFFFFFFFF
        return self.state >> 8

    def below(self, n):
        return self.next() % n

    def between(self, lo, hi):
        return lo + self.below(hi - lo + 1)

    def pick(self, seq):
        return seq[self.below(len(seq))]


NAMES = [
    "",
    "a",
    "x" * 31,
    "x" * 32,
    "x" * 33,
    "y" * 70,
    "x" * 31 + "é",  # two-byte char straddling byte 32
    "x" * 30 + "€",  # three-byte char straddling byte 32
    "x" * 29 + "\U0001f600",  # four-byte char straddling byte 32
    "x" * 28 + "\U0001f600",  # four-byte char ending exactly at byte 32
    "é" * 16,
    "é" * 17,
    "€" * 11,
    "\U0001f600" * 9,
    "Café del mar",
    " spaced  name ",
]


def stored_name(name):
    """Longest prefix of name whose UTF-8 form fits 32 bytes."""
    out = ""
    for ch in name:
        if len((out + ch).encode("utf8")) > 32:
            break
        out += ch
    return out


def set_some_controllers(rng, mod):
    for cname, ctl in mod.controllers.items():
        if rng.below(3) == 0:
            continue
        if isinstance(ctl.value_type, DependentRange) or not ctl.attached(mod):
            continue
        t = ctl.instance_value_type(mod)
        try:
            if isinstance(t, Range):
                choice = rng.below(3)
                value = (t.min, t.max, rng.between(t.min, t.max))[choice]
            elif isinstance(t, type) and issubclass(t, Enum):
                value = rng.pick(list(t))
            elif t is bool:
                value = bool(rng.below(2))
            else:
                continue
            setattr(mod, cname, value)
        except Exception:
            pass


def set_some_options(rng, mod):
    for oname, opt in mod.options.items():
        if rng.below(2):
            continue
        try:
            if opt.size == 1:
                setattr(mod, oname, bool(rng.below(2)))
            else:
                setattr(mod, oname, rng.below(1 << opt.size))
        except Exception:
            pass


def set_some_midi_maps(rng, mod):
    for cname in list(mod.controllers)[:: 1 + rng.below(3)]:
        mm = mod.controller_midi_maps[cname]
        mm.channel = rng.below(17)
        mm.message_type = rng.pick(list(MidiMessageType))
        mm.message_parameter = rng.below(0x10000)
        mm.slope = rng.pick(list(Slope))


def build_project(seed, n_modules=12, holes=True, every_type=False):
    rng = Lcg(seed)
    p = Project()
    p.name = rng.pick(NAMES + ["Proj ♫ %d" % seed])
    p.flags = rng.pick([0, 1, 0xFFFFFFFF, rng.below(1 << 24)])
    p.initial_bpm = rng.pick([1, 125, 0xFFFFFFFF, rng.between(1, 800)])
    p.initial_tpl = rng.between(1, 31)
    p.global_volume = rng.between(0, 256)
    p.time_grid = rng.between(0, 64)
    p.time_grid2 = rng.between(0, 64)
    p.modules_scale = rng.between(0, 1024)
    p.modules_zoom = rng.between(0, 1024)
    p.modules_x_offset = rng.pick([0, -1, -(2**31), 2**31 - 1, rng.between(-999, 999)])
    p.modules_y_offset = rng.pick([0, -1, -(2**31), 2**31 - 1, rng.between(-999, 999)])
    p.modules_layer_mask = rng.pick([0, 0xFF, 0xFFFFFFFF])
    p.modules_current_layer = rng.below(8)
    p.timeline_position = rng.pick([0, 0, 1, -1, -(2**31), 2**31 - 1, 77])
    p.restart_position = rng.pick([0, 0, 1, -5, 2**31 - 1, 300])
    p.selected_module = rng.below(20)
    p.selected_generator = rng.pick([-1, 0, 3, -(2**31)])
    p.current_pattern = rng.below(9)
    p.current_track = rng.below(32)
    p.current_line = rng.below(999)
    p.receive_sync_midi = rng.below(8)
    p.receive_sync_other = rng.below(8)
    p.output.name = rng.pick(["Output", "Out é", "o" * 40])
    p.output.x, p.output.y = rng.between(-50, 1500), rng.between(-50, 1500)

    type_names = [n for n in MODULE_CLASSES if n != "Output"]
    if every_type:
        chosen = list(type_names)
    else:
        chosen = [rng.pick(type_names) for _ in range(n_modules)]
    mods = []
    for i, tname in enumerate(chosen):
        if holes and rng.below(5) == 0:
            p.attach_module(None)
        cls = MODULE_CLASSES[tname]
        kw = dict(
            x=rng.between(-2000, 2000),
            y=rng.between(-2000, 2000),
            layer=rng.below(8),
            color=(rng.below(256), rng.below(256), rng.below(256)),
            midi_in_always=bool(rng.below(2)),
            midi_in_channel=rng.below(17),
            midi_out_channel=rng.below(17),
            midi_out_bank=rng.between(-1, 16383),
            midi_out_program=rng.between(-1, 127),
        )
        if rng.below(3):
            kw["name"] = rng.pick(NAMES)
        if rng.below(3) == 0:
            kw["midi_out_name"] = rng.pick(["", "dev", "Gerät 1"])
        if rng.below(2):
            kw["visualization"] = rng.below(1 << 28)
        if rng.below(2):
            kw["mod_scale"] = rng.between(1, 1024)
        kw = {k: v for k, v in kw.items() if k not in cls.controllers}
        mod = cls(**kw)
        mod.mod_finetune = rng.between(-256, 256)
        mod.mod_relative_note = rng.between(-64, 64)
        p.attach_module(mod, loading=bool(rng.below(4) == 0))
        mod.flags |= rng.pick([0, 0x80, 0x100, 0x4000, 0x02000000])
        set_some_controllers(rng, mod)
        set_some_options(rng, mod)
        set_some_midi_maps(rng, mod)
        mods.append(mod)
    everything = [p.output] + mods
    for _ in range(len(mods) * 2):
        a, b = rng.pick(mods), rng.pick(everything)
        if a is not b:
            p.connect(a, b)
    for _ in range(len(mods) // 3):
        a, b = rng.pick(mods), rng.pick(everything)
        if a is not b:
            p.connect(~a, b)

    n_pat = rng.below(6)
    real = []
    for i in range(n_pat):
        kind = rng.below(5)
        if kind == 0:
            p.attach_pattern(None)
        elif kind == 1 and real:
            p.attach_pattern(
                PatternClone(
                    source=rng.pick(real),
                    x=rng.between(-100, 4000),
                    y=rng.between(-500, 500),
                )
            )
        else:
            pat = Pattern(
                tracks=rng.between(1, 6),
                lines=rng.between(1, 12),
                x=rng.between(-100, 4000),
                y=rng.between(-500, 500),
                y_size=rng.between(1, 64),
                flags_PFLG=rng.below(4),
                flags_PFFF=rng.pick([0, 2, 8, 16]),
                fg_color=(rng.below(256), rng.below(256), rng.below(256)),
                bg_color=(rng.below(256), rng.below(256), rng.below(256)),
                icon=bytes(rng.below(256) for _ in range(32)),
            )
            if rng.below(2):
                pat.name = rng.pick(NAMES + ["paté"])
            for line in pat.data:
                for note in line:
                    if rng.below(2):
                        note.note = rng.pick(
                            [0, 1, 60, 120, 128, 129, 130, 131, 132, 133, 134, 140]
                        )
                        note.vel = rng.pick([0, 1, 129, rng.below(130)])
                        note.module = rng.pick([0, 1, 255, 256, 0xFFFF, rng.below(40)])
                        note.ctl = rng.pick([0, 0xFFFF, rng.below(0x10000)])
                        note.val = rng.pick([0, 0xFFFF, 0x8000, rng.below(0x10000)])
            real.append(p.attach_pattern(pat))
    return p


def snap_module(mod):
    if mod is None:
        return None
    return dict(
        cls=type(mod).__name__,
        mtype=mod.mtype,
        index=mod.index,
        name=mod.name,
        flags=mod.flags,
        x=mod.x,
        y=mod.y,
        layer=mod.layer,
        scale=mod.mod_scale,
        vis=int(mod.visualization),
        color=tuple(mod.color),
        finetune=mod.mod_finetune,
        relnote=mod.mod_relative_note,
        midi=(
            mod.midi_in_always,
            mod.midi_in_channel,
            mod.midi_out_name or None,
            mod.midi_out_channel,
            mod.midi_out_bank,
            mod.midi_out_program,
        ),
        ctl={k: repr(v) for k, v in mod.controller_values.items()},
        raw={k: mod.get_raw(k) for k, c in mod.controllers.items() if c.attached(mod)},
        opt={k: int(v) for k, v in mod.option_values.items()},
        cmid={
            k: mod.controller_midi_maps[k].cmid_data
            for k, c in mod.controllers.items()
            if c.attached(mod)
        },
        special=list(mod.specialized_iff_chunks()) if mod.chnk else None,
        in_links=list(mod.in_links),
        in_link_slots=list(mod.in_link_slots),
        out_links=list(mod.out_links),
        out_link_slots=list(mod.out_link_slots),
    )


def snap_pattern(pat):
    if pat is None:
        return None
    if isinstance(pat, PatternClone):
        return ("clone", pat.source, pat.flags_PFFF, pat.x, pat.y)
    return (
        "pattern",
        pat.name,
        pat.tracks,
        pat.lines,
        pat.y_size,
        pat.flags_PFLG,
        pat.icon,
        tuple(pat.fg_color),
        tuple(pat.bg_color),
        pat.flags_PFFF,
        pat.x,
        pat.y,
        [
            [(int(n.note), n.vel, n.module, n.ctl, n.val) for n in line]
            for line in pat.data
        ],
    )


PROJECT_FIELDS = [
    "sunvox_version", "based_on_version", "flags", "initial_bpm", "initial_tpl",
    "global_volume", "name", "time_grid", "time_grid2", "modules_scale",
    "modules_zoom", "modules_x_offset", "modules_y_offset", "modules_layer_mask",
    "modules_current_layer", "timeline_position", "restart_position",
    "selected_module", "selected_generator", "current_pattern", "current_track",
    "current_line",
]


def snap_project(p, as_stored=False):
    """Observable state; with as_stored, apply the documented storage limits."""
    fields = {k: getattr(p, k) for k in PROJECT_FIELDS}
    fields["sync"] = (int(p.receive_sync_midi), int(p.receive_sync_other))
    modules = [snap_module(mod) for mod in p.modules]
    if as_stored:
        while modules and modules[-1] is None:
            modules.pop()
        for ms in modules:
            if ms is not None:
                ms["name"] = stored_name(ms["name"])
                # trailing "disconnected" markers are not kept by the reader
                for key in ("in_links", "in_link_slots", "out_links", "out_link_slots"):
                    while ms[key] and ms[key][-1] == -1:
                        ms[key].pop()
    patterns = [snap_pattern(pat) for pat in p.patterns]
    return dict(fields=fields, modules=modules, patterns=patterns)


def digest(data):
    return hashlib.sha256(data).hexdigest()


def finish():
    if FAILURES:
        print("%d check(s) failed" % len(FAILURES))
        sys.exit(1)
    print("PASS")


# --------------------------------------------------------------------------
# C01-3: Module.iff_chunks / options / CMID, ModuleReader, Pattern cells,
#        lib.iff.write_chunk
# --------------------------------------------------------------------------
from struct import pack

from rv.lib.iff import chunks as iff_chunks
from rv.lib.iff import write_chunk
from rv.modules import Chunk, Module
from rv.readers.module import ModuleReader


def serialize(chunk_list):
    out = b""
    for name, data in chunk_list:
        if name is None:
            continue
        out += name + pack("<I", len(data)) + data
    return out


def load(chunk_list):
    return read_sunvox_file(BytesIO(serialize(chunk_list)))


def outcome(fn):
    try:
        return repr(fn())
    except Exception as e:  # noqa
        return "raised " + type(e).__name__


def replace(chunk_list, tag, data, nth=0):
    out, seen = [], 0
    for name, old in chunk_list:
        if name == tag:
            if seen == nth:
                old = data
            seen += 1
        out.append((name, old))
    return out


def reference_header(mod, in_project):
    """Independent statement of the common module header."""
    out = [(b"SFFF", pack("<I", mod.flags))]
    out.append((b"SNAM", stored_name(mod.name).encode("utf8").ljust(32, b"\0")))
    if mod.mtype != "Output":
        out.append((b"STYP", mod.mtype.encode("utf8") + b"\0"))
    out.append((b"SFIN", pack("<i", mod.mod_finetune)))
    out.append((b"SREL", pack("<i", mod.mod_relative_note)))
    if in_project:
        out.append((b"SXXX", pack("<i", mod.x)))
        out.append((b"SYYY", pack("<i", mod.y)))
        out.append((b"SZZZ", pack("<i", mod.layer)))
    out.append((b"SSCL", pack("<I", mod.mod_scale)))
    if in_project:
        out.append((b"SVPR", pack("<I", int(mod.visualization))))
    out.append((b"SCOL", bytes(mod.color)))
    out.append((b"SMII", pack("<I", mod.midi_in_channel * 2 + (1 if mod.midi_in_always else 0))))
    if mod.midi_out_name:
        out.append((b"SMIN", mod.midi_out_name.encode("utf8") + b"\0"))
    out.append((b"SMIC", pack("<I", mod.midi_out_channel)))
    out.append((b"SMIB", pack("<i", mod.midi_out_bank)))
    out.append((b"SMIP", pack("<i", mod.midi_out_program)))
    return out


def reference_options(mod):
    image = bytearray(64)
    used = 0
    for opt in mod.options.values():
        image[opt.byte] |= (int(mod.option_values[opt.name]) & ((1 << opt.size) - 1)) << opt.bit
        used = max(used, opt.byte + 1)
    return [(b"CHNM", pack("<I", mod.options_chnm)), (b"CHDT", bytes(image[:used]))]


RESULTS = {}

# 1. Common header of every module in generated projects, in and out of a project.
seen_types = set()
projects = [build_project(seed) for seed in range(1, 31)]
projects.append(build_project(999, every_type=True))
for pi, p in enumerate(projects):
    for mod in p.modules:
        if mod is None:
            continue
        seen_types.add(mod.mtype)
        label = "p%d.m%d(%s)" % (pi, mod.index, mod.mtype)
        expect(list(mod.iff_chunks()) == reference_header(mod, True), label + " header")
        expect(list(mod.iff_chunks(in_project=True)) == reference_header(mod, True), label + " T")
        expect(list(mod.iff_chunks(in_project=False)) == reference_header(mod, False), label + " F")
        expect(list(mod.iff_chunks(in_project=0)) == reference_header(mod, False), label + " 0")
        if mod.options:
            expect(list(mod.options_chunks()) == reference_options(mod), label + " options")
    want = snap_project(p, as_stored=True)
    q = read_sunvox_file(BytesIO(p.read()))
    expect(snap_project(q) == want, "project %d round trip" % pi)
    if pi < 6:
        RESULTS["proj%d" % pi] = digest(p.read())
    # every module also survives as a stand-alone synth
    for mod in p.modules:
        if mod is None or mod.mtype == "Output":
            continue
        data = Synth(mod).read()
        back = read_sunvox_file(BytesIO(data)).module
        a, b = snap_module(mod), snap_module(back)
        for key in ("cls", "flags", "scale", "color", "finetune", "relnote", "midi", "ctl",
                    "raw", "opt", "cmid", "special"):
            expect(a[key] == b[key], "synth %s %s" % (mod.mtype, key))
        expect(b["name"] == stored_name(a["name"]), "synth name")
        expect((back.x, back.y, back.layer) == (512, 512, 0), "synth has no placement")
        clone = mod.clone()
        expect(snap_module(clone)["raw"] == a["raw"], "module clone")
expect(len(seen_types) == 43, "all module types exercised")
detached = MODULE_CLASSES["Amplifier"]()
expect(list(detached.iff_chunks()) == reference_header(detached, False), "detached default")
RESULTS["base-module"] = outcome(lambda: list(Module().iff_chunks()))
expect(RESULTS["base-module"] == "raised RuntimeError", "base Module refuses")

# 2. Module names: stored form is the longest whole-character prefix within 32 bytes.
for name in NAMES + ["ab́" * 12, "é" * 15 + "xx€", "x" * 31 + "ß" + "tail"]:
    p = Project()
    mod = p.new_module(MODULE_CLASSES["Generator"], name=name)
    snam = dict(mod.iff_chunks())[b"SNAM"]
    expect(len(snam) == 32, "SNAM is 32 bytes for %r" % name)
    expect(snam.rstrip(b"\0").decode("utf8") == stored_name(name), "SNAM text %r" % name)
    q = p.clone()
    expect(q.modules[1].name == stored_name(name), "name reloads %r" % name)
    expect(q.clone().modules[1].name == stored_name(name), "name stable %r" % name)

# 3. Lazy failures in the header: the bad field fails when reached, with struct.error.
def tags_until_error(mod, **kw):
    tags = []
    try:
        for tag, _ in mod.iff_chunks(**kw):
            tags.append(tag)
    except struct.error:
        return tags
    return None


m = MODULE_CLASSES["Amplifier"](x=2**31)
expect(tags_until_error(m, in_project=True) == [b"SFFF", b"SNAM", b"STYP", b"SFIN", b"SREL"], "bad x")
expect(tags_until_error(m, in_project=False) is None, "x unused outside a project")
m = MODULE_CLASSES["Amplifier"](y=-(2**31) - 1)
expect(tags_until_error(m, in_project=True)[-1] == b"SXXX", "bad y after SXXX")
m = MODULE_CLASSES["Amplifier"](layer=2**31)
expect(tags_until_error(m, in_project=True)[-1] == b"SYYY", "bad layer after SYYY")
m = MODULE_CLASSES["Amplifier"](midi_out_channel=-1)
expect(tags_until_error(m)[-1] == b"SMII", "SMIC is unsigned")
m = MODULE_CLASSES["Amplifier"](color=(1, 2, 256))
expect(tags_until_error(m)[-1] == b"SSCL", "bad colour")
RESULTS["short-colour"] = outcome(lambda: list(MODULE_CLASSES["Amplifier"](color=(1, 2)).iff_chunks()))

# 4. SMII packing / unpacking over the whole field.
for always in (False, True):
    for channel in (0, 1, 2, 15, 16, 17, 255, 2**30, 2**31 - 1):
        p = Project()
        mod = p.new_module(MODULE_CLASSES["Amplifier"], midi_in_always=always, midi_in_channel=channel)
        back = p.clone().modules[1]
        expect(back.midi_in_always is always, "midi_in_always %s" % always)
        expect(back.midi_in_channel == channel and type(back.midi_in_channel) is int, "channel")

# 5. Options: every option bit of every option-bearing type, both ways.
for tname, cls in sorted(MODULE_CLASSES.items()):
    if not cls.options:
        continue
    rng = Lcg(len(tname) * 7919)
    for trial in range(12):
        mod = cls()
        for oname, opt in mod.options.items():
            raw = rng.below(1 << opt.size)
            mod.option_values[oname] = bool(raw) if opt.size == 1 else raw
        if trial == 0:
            for oname, opt in mod.options.items():
                mod.option_values[oname] = (1 << opt.size) - 1 if opt.size > 1 else True
        if trial == 1:
            for oname, opt in mod.options.items():
                mod.option_values[oname] = 0 if opt.size > 1 else False
        chunks_out = list(mod.options_chunks())
        expect(chunks_out == reference_options(mod), "%s options image %d" % (tname, trial))
        RESULTS["opt-%s-%d" % (tname, trial)] = chunks_out[1][1].hex()
        fresh = cls()
        blob = Chunk()
        blob.chnm, blob.chdt = mod.options_chnm, chunks_out[1][1]
        fresh.load_options(blob)
        expect(fresh.option_values == mod.option_values, "%s options reload %d" % (tname, trial))
        expect(
            all(type(fresh.option_values[o.name]) is (bool if o.size == 1 else int) for o in cls.options.values()),
            "%s option types" % tname,
        )
        # short and over-long images
        short = cls()
        blob.chdt = chunks_out[1][1][:1]
        short.load_options(blob)
        RESULTS["optshort-%s-%d" % (tname, trial)] = repr(sorted(short.option_values.items()))
        long_ = cls()
        blob.chdt = chunks_out[1][1] + b"\xff" * 80
        long_.load_options(blob)
        expect(long_.option_values == mod.option_values, "%s long image" % tname)
    # values wider than the field are masked on write
    mod = cls()
    for oname, opt in mod.options.items():
        if opt.size > 1:
            mod.option_values[oname] = (1 << opt.size) + 1
    RESULTS["optmask-" + tname] = list(mod.options_chunks())[1][1].hex()

# 6. CMID: whole records only, in controller order.
for tname in ("Amplifier", "Generator", "FMX", "MetaModule", "DC Blocker"):
    cls = MODULE_CLASSES[tname]
    src = cls()
    set_some_midi_maps(Lcg(4711), src)
    names = list(src.controllers)
    blob = b"".join(src.controller_midi_maps[n].cmid_data for n in names)
    for cut in (0, 1, 7, 8, 9, 15, 16, len(blob) - 8, len(blob) - 1, len(blob), len(blob) + 5, len(blob) + 16):
        if cut < 0:
            continue
        data = (blob + b"\x00" * 32)[:cut] if cut > len(blob) else blob[:cut]
        dst = cls()
        dst.load_cmid(data)
        touched = list(dst.controller_midi_maps)
        expect(touched == names[: min(cut // 8, len(names))], "%s cmid touched %d" % (tname, cut))
        for n in touched:
            expect(dst.controller_midi_maps[n].cmid_data == src.controller_midi_maps[n].cmid_data, "cmid value")
RESULTS["cmid-bad"] = outcome(lambda: MODULE_CLASSES["Amplifier"]().load_cmid(b"\x63" * 8))

# 7. ModuleReader on hand-made module chunk streams.
p = Project()
gen = p.new_module(MODULE_CLASSES["Generator"], name="g")
set_some_controllers(Lcg(5), gen)
amp = p.new_module(MODULE_CLASSES["Amplifier"], name="a")
p.connect(gen, amp)
p.connect(amp, p.output)
cl = list(p.chunks())
n_gen_ctl = len(gen.controllers)


def with_cvals(values):
    """Replace the generator's CVAL chunks by the given raw values."""
    out, in_gen, done = [], False, False
    for name, data in cl:
        if name == b"STYP":
            in_gen = data == b"Generator\0"
        if name == b"CVAL" and in_gen:
            if not done:
                out.extend((b"CVAL", pack("<i", v)) for v in values)
                done = True
            continue
        out.append((name, data))
    return out


base_vals = [gen.get_raw(n) for n in gen.controllers]
for label, values in [
    ("exact", base_vals),
    ("fewer", base_vals[:3]),
    ("none", []),
    ("one", [5]),
    ("extra1", base_vals + [7]),
    ("extra3", base_vals + [7, 8, 9]),
    ("changed", [v + 1 if i == 0 else v for i, v in enumerate(base_vals)]),
]:
    RESULTS["cvals-" + label] = outcome(lambda: snap_module(load(with_cvals(values)).modules[1]))
q = load(with_cvals(base_vals[:3]))
expect(list(q.modules[1].controller_values)[:3] == list(gen.controllers)[:3], "cval order")
for tag, bad in [(b"CVAL", b"\1\2"), (b"SFIN", b""), (b"SCOL", b"\1\2"), (b"SCOL", b"\1\2\3\4"),
                 (b"SMII", b"\1"), (b"SSCL", b"12345")]:
    try:
        load(replace(cl, tag, bad))
        expect(False, "bad %r accepted" % tag)
    except struct.error:
        pass
pc = build_project(999, every_type=True)
clc = list(pc.chunks())
for tag in (b"CHNK", b"CHNM"):
    expect(tag in dict(clc), "some module writes %r" % tag)
    try:
        load(replace(clc, tag, b"\1\2\3"))
        expect(False, "bad %r accepted" % tag)
    except struct.error:
        pass
first_chdt = [n for n, _ in clc].index(b"CHDT")
for tag in (b"CHFF", b"CHFR"):
    good = clc[: first_chdt + 1] + [(tag, pack("<I", 22050))] + clc[first_chdt + 1 :]
    expect(snap_project(load(good)) == snap_project(load(clc)), "%r tolerated" % tag)
    bad = clc[: first_chdt + 1] + [(tag, b"\1\2\3")] + clc[first_chdt + 1 :]
    try:
        load(bad)
        expect(False, "bad %r accepted" % tag)
    except struct.error:
        pass
RESULTS["bad-type"] = outcome(lambda: load(replace(cl, b"STYP", b"No such module\0")))
RESULTS["type-no-nul"] = outcome(lambda: snap_module(load(replace(cl, b"STYP", b"Generator")).modules[1]))
RESULTS["name-no-nul"] = outcome(lambda: load(replace(cl, b"SNAM", b"exactly-32-bytes-of-module-name!", 1)).modules[1].name)
RESULTS["name-nul-mid"] = outcome(lambda: load(replace(cl, b"SNAM", b"ab\0cd".ljust(32, b"\0"), 1)).modules[1].name)
RESULTS["name-bad-utf8"] = outcome(lambda: load(replace(cl, b"SNAM", b"\xff".ljust(32, b"\0"), 1)))
RESULTS["smin"] = outcome(
    lambda: [m.midi_out_name for m in load(
        [c for pair in (( (n, d), (b"SMIN", b"dev\0ice\0")) if n == b"SMII" else ((n, d),) for n, d in cl) for c in pair]
    ).modules]
)
# link tables: repeated chunks accumulate, trailing -1 entries go away, empty is a no-op
def links_case(*link_chunks):
    out = []
    for name, data in cl:
        if name in (b"SLNK", b"SLnK") and not links_case.done:
            out.extend(link_chunks)
            links_case.done = True
            continue
        out.append((name, data))
    links_case.done = False
    return out


links_case.done = False
for label, chunks_in in [
    ("plain", [(b"SLNK", pack("<1i", 2))]),
    ("trail", [(b"SLNK", pack("<4i", 2, -1, -1, -1))]),
    ("only-gaps", [(b"SLNK", pack("<2i", -1, -1))]),
    ("mid-gap", [(b"SLNK", pack("<3i", -1, 2, -1))]),
    ("twice", [(b"SLNK", pack("<2i", 2, -1)), (b"SLNK", pack("<2i", -1, 1))]),
    ("twice-trim", [(b"SLNK", pack("<2i", 2, 1)), (b"SLNK", pack("<2i", -1, -1))]),
    ("empty", [(b"SLNK", b"")]),
    ("slots", [(b"SLNK", pack("<2i", 2, 1)), (b"SLnK", pack("<3i", 0, 1, -1))]),
    ("slots-empty", [(b"SLNK", pack("<1i", 2)), (b"SLnK", b"")]),
    ("ragged", [(b"SLNK", b"\2\0\0\0\1")]),
]:
    def run():
        proj = load(links_case(*chunks_in))
        return [(m.in_links, m.in_link_slots, m.out_links, m.out_link_slots) for m in proj.modules]
    RESULTS["links-" + label] = outcome(run)
# reader state is per module: direct use of ModuleReader
stream = BytesIO(serialize(list(gen.iff_chunks()) + [(b"CVAL", pack("<i", 3)), (b"SEND", b"")]))
reader = ModuleReader(stream, index=5)
mod5 = reader.object
expect(type(mod5).__name__ == "Generator" and reader.object is mod5, "direct ModuleReader")
expect(mod5.controller_values[list(mod5.controllers)[0]] == 3, "direct CVAL applied")

# 8. Pattern cells.
for tracks, lines in [(1, 1), (1, 7), (5, 1), (4, 32), (32, 3), (7, 11)]:
    rng = Lcg(tracks * 1000 + lines)
    pat = Pattern(tracks=tracks, lines=lines)
    expect(len(pat.data) == lines and all(len(row) == tracks for row in pat.data), "grid shape")
    expect(len({id(n) for row in pat.data for n in row}) == tracks * lines, "distinct cells")
    expect(all(n.pattern is pat for row in pat.data for n in row), "cells know their pattern")
    expect(pat.raw_data == bytes(8 * tracks * lines), "blank pattern is zeros")
    cells = [
        (rng.pick([0, 1, 120, 128, 140]), rng.below(130), rng.below(0x10000), rng.below(0x10000), rng.below(0x10000))
        for _ in range(tracks * lines)
    ]
    raw = b"".join(pack("<BBHHH", *c) for c in cells)
    pat.raw_data = raw
    expect(pat.raw_data == raw, "raw_data round trip %dx%d" % (tracks, lines))
    got = [(int(n.note), n.vel, n.module, n.ctl, n.val) for row in pat.data for n in row]
    expect(got == cells, "row-major cell order %dx%d" % (tracks, lines))
    pat.raw_data = raw + b"extra bytes are ignored"
    expect(pat.raw_data == raw, "extra bytes ignored")
    # too short: cells before the cut are updated, then struct.error
    pat2 = Pattern(tracks=tracks, lines=lines)
    cut = (tracks * lines // 2) * 8 + 3
    try:
        pat2.raw_data = raw[:cut]
        expect(False, "short data accepted")
    except struct.error:
        pass
    got2 = [(int(n.note), n.vel, n.module, n.ctl, n.val) for row in pat2.data for n in row]
    k = tracks * lines // 2
    expect(got2 == cells[:k] + [(0, 0, 0, 0, 0)] * (tracks * lines - k), "partial update")
    pat.clear()
    expect(pat.raw_data == bytes(8 * tracks * lines), "clear")
    proj = Project()
    pat.raw_data = raw
    pat.name = "pätt\0ern" if tracks == 4 else ("p" * tracks)
    proj.attach_pattern(pat)
    back = proj.clone().patterns[0]
    expect(back.raw_data == raw and (back.tracks, back.lines) == (tracks, lines), "pattern file rt")
    expect(back.name == pat.name.split("\0")[0], "pattern name")

# 9. write_chunk framing.
def framed(name, data):
    buf = BytesIO()
    write_chunk(buf, name, data)
    return buf.getvalue()


expect(framed(b"ABCD", b"xyz") == b"ABCD\x03\0\0\0xyz", "plain chunk")
expect(framed(b"AB", b"") == b"AB  \0\0\0\0", "short name padded with spaces")
expect(framed(b"", b"1") == b"    \x01\0\0\0" + b"1", "empty name")
expect(framed(b"ABCDEFG", b"12") == b"ABCD\x02\0\0\0" + b"12", "long name cut")
expect(framed(None, b"ignored") == b"", "None name is a no-op")
expect(framed(None, None) == b"", "None pair is a no-op")
expect(framed(bytearray(b"AB"), bytearray(b"12")) == b"AB  \x02\0\0\0" + b"12", "bytearray")
big = bytes(range(256)) * 300
expect(framed(b"CHDT", big) == b"CHDT" + pack("<I", len(big)) + big, "large chunk")
expect(list(iff_chunks(BytesIO(framed(b"BPM", b"\1\0\0\0")))) == [(b"BPM ", b"\1\0\0\0")], "readable")
for bad_name, bad_data in [(b"ABCD", None), ("AB", b""), ("ABCD", b""), (b"ABCD", 5)]:
    buf = BytesIO()
    try:
        write_chunk(buf, bad_name, bad_data)
        expect(False, "bad chunk accepted")
    except TypeError:
        pass
    expect(buf.getvalue() == b"", "nothing written for bad chunk")
buf = BytesIO()
try:
    write_chunk(buf, b"ABCD", "text")
    expect(False, "str data accepted")
except TypeError:
    pass
expect(buf.getvalue() == b"ABCD\x04\0\0\0", "header precedes the failing data write")

DIGESTS = {k: (v if v.startswith("raised ") or len(v) <= 64 else digest(v.encode("utf8"))) for k, v in RESULTS.items()}
EXPECTED_DIGESTS = {'bad-type': 'raised KeyError',
 'base-module': 'raised RuntimeError',
 'cmid-bad': 'raised ValueError',
 'cvals-changed': 'ed1f8db63e69e15d0aa418bcd6a431e71830519dbda70bf2f10b26b0118e4297',
 'cvals-exact': '0959e92f25744b3a8255c616c588f879e1dd9d882ff98286f5119a646cce233e',
 'cvals-extra1': '0959e92f25744b3a8255c616c588f879e1dd9d882ff98286f5119a646cce233e',
 'cvals-extra3': '0959e92f25744b3a8255c616c588f879e1dd9d882ff98286f5119a646cce233e',
 'cvals-fewer': '8e56fbb53fa906c84887c22135342ae40a13b492e55afc5e7300cfd8b15e89d8',
 'cvals-none': '2d27d3120192a3b8d5c755b3ff6de5cf06466aa68c24d40530e0d1d80b30d2dd',
 'cvals-one': '56ec82053f4ff8ed8d07b01a9b6cf26bce274931fcdb8e46a2aa7d2cc8bb8a4f',
 'links-empty': '[([], [], [], []), ([], [], [2], [0]), ([1], [0], [], [])]',
 'links-mid-gap': '2c0ff754bf5ea773e1685751e3be75168378d859acc442b8f60632f94e404651',
 'links-only-gaps': '[([], [], [], []), ([], [], [2], [0]), ([1], [0], [], [])]',
 'links-plain': '[([2], [0], [], []), ([], [], [2], [0]), ([1], [0], [0], [0])]',
 'links-ragged': 'raised error',
 'links-slots': '5c554d0d8b5c6a430e5500262d8eac99ed5727f82fcefb6fa5dfb2bc8159bdeb',
 'links-slots-empty': '[([2], [0], [], []), ([], [], [2], [0]), ([1], [0], [0], [0])]',
 'links-trail': '[([2], [0], [], []), ([], [], [2], [0]), ([1], [0], [0], [0])]',
 'links-twice': '000626c57900b34b1b091ece047e922ae51f781b1c3c9a0df3ac2cf4a20c0bca',
 'links-twice-trim': '5c554d0d8b5c6a430e5500262d8eac99ed5727f82fcefb6fa5dfb2bc8159bdeb',
 'name-bad-utf8': 'raised UnicodeDecodeError',
 'name-no-nul': "'exactly-32-bytes-of-module-name!'",
 'name-nul-mid': "'ab'",
 'opt-Analog generator-0': '0101010101010101010101010101',
 'opt-Analog generator-1': '0000000000000000000000000000',
 'opt-Analog generator-10': '0100000000000101000100010000',
 'opt-Analog generator-11': '0000010100000000010001000000',
 'opt-Analog generator-2': '0101010101010001010100010101',
 'opt-Analog generator-3': '0100010001010001000101010101',
 'opt-Analog generator-4': '0001010100010101000001000001',
 'opt-Analog generator-5': '0101010101010000010001010000',
 'opt-Analog generator-6': '0101000001010100010001000101',
 'opt-Analog generator-7': '0101010000000000000101010100',
 'opt-Analog generator-8': '0101010001010100000101000100',
 'opt-Analog generator-9': '0101010001010100000001000101',
 'opt-MetaModule-0': 'ff0101011f010101',
 'opt-MetaModule-1': '0000000000000000',
 'opt-MetaModule-10': '890100011a000001',
 'opt-MetaModule-11': 'f50001001c000000',
 'opt-MetaModule-2': '4401010018010001',
 'opt-MetaModule-3': '7600000116010000',
 'opt-MetaModule-4': '0e01010102000100',
 'opt-MetaModule-5': 'e60000000d000000',
 'opt-MetaModule-6': '1c00000002010000',
 'opt-MetaModule-7': '0c00000119010100',
 'opt-MetaModule-8': '500000001a000101',
 'opt-MetaModule-9': 'c600000008010100',
 'opt-MultiSynth-0': '01010301ef010101',
 'opt-MultiSynth-1': '0000000000000000',
 'opt-MultiSynth-10': '0001020104000101',
 'opt-MultiSynth-11': '01000101c0000001',
 'opt-MultiSynth-2': '01010000c0010001',
 'opt-MultiSynth-3': '0101030046000100',
 'opt-MultiSynth-4': '0000020005000100',
 'opt-MultiSynth-5': '00000001a5000000',
 'opt-MultiSynth-6': '0000000104000000',
 'opt-MultiSynth-7': '000003010d000101',
 'opt-MultiSynth-8': '010001008a000100',
 'opt-MultiSynth-9': '0101000146000000',
 'opt-Sampler-0': '01010101010101ff',
 'opt-Sampler-1': '0000000000000000',
 'opt-Sampler-10': '01000101000001ce',
 'opt-Sampler-11': '000100000100000b',
 'opt-Sampler-2': '00010101010000a1',
 'opt-Sampler-3': '0001000001000035',
 'opt-Sampler-4': '000101000001004e',
 'opt-Sampler-5': '010000000001008d',
 'opt-Sampler-6': '0101010001000090',
 'opt-Sampler-7': '00000001000000f8',
 'opt-Sampler-8': '0000010001010165',
 'opt-Sampler-9': '0100000101010077',
 'opt-Sound2Ctl-0': '0101',
 'opt-Sound2Ctl-1': '0000',
 'opt-Sound2Ctl-10': '0000',
 'opt-Sound2Ctl-11': '0000',
 'opt-Sound2Ctl-2': '0000',
 'opt-Sound2Ctl-3': '0100',
 'opt-Sound2Ctl-4': '0100',
 'opt-Sound2Ctl-5': '0001',
 'opt-Sound2Ctl-6': '0101',
 'opt-Sound2Ctl-7': '0100',
 'opt-Sound2Ctl-8': '0101',
 'opt-Sound2Ctl-9': '0001',
 'optmask-Analog generator': '0000000000000000000000000000',
 'optmask-MetaModule': '0100000000000000',
 'optmask-MultiSynth': '0000010040000000',
 'optmask-Sampler': '0000000000000001',
 'optmask-Sound2Ctl': '0001',
 'optshort-Analog generator-0': 'd306684957456a75e0e4ddf0128cc27ef35a58ca160b78a6d84636734906d50d',
 'optshort-Analog generator-1': '0552cec7fe4b12efa71b154f17ddac0cc88d470bb9faa862ce4458489b317c01',
 'optshort-Analog generator-10': 'd306684957456a75e0e4ddf0128cc27ef35a58ca160b78a6d84636734906d50d',
 'optshort-Analog generator-11': '0552cec7fe4b12efa71b154f17ddac0cc88d470bb9faa862ce4458489b317c01',
 'optshort-Analog generator-2': 'd306684957456a75e0e4ddf0128cc27ef35a58ca160b78a6d84636734906d50d',
 'optshort-Analog generator-3': 'd306684957456a75e0e4ddf0128cc27ef35a58ca160b78a6d84636734906d50d',
 'optshort-Analog generator-4': '0552cec7fe4b12efa71b154f17ddac0cc88d470bb9faa862ce4458489b317c01',
 'optshort-Analog generator-5': 'd306684957456a75e0e4ddf0128cc27ef35a58ca160b78a6d84636734906d50d',
 'optshort-Analog generator-6': 'd306684957456a75e0e4ddf0128cc27ef35a58ca160b78a6d84636734906d50d',
 'optshort-Analog generator-7': 'd306684957456a75e0e4ddf0128cc27ef35a58ca160b78a6d84636734906d50d',
 'optshort-Analog generator-8': 'd306684957456a75e0e4ddf0128cc27ef35a58ca160b78a6d84636734906d50d',
 'optshort-Analog generator-9': 'd306684957456a75e0e4ddf0128cc27ef35a58ca160b78a6d84636734906d50d',
 'optshort-MetaModule-0': 'b0b047120c3c0b547ebb3663ffad5aeb5c74e0665632e3df90273a1029666601',
 'optshort-MetaModule-1': 'd919f8238351ab856f3f9ce9b568fda630f66ba191729dd4e9655950d8dac28f',
 'optshort-MetaModule-10': '7d32a286543bd0374f62a314249b57277e2043f79f48d4ecef1b974425681c98',
 'optshort-MetaModule-11': 'bd51f9e64d29f4d45936c8eb778550467edbf811c32f27afb96049f90f2f589e',
 'optshort-MetaModule-2': 'a599af5f9409dfd7ee2cc8d48eb374c69aec25361b86bf4c5b36e72a60b5e261',
 'optshort-MetaModule-3': 'f90c0b03e800c907c5d432f4afafdb0b9ecb0a5058849b6381a1a6d6901b50cd',
 'optshort-MetaModule-4': '3f855ca2c5ecbabf6758fb9276f38d314fab248d8c39a0ba11c173c13925a27d',
 'optshort-MetaModule-5': '850ae8972a2b2bf811ecbea9a8fc582f6578fa1e8ac893672cee2a9d4d40f7f1',
 'optshort-MetaModule-6': 'a66dbfa0594893e1707280272a3f3db67884e4150456ef3d20f337e1ab6001c6',
 'optshort-MetaModule-7': '1a553821f3f25368ca630bf469db04a414ac552577803044de0206a038f11f86',
 'optshort-MetaModule-8': '656ad10d58c45323243654bd6083128f5c60492c4dbc1ecd2c033de3460f08b3',
 'optshort-MetaModule-9': '6753723624b004b962d1ff182acf4f2df9512592a8c56d95f1d729151cd01ba7',
 'optshort-MultiSynth-0': 'ba0d5b0456483d8489448cadd0852a795f5576d2a4cff69846df13dbed97aa8e',
 'optshort-MultiSynth-1': '01d8a68eceadc06f87c892b4bce543fcf209c62282086aeee6c5d80b31fd8951',
 'optshort-MultiSynth-10': '01d8a68eceadc06f87c892b4bce543fcf209c62282086aeee6c5d80b31fd8951',
 'optshort-MultiSynth-11': 'ba0d5b0456483d8489448cadd0852a795f5576d2a4cff69846df13dbed97aa8e',
 'optshort-MultiSynth-2': 'ba0d5b0456483d8489448cadd0852a795f5576d2a4cff69846df13dbed97aa8e',
 'optshort-MultiSynth-3': 'ba0d5b0456483d8489448cadd0852a795f5576d2a4cff69846df13dbed97aa8e',
 'optshort-MultiSynth-4': '01d8a68eceadc06f87c892b4bce543fcf209c62282086aeee6c5d80b31fd8951',
 'optshort-MultiSynth-5': '01d8a68eceadc06f87c892b4bce543fcf209c62282086aeee6c5d80b31fd8951',
 'optshort-MultiSynth-6': '01d8a68eceadc06f87c892b4bce543fcf209c62282086aeee6c5d80b31fd8951',
 'optshort-MultiSynth-7': '01d8a68eceadc06f87c892b4bce543fcf209c62282086aeee6c5d80b31fd8951',
 'optshort-MultiSynth-8': 'ba0d5b0456483d8489448cadd0852a795f5576d2a4cff69846df13dbed97aa8e',
 'optshort-MultiSynth-9': 'ba0d5b0456483d8489448cadd0852a795f5576d2a4cff69846df13dbed97aa8e',
 'optshort-Sampler-0': '957991ba7a53a53e75fcc0c95797b1fa5e4e03d1b84b81d70ff64717dfdc359c',
 'optshort-Sampler-1': '159c1648bb68f1ae89486c7526b1251b658e607b8291846eba405464e13c740d',
 'optshort-Sampler-10': '957991ba7a53a53e75fcc0c95797b1fa5e4e03d1b84b81d70ff64717dfdc359c',
 'optshort-Sampler-11': '159c1648bb68f1ae89486c7526b1251b658e607b8291846eba405464e13c740d',
 'optshort-Sampler-2': '159c1648bb68f1ae89486c7526b1251b658e607b8291846eba405464e13c740d',
 'optshort-Sampler-3': '159c1648bb68f1ae89486c7526b1251b658e607b8291846eba405464e13c740d',
 'optshort-Sampler-4': '159c1648bb68f1ae89486c7526b1251b658e607b8291846eba405464e13c740d',
 'optshort-Sampler-5': '957991ba7a53a53e75fcc0c95797b1fa5e4e03d1b84b81d70ff64717dfdc359c',
 'optshort-Sampler-6': '957991ba7a53a53e75fcc0c95797b1fa5e4e03d1b84b81d70ff64717dfdc359c',
 'optshort-Sampler-7': '159c1648bb68f1ae89486c7526b1251b658e607b8291846eba405464e13c740d',
 'optshort-Sampler-8': '159c1648bb68f1ae89486c7526b1251b658e607b8291846eba405464e13c740d',
 'optshort-Sampler-9': '957991ba7a53a53e75fcc0c95797b1fa5e4e03d1b84b81d70ff64717dfdc359c',
 'optshort-Sound2Ctl-0': "[('record_values', True), ('send_only_changed_values', "
                         'False)]',
 'optshort-Sound2Ctl-1': "[('record_values', False), ('send_only_changed_values', "
                         'False)]',
 'optshort-Sound2Ctl-10': "[('record_values', False), ('send_only_changed_values', "
                          'False)]',
 'optshort-Sound2Ctl-11': "[('record_values', False), ('send_only_changed_values', "
                          'False)]',
 'optshort-Sound2Ctl-2': "[('record_values', False), ('send_only_changed_values', "
                         'False)]',
 'optshort-Sound2Ctl-3': "[('record_values', True), ('send_only_changed_values', "
                         'False)]',
 'optshort-Sound2Ctl-4': "[('record_values', True), ('send_only_changed_values', "
                         'False)]',
 'optshort-Sound2Ctl-5': "[('record_values', False), ('send_only_changed_values', "
                         'False)]',
 'optshort-Sound2Ctl-6': "[('record_values', True), ('send_only_changed_values', "
                         'False)]',
 'optshort-Sound2Ctl-7': "[('record_values', True), ('send_only_changed_values', "
                         'False)]',
 'optshort-Sound2Ctl-8': "[('record_values', True), ('send_only_changed_values', "
                         'False)]',
 'optshort-Sound2Ctl-9': "[('record_values', False), ('send_only_changed_values', "
                         'False)]',
 'proj0': 'b269110cef6a5a82191f49b2f6a797c44ff0acbc3a7b259f5b55423bbe6ef55f',
 'proj1': '35911673eec8b7c688d9b13fecff3e4893f021d51bb31b274f12e3d2c9c1e52e',
 'proj2': '0aaf7ceb6b05fee87a7193141ada611b0dd41a1025ff23e94f5eeef066304e1d',
 'proj3': '1e5eb81e48a56f3834379f9ff42cdc2520817ed9d62e7fb45add092c027cbc54',
 'proj4': 'f155afc7e8b8cb7671e16d8f47dd118733900508604f059501f0a3431d8db659',
 'proj5': '7c810b8a54286f3a2fdbb38c09a087f35166c292c9bbd73e2153a57fca4de41d',
 'short-colour': 'raised error',
 'smin': "['dev', 'dev', 'dev']",
 'type-no-nul': '0959e92f25744b3a8255c616c588f879e1dd9d882ff98286f5119a646cce233e'}
if "--print-digests" in sys.argv:
    print(DIGESTS)
else:
    for key in sorted(set(DIGESTS) | set(EXPECTED_DIGESTS)):
        expect(DIGESTS.get(key) == EXPECTED_DIGESTS.get(key), "recorded outcome: " + key)

finish()
