"""Behaviour check for the raw (stored) encoding of controller ranges.

Exercises Range / WarnOnlyRange / CompactRange / NoOffsetRange
to_raw_value / from_raw_value / validate directly, and through
Module.get_raw / Module.set_raw for every controller of every module type.

Run as:  cd <root> && PYTHONPATH=<root>/src/python python check.py
"""
import logging
import sys
from enum import Enum

from rv import errors
from rv.controller import (
    CompactRange,
    Controller,
    DependentRange,
    NoOffsetRange,
    Range,
    WarnOnlyRange,
)
from rv.errors import (
    ControllerValueError,
    RangeValidationError,
    override_raise_controller_value_errors,
)
from rv.modules import MODULE_CLASSES

failures = []
checked = 0


def check(cond, msg):
    global checked
    checked += 1
    if not cond:
        failures.append(msg)


def same(a, b):
    """Equal in value AND in type (True is not 1 here)."""
    return type(a) is type(b) and a == b


class Capture(logging.Handler):
    def __init__(self):
        super().__init__()
        self.records = []

    def emit(self, record):
        self.records.append(record)


capture = Capture()
logging.getLogger("rv").addHandler(capture)
logging.getLogger("rv").setLevel(logging.DEBUG)
logging.getLogger("rv").propagate = False


def expected_raw(t, v):
    if type(t) is NoOffsetRange:
        return v
    if t.min < 0:
        return v - t.min
    return v


def sample_values(t):
    lo, hi = t.min, t.max
    span = hi - lo
    if span <= 4096:
        return range(lo, hi + 1)
    vals = set(range(lo, hi + 1, 53))
    vals.update((lo, lo + 1, lo + 2, hi - 2, hi - 1, hi, (lo + hi) // 2, 0, 1, -1))
    return sorted(v for v in vals if lo <= v <= hi)


# ---------------------------------------------------------------- direct use

KINDS = (Range, WarnOnlyRange, CompactRange, NoOffsetRange)
BOUNDS = [(-5, 5), (0, 10), (3, 9), (-128, 128), (-1, 0), (-32768, 32767), (1, 1), (0, 0)]

for kind in KINDS:
    for lo, hi in BOUNDS:
        t = kind(lo, hi)
        check(repr(t) == f"<{kind.__name__} {lo}..{hi}>", f"repr {t!r}")
        check(t == kind(lo, hi), f"eq {t!r}")
        for other in KINDS:
            if other is not kind:
                check(t != other(lo, hi), f"ne {t!r} {other}")
        raws = set()
        for v in range(lo, hi + 1) if hi - lo < 1000 else sample_values(t):
            raw = t.to_raw_value(v)
            check(same(raw, expected_raw(t, v)), f"{t!r}.to_raw_value({v}) = {raw!r}")
            check(same(t.from_raw_value(raw), v), f"{t!r} roundtrip {v}")
            if kind is not NoOffsetRange:
                check(raw >= 0 or lo >= 0, f"{t!r} negative raw {raw}")
            raws.add(raw)
            check(t(v) is v, f"{t!r}({v}) passes value through")
        if kind is not NoOffsetRange and lo < 0:
            check(t.to_raw_value(lo) == 0, f"{t!r} min -> 0")
            check(t.from_raw_value(0) == lo, f"{t!r} 0 -> min")

# types are preserved exactly when nothing is shifted
check(Range(0, 1).to_raw_value(True) is True, "bool passthrough to_raw")
check(Range(0, 1).from_raw_value(False) is False, "bool passthrough from_raw")
check(NoOffsetRange(-1, 1).to_raw_value(True) is True, "bool passthrough nooffset")
check(same(Range(-1, 1).to_raw_value(True), 2), "bool shifted")
check(same(Range(-1, 1).from_raw_value(True), 0), "bool shifted back")
check(same(Range(-2, 2).to_raw_value(0.5), 2.5), "float shifted")
check(same(Range(0, 2).to_raw_value(0.5), 0.5), "float unshifted")
check(same(NoOffsetRange(-2, 2).from_raw_value(-1.5), -1.5), "float nooffset")
# values beyond the range are still converted (validation is separate)
check(same(Range(-10, 10).to_raw_value(-11), -1), "below min to_raw")
check(same(Range(-10, 10).from_raw_value(100), 90), "above max from_raw")
check(same(NoOffsetRange(-10, 10).from_raw_value(-11), -11), "nooffset below")
# NoOffsetRange never inspects min
check(NoOffsetRange(None, None).to_raw_value(7) == 7, "nooffset ignores min")
check(NoOffsetRange(None, None).from_raw_value(-7) == -7, "nooffset ignores min")

# validate / __call__
for kind in (Range, CompactRange, NoOffsetRange):
    t = kind(-3, 4)
    for bad in (-4, 5, 1000, -1000, 4.5):
        try:
            t(bad)
        except RangeValidationError as e:
            check(e.args == (bad, -3, 4), f"{t!r} error args {e.args}")
        else:
            check(False, f"{t!r}({bad}) did not raise")
    for good in (-3, 4, 0, 3.5):
        check(t(good) == good, f"{t!r}({good})")
    nan = float("nan")
    check(t(nan) is nan, f"{t!r}(nan) is not rejected")

del capture.records[:]
w = WarnOnlyRange(1, 10)
check(w(11) == 11 and w(0) == 0 and w.validate(99) is None, "warn-only passes")
check(len(capture.records) == 3, f"warn-only logged {len(capture.records)}")
check(
    all(r.levelno == logging.WARNING and r.name == "rv.controller" for r in capture.records),
    "warn-only level/logger",
)
check(
    [r.getMessage() for r in capture.records]
    == [str(RangeValidationError(v, 1, 10)) for v in (11, 0, 99)],
    "warn-only messages",
)
del capture.records[:]
check(w(1) == 1 and w(10) == 10 and not capture.records, "warn-only in range silent")

# Controller wraps tuples in a plain Range
c = Controller((-7, 7), 0)
check(type(c.value_type) is Range and c.value_type == Range(-7, 7), "tuple -> Range")

# ---------------------------------------------------------- through modules


def assign(mod, name, value):
    """Validated assignment, without MetaModule's propagation to embedded modules."""
    mod.controllers[name].controller(mod).set_initial(mod, value)


def variants(mod, ctl):
    vt = ctl.value_type
    if isinstance(vt, DependentRange):
        for unit in vt.range_map:
            setattr(mod, vt.ctl_name, unit)
            check(ctl.instance_value_type(mod) is vt.range_map[unit], "dependent pick")
            yield ctl.instance_value_type(mod)
    else:
        yield ctl.instance_value_type(mod)


for mtype, cls in sorted(MODULE_CLASSES.items()):
    mod = cls()
    for name, ctl in cls.controllers.items():
        for t in variants(mod, ctl):
            where = f"{mtype}.{name} {t!r}"
            if isinstance(t, Range):
                seen = {}
                for v in sample_values(t):
                    assign(mod, name, v)
                    raw = mod.get_raw(name)
                    check(same(raw, expected_raw(t, v)), f"{where} get_raw({v}) = {raw!r}")
                    check(raw not in seen, f"{where} collision at raw {raw}")
                    seen[raw] = v
                    mod.controller_values[name] = None
                    mod.set_raw(name, raw)
                    check(same(getattr(mod, name), v), f"{where} set_raw({raw}) -> {getattr(mod, name)!r}")
                # one past each end
                for raw_bad in (expected_raw(t, t.max) + 1, expected_raw(t, t.min) - 1):
                    val_bad = raw_bad + t.min if (t.min < 0 and type(t) is not NoOffsetRange) else raw_bad
                    mod.controller_values[name] = "sentinel"
                    del capture.records[:]
                    if isinstance(t, WarnOnlyRange):
                        mod.set_raw(name, raw_bad)
                        check(same(getattr(mod, name), val_bad), f"{where} warn-only stores {val_bad}")
                        check(len(capture.records) == 1, f"{where} warn-only logs once")
                        continue
                    try:
                        mod.set_raw(name, raw_bad)
                    except ControllerValueError as e:
                        msg = "{:x}({}).{}={} is not within [{}, {}]".format(
                            0, mod.mtype, name, val_bad, t.min, t.max
                        )
                        check(e.args == (msg,), f"{where} error message {e.args}")
                        check(isinstance(e.__cause__, RangeValidationError), f"{where} cause")
                        check(e.__cause__.args == (val_bad, t.min, t.max), f"{where} cause args")
                        check(mod.controller_values[name] == "sentinel", f"{where} untouched on error")
                    else:
                        check(False, f"{where} set_raw({raw_bad}) did not raise")
                    with override_raise_controller_value_errors(False):
                        mod.set_raw(name, raw_bad)
                    check(same(getattr(mod, name), val_bad), f"{where} lenient stores {val_bad}")
                    check(len(capture.records) == 1, f"{where} lenient logs once")
                assign(mod, name, ctl.default)
            elif isinstance(t, type) and issubclass(t, Enum):
                for member in t:
                    assign(mod, name, member)
                    check(same(mod.get_raw(name), member.value), f"{where} get_raw {member}")
                    mod.controller_values[name] = None
                    mod.set_raw(name, member.value)
                    check(getattr(mod, name) is member, f"{where} set_raw {member}")
                mod.controller_values[name] = None
                check(mod.get_raw(name) == 0, f"{where} None -> 0")
                assign(mod, name, ctl.default)
            elif t is bool:
                for b in (False, True):
                    assign(mod, name, b)
                    check(same(mod.get_raw(name), int(b)), f"{where} get_raw {b}")
                    mod.set_raw(name, int(b))
                    check(getattr(mod, name) is b, f"{where} set_raw {b}")
                mod.set_raw(name, 7)
                check(getattr(mod, name) is True, f"{where} set_raw 7 -> True")
                assign(mod, name, ctl.default)
            else:
                check(False, f"{where}: unexpected value type")

check(errors.RAISE_CONTROLLER_VALUE_ERRORS is True, "flag restored")

if failures:
    print(f"FAIL: {len(failures)} of {checked} checks")
    for f in failures[:40]:
        print("  ", f)
    sys.exit(1)
print(f"PASS ({checked} checks)")
