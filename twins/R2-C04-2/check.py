import hashlib
import io
import logging
import os
import struct
import sys

from rv.api import read_sunvox_file

ROOT = os.getcwd()
FIXTURES = os.path.join(ROOT, "tests", "files")

FAILURES = []

# keep un-captured library warnings off stderr
logging.getLogger("rv").addHandler(logging.NullHandler())


def check(cond, msg):
    if not cond:
        FAILURES.append(msg)
        print("FAIL:", msg)


def fixture_paths():
    out = []
    for dirpath, _, names in os.walk(FIXTURES):
        for n in names:
            if n.endswith(".sunvox") or n.endswith(".sunsynth"):
                out.append(os.path.join(dirpath, n))
    return sorted(out)


# ---- independent chunk codec (does not use rv) ----
def enc(name, data=b""):
    name = name if isinstance(name, bytes) else name.encode("ascii")
    name = name.ljust(4, b" ")
    return name + struct.pack("<I", len(data)) + data


def u32(v):
    return struct.pack("<I", v)


def i32(v):
    return struct.pack("<i", v)


def split_chunks(blob):
    pos = 0
    out = []
    while pos + 8 <= len(blob):
        name = blob[pos : pos + 4]
        (size,) = struct.unpack("<I", blob[pos + 4 : pos + 8])
        out.append((name, blob[pos + 8 : pos + 8 + size]))
        pos += 8 + size
    return out


def join_chunks(chs):
    return b"".join(enc(n, d) for n, d in chs)


# ---- snapshot of public state ----
def snap_module(m):
    if m is None:
        return None
    d = {
        "cls": type(m).__name__,
        "mtype": getattr(m, "mtype", None),
        "index": m.index,
        "name": m.name,
        "flags": m.flags,
        "fin": m.mod_finetune,
        "rel": m.mod_relative_note,
        "xy": (m.x, m.y, m.layer),
        "scale": m.mod_scale,
        "vis": int(m.visualization),
        "color": tuple(m.color),
        "midi": (
            m.midi_in_always,
            m.midi_in_channel,
            m.midi_out_name,
            m.midi_out_channel,
            m.midi_out_bank,
            m.midi_out_program,
        ),
        "in": (list(m.in_links), list(m.in_link_slots)),
        "out": (list(m.out_links), list(m.out_link_slots)),
        "cv": sorted((k, repr(v)) for k, v in m.controller_values.items()),
        "loaded": sorted(m.controllers_loaded),
        "opts": sorted((k, repr(v)) for k, v in m.option_values.items()),
        "cmid": sorted(
            (k, bytes(v.cmid_data)) for k, v in m.controller_midi_maps.items()
        ),
        "chnk": getattr(m, "_reader_chnk", None),
    }
    proj = getattr(m, "project", None)
    if type(m).__name__ == "MetaModule" and proj is not None:
        d["inner"] = snap_project(proj)
    return d


def snap_pattern(p):
    if p is None:
        return None
    if type(p).__name__ == "PatternClone":
        return ("clone", p.source, p.flags_PFFF, p.x, p.y)
    return (
        "pattern",
        p.name,
        p.tracks,
        p.lines,
        p.y_size,
        p.flags_PFLG,
        bytes(p.icon),
        tuple(p.fg_color),
        tuple(p.bg_color),
        p.flags_PFFF,
        p.x,
        p.y,
        bytes(p.raw_data),
        [[n.module for n in line] for line in p.data],
    )


PROJECT_FIELDS = [
    "loaded_sunvox_version",
    "based_on_version",
    "flags",
    "receive_sync_midi",
    "receive_sync_other",
    "initial_bpm",
    "initial_tpl",
    "time_grid",
    "time_grid2",
    "global_volume",
    "name",
    "modules_scale",
    "modules_zoom",
    "modules_x_offset",
    "modules_y_offset",
    "modules_layer_mask",
    "modules_current_layer",
    "timeline_position",
    "restart_position",
    "selected_module",
    "selected_generator",
    "current_pattern",
    "current_track",
    "current_line",
]


def snap_project(p):
    d = {f: repr(getattr(p, f)) for f in PROJECT_FIELDS}
    d["modules"] = [snap_module(m) for m in p.modules]
    d["patterns"] = [snap_pattern(x) for x in p.patterns]
    d["output_is_0"] = bool(p.modules) and p.output is p.modules[0]
    return d


def snap(obj):
    if obj is None:
        return None
    if type(obj).__name__ == "Synth":
        return {
            "synth_version": obj.loaded_sunsynth_version,
            "module": snap_module(obj.module),
        }
    return snap_project(obj)


def canon(x):
    if isinstance(x, dict):
        return "{" + ",".join(f"{k!r}:{canon(v)}" for k, v in sorted(x.items())) + "}"
    if isinstance(x, (list, tuple)):
        return "[" + ",".join(canon(v) for v in x) + "]"
    return repr(x)


class Capture(logging.Handler):
    def __init__(self):
        super().__init__(level=logging.DEBUG)
        self.records = []

    def emit(self, record):
        self.records.append((record.name, record.levelname, record.getMessage()))


def load(blob_or_path, capture=None):
    """Load and return (snapshot, log-records)."""
    root = logging.getLogger("rv")
    cap = Capture()
    old_level = root.level
    root.addHandler(cap)
    root.setLevel(logging.DEBUG)
    try:
        if isinstance(blob_or_path, bytes):
            obj = read_sunvox_file(io.BytesIO(blob_or_path))
        else:
            obj = read_sunvox_file(blob_or_path)
    finally:
        root.removeHandler(cap)
        root.setLevel(old_level)
    return snap(obj), cap.records


def warnings_of(records, logger=None):
    return [
        (n, m) for n, lvl, m in records if lvl == "WARNING" and (not logger or n == logger)
    ]


def expect_raises(exc_type, fn, msg):
    try:
        fn()
    except exc_type as e:
        if type(e) is not exc_type and exc_type is not Exception:
            # subclass allowed only when asked for the exact type elsewhere
            pass
        return e
    except BaseException as e:  # noqa
        check(False, f"{msg}: expected {exc_type.__name__}, got {type(e).__name__}: {e}")
        return None
    check(False, f"{msg}: expected {exc_type.__name__}, nothing raised")
    return None


def fixtures_digest():
    h = hashlib.sha256()
    for p in fixture_paths():
        s, recs = load(p)
        h.update(os.path.relpath(p, FIXTURES).encode())
        h.update(canon(s).encode("utf8", "backslashreplace"))
        h.update(canon([r for r in recs if r[1] != "DEBUG"]).encode())
    return h.hexdigest()


def finish():
    if FAILURES:
        print(f"{len(FAILURES)} FAILURES")
        sys.exit(1)
    print("PASS")
    sys.exit(0)


# ======================= checks specific to refactoring 2 =======================
# readers/sunvox.py: SunVoxReader scalar chunk handlers, VERS/BVER/SFGS/NAME,
# PDTA/PPAR/PEND, SFFF/SEND and process_end_of_file (link fix-ups, legacy masks).
from rv.pattern import Pattern, PatternClone
from rv.readers.reader import Reader
from rv.readers.sunvox import SunVoxReader

EXPECTED_FIXTURES_DIGEST = "abca901a929c785208eed1cfc3a4c807e73ed2831d3d968018cb6bfa82061163"
EXPECTED_GRAPH_DIGEST = "bd10b16a5d1b6825ae990f7edfd13145179e2f1b01ab3ef6e28463cd593c1f9a"

# chunk id, attribute, signed?, documented default
SCALARS = [
    ("FLGS", "flags", False, 0),
    ("BPM", "initial_bpm", False, 125),
    ("SPED", "initial_tpl", False, 6),
    ("TGRD", "time_grid", False, 4),
    ("TGD2", "time_grid2", False, 4),
    ("GVOL", "global_volume", False, 80),
    ("MSCL", "modules_scale", False, 256),
    ("MZOO", "modules_zoom", False, 256),
    ("MXOF", "modules_x_offset", True, 0),
    ("MYOF", "modules_y_offset", True, 0),
    ("LMSK", "modules_layer_mask", False, 0),
    ("CURL", "modules_current_layer", False, 0),
    ("TIME", "timeline_position", True, 0),
    ("REPS", "restart_position", True, 0),
    ("SELS", "selected_module", False, 0),
    ("LGEN", "selected_generator", True, -1),
    ("PATN", "current_pattern", False, 0),
    ("PATT", "current_track", False, 0),
    ("PATL", "current_line", False, 0),
]


def cstr(s, width=None):
    b = s.encode("utf8") + b"\0"
    if width:
        b = b.ljust(width, b"\0")
    return b


def module_chunks(mtype=None, name="Output", flags=0x43, links=None, slots=None, cvals=(), xy=(512, 512)):
    chs = [(b"SFFF", u32(flags)), (b"SNAM", cstr(name, 32))]
    if mtype:
        chs.append((b"STYP", cstr(mtype)))
    chs += [(b"SXXX", i32(xy[0])), (b"SYYY", i32(xy[1]))]
    if links is not None:
        chs.append((b"SLNK", b"".join(i32(x) for x in links)))
    if slots is not None:
        chs.append((b"SLnK", b"".join(i32(x) for x in slots)))
    chs += [(b"CVAL", i32(v)) for v in cvals]
    chs.append((b"SEND", b""))
    return chs


EMPTY_MODULE = [(b"SEND", b"")]


def project_blob(header, patterns=(), modules=()):
    chs = [(b"SVOX", b"")] + list(header)
    for p in patterns:
        chs += p
    for m in modules:
        chs += m
    return join_chunks(chs)


def open_project(blob):
    return read_sunvox_file(io.BytesIO(blob))


def test_handlers_exist():
    for cid, attr, signed, default in SCALARS:
        fn = getattr(SunVoxReader, "process_" + cid, None)
        check(callable(fn), f"SunVoxReader.process_{cid} is a callable attribute")
        check(callable(getattr(SunVoxReader(io.BytesIO(b"")), "process_" + cid, None)), f"bound process_{cid}")
    for cid in ["VERS", "BVER", "SFGS", "NAME", "PDTA", "PEND", "PPAR", "SFFF", "SEND", "PAMD", "end_of_file", "chunks"]:
        check(callable(getattr(SunVoxReader, "process_" + cid, None)), f"process_{cid}")
    check(issubclass(SunVoxReader, Reader), "SunVoxReader is a Reader")
    check(not hasattr(SunVoxReader, "process_STYP"), "no module handlers on the project reader")


def test_scalars():
    out = module_chunks()
    unsigned_values = [0, 1, 0x7FFFFFFF, 0x80000000, 0xFFFFFFFF, 0x12345678]
    signed_values = [0, 1, -1, 0x7FFFFFFF, -0x80000000, -0x12345678]
    for round_ in range(6):
        header = []
        expected = {}
        for k, (cid, attr, signed, default) in enumerate(SCALARS):
            vals = signed_values if signed else unsigned_values
            v = vals[(round_ + k) % len(vals)]
            header.append((cid.encode(), i32(v) if signed else u32(v)))
            expected[attr] = v
        # reorder the independent header chunks differently each round
        header = header[round_ * 3 :] + header[: round_ * 3]
        if round_ % 2:
            header.reverse()
        p = open_project(project_blob(header, modules=[out]))
        for attr, v in expected.items():
            got = getattr(p, attr)
            check(got == v and type(got) is int, f"round {round_}: {attr} = {got!r}, expected {v}")
    # each chunk absent -> documented default; others unaffected
    for skip in range(len(SCALARS)):
        header = []
        for k, (cid, attr, signed, default) in enumerate(SCALARS):
            if k != skip:
                header.append((cid.encode(), i32(1000 + k) if signed else u32(1000 + k)))
        p = open_project(project_blob(header, modules=[out]))
        for k, (cid, attr, signed, default) in enumerate(SCALARS):
            exp = default if k == skip else 1000 + k
            check(getattr(p, attr) == exp, f"without {SCALARS[skip][0]}: {attr} = {getattr(p, attr)!r}, expected {exp}")
    # later duplicate wins
    p = open_project(project_blob([(b"BPM ", u32(90)), (b"BPM ", u32(91))], modules=[out]))
    check(p.initial_bpm == 91, "duplicate chunk: last one wins")
    # wrong payload sizes are struct errors for every scalar chunk
    for cid, attr, signed, default in SCALARS:
        for payload in (b"", b"\1\2\3", b"\1\2\3\4\5"):
            expect_raises(struct.error, lambda: open_project(project_blob([(cid.encode(), payload)])), f"{cid} with {len(payload)} bytes")
    for cid in (b"VERS", b"BVER", b"SFGS"):
        expect_raises(struct.error, lambda: open_project(project_blob([(cid, b"\1\2\3")])), f"{cid} short")


def test_versions_sync_name():
    out = module_chunks()
    p = open_project(project_blob([(b"VERS", bytes([4, 3, 2, 1])), (b"BVER", bytes([8, 7, 6, 5]))], modules=[out]))
    check(p.loaded_sunvox_version == (1, 2, 3, 4) and type(p.loaded_sunvox_version) is tuple, f"VERS {p.loaded_sunvox_version!r}")
    check(p.based_on_version == (5, 6, 7, 8) and type(p.based_on_version) is tuple, f"BVER {p.based_on_version!r}")
    p = open_project(project_blob([(b"VERS", bytes([0, 0, 9, 1]))], modules=[out]))
    check(p.based_on_version == (1, 7, 0, 0), "legacy based-on default")
    check(p.loaded_sunvox_version == (1, 9, 0, 0), "VERS only")
    p = open_project(project_blob([], modules=[out]))
    check(p.loaded_sunvox_version == (2, 1, 2, 1) and p.based_on_version == (1, 7, 0, 0), "no version chunks")
    p = open_project(project_blob([(b"BVER", bytes(4))], modules=[out]))
    check(p.based_on_version == (0, 0, 0, 0), "all-zero BVER is kept")
    for x in list(range(64)) + [0xFFFFFFC0 | 0b101010, 0x100 | 0b011100, 0xFFFFFFFF]:
        p = open_project(project_blob([(b"SFGS", u32(x))], modules=[out]))
        check(p.receive_sync_midi == x & 7 and p.receive_sync_other == (x >> 3) & 7, f"SFGS {x:#x}: {p.receive_sync_midi!r} {p.receive_sync_other!r}")
        check(type(p.receive_sync_midi) is int and type(p.receive_sync_other) is int, "SFGS plain ints")
    p = open_project(project_blob([], modules=[out]))
    check(p.receive_sync_midi == 1 and p.receive_sync_other == 1, "SFGS default")
    for raw, exp in [
        (b"hello\0", "hello"),
        (b"hello", "hello"),
        (b"hel\0lo\0\0", "hel"),
        (b"\0", ""),
        (b"", ""),
        (b"\0junk", ""),
        ("café ♫".encode("utf8") + b"\0\0\0", "café ♫"),
    ]:
        p = open_project(project_blob([(b"NAME", raw)], modules=[out]))
        check(p.name == exp, f"NAME {raw!r} -> {p.name!r}")
    expect_raises(UnicodeDecodeError, lambda: open_project(project_blob([(b"NAME", b"\xff\xfe\0")])), "NAME bad utf8")
    p = open_project(project_blob([], modules=[out]))
    check(p.name == "Project", "NAME default")


def links_of(p):
    return [None if m is None else (m.index, type(m).__name__, list(m.in_links), list(m.in_link_slots), list(m.out_links), list(m.out_link_slots)) for m in p.modules]


def test_module_positions_and_links():
    amp = lambda **kw: module_chunks(mtype="Amplifier", name="amp", flags=0x51, **kw)  # noqa
    # positions, trailing empties dropped, synthesized slots
    blob = project_blob(
        [],
        modules=[module_chunks(links=[1, -1, 3]), amp(links=[3]), EMPTY_MODULE, amp(links=[]), EMPTY_MODULE, EMPTY_MODULE],
    )
    p = open_project(blob)
    exp = [
        (0, "Output", [1, -1, 3], [0, -1, 1], [], []),
        (1, "Amplifier", [3], [0], [0], [0]),
        None,
        (3, "Amplifier", [], [], [1, 0], [0, 2]),
    ]
    check(links_of(p) == exp, f"synthesized link slots: {links_of(p)}")
    check(p.output is p.modules[0], "output module")
    check(all(m is None or m.parent is p for m in p.modules), "parents")
    # explicit SLnK is trusted
    blob = project_blob([], modules=[module_chunks(links=[1, 3], slots=[2, 0]), amp(), EMPTY_MODULE, amp()])
    exp = [
        (0, "Output", [1, 3], [2, 0], [], []),
        (1, "Amplifier", [], [], [-1, -1, 0], [-1, -1, 0]),
        None,
        (3, "Amplifier", [], [], [0], [1]),
    ]
    check(links_of(open_project(blob)) == exp, f"explicit link slots: {links_of(open_project(blob))}")
    # SLnK of -1 means nothing is written at the source
    blob = project_blob([], modules=[module_chunks(links=[1, 1], slots=[-1, 1]), amp()])
    exp = [(0, "Output", [1, 1], [-1, 1], [], []), (1, "Amplifier", [], [], [-1, 0], [-1, 1])]
    check(links_of(open_project(blob)) == exp, f"-1 slot: {links_of(open_project(blob))}")
    # leading empty modules and no output at all
    blob = project_blob([], modules=[EMPTY_MODULE, EMPTY_MODULE, amp(), EMPTY_MODULE])
    p = open_project(blob)
    check(links_of(p) == [None, None, (2, "Amplifier", [], [], [], [])], f"leading empties: {links_of(p)}")
    p = open_project(project_blob([], modules=[EMPTY_MODULE, EMPTY_MODULE]))
    check(p.modules == [], "only empties")
    p = open_project(project_blob([]))
    check(p.modules == [] and p.patterns == [], "no modules at all")
    # self link and feedback pair
    blob = project_blob([], modules=[module_chunks(links=[1]), amp(links=[1, 2]), amp(links=[1])])
    exp = [
        (0, "Output", [1], [2], [], []),
        (1, "Amplifier", [1, 2], [0, 0], [1, 2, 0], [0, 0, 0]),
        (2, "Amplifier", [1], [1], [1], [1]),
    ]
    check(links_of(open_project(blob)) == exp, f"self link: {links_of(open_project(blob))}")
    # link to a module number that does not exist: warning, then the slot lookup fails
    cap = Capture()
    lg = logging.getLogger("rv")
    lg.addHandler(cap)
    try:
        expect_raises(IndexError, lambda: open_project(project_blob([], modules=[module_chunks(links=[9]), amp()])), "dangling link")
    finally:
        lg.removeHandler(cap)
    w = [m for n, lvl, m in cap.records if lvl == "WARNING" and n == "rv.readers.sunvox"]
    check(w == ["Found SLNK on 0 referencing non-existent module 9"], f"dangling link warning {w}")
    expect_raises(AttributeError, lambda: open_project(project_blob([], modules=[module_chunks(links=[1]), EMPTY_MODULE, amp()])), "link to empty slot, no SLnK")
    expect_raises(RuntimeError, lambda: open_project(project_blob([], modules=[module_chunks(links=[1], slots=[0]), EMPTY_MODULE, amp()])), "link to empty slot with SLnK")
    expect_raises(IndexError, lambda: open_project(project_blob([], modules=[module_chunks(links=[1, 1], slots=[0]), amp()])), "fewer slots than links")
    expect_raises(IndexError, lambda: open_project(project_blob([], modules=[module_chunks(links=[5], slots=[0]), amp()])), "explicit slot, missing module")
    # negative link numbers other than -1 index from the end, as before
    p = open_project(project_blob([], modules=[module_chunks(links=[-2]), amp(), amp()]))
    check(links_of(p)[1] == (1, "Amplifier", [], [], [0], [0]), f"negative link: {links_of(p)}")


def lcg(seed):
    state = seed
    while True:
        state = (state * 1103515245 + 12345) % (1 << 31)
        yield state >> 8


def graph_digest():
    rnd = lcg(2024)
    h = hashlib.sha256()
    for case in range(150):
        n = 1 + next(rnd) % 7
        mods = []
        for i in range(n):
            if i and next(rnd) % 5 == 0:
                mods.append(EMPTY_MODULE)
                continue
            k = next(rnd) % 4
            links = [(next(rnd) % (n + 2)) - 1 for _ in range(k)]
            slots = None
            if next(rnd) % 3 == 0:
                slots = [(next(rnd) % 5) - 1 for _ in range(k + (next(rnd) % 3 == 0))]
            if i == 0:
                mods.append(module_chunks(links=links, slots=slots))
            else:
                mods.append(module_chunks(mtype="Amplifier", name=f"a{i}", flags=0x51, links=links, slots=slots))
        try:
            out = canon(links_of(open_project(project_blob([], modules=mods))))
        except Exception as e:  # noqa
            out = "EXC:" + type(e).__name__
        h.update(f"{case}:{out};".encode())
    return h.hexdigest()


def note(n, vel, module, ctl, val):
    return struct.pack("<BBHHH", n, vel, module, ctl, val)


def pattern_chunks(tracks, lines, raw, name=None, xy=(0, 0)):
    chs = [(b"PDTA", raw)]
    if name is not None:
        chs.append((b"PNME", cstr(name)))
    chs += [(b"PCHN", u32(tracks)), (b"PLIN", u32(lines)), (b"PYSZ", u32(32)), (b"PFLG", u32(0)), (b"PICO", bytes(range(32))), (b"PFGC", b"\1\2\3"), (b"PBGC", b"\4\5\6"), (b"PFFF", u32(0)), (b"PXXX", i32(xy[0])), (b"PYYY", i32(xy[1])), (b"PEND", b"")]
    return chs


def clone_chunks(source, xy=(0, 0), flags=1):
    return [(b"PPAR", u32(source)), (b"PFFF", u32(flags)), (b"PXXX", i32(xy[0])), (b"PYYY", i32(xy[1])), (b"PEND", b"")]


def test_patterns_and_legacy_mask():
    out = module_chunks()
    raw = note(1, 2, 0x1234, 0x0506, 0x0708) + note(0, 0, 0xFF00, 0, 0) + note(5, 129, 0x00FF, 1, 2) + note(0, 0, 0x0100, 0, 0)
    pats = [pattern_chunks(2, 2, raw, name="pat", xy=(-8, 64)), [(b"PEND", b"")], clone_chunks(0, xy=(4, -32), flags=3), [(b"PEND", b"")]]
    for vers, masked in [((1, 9, 4, 255), True), ((1, 9, 5, 0), False), ((1, 7, 0, 0), True), ((2, 1, 2, 1), False), (None, False), ((0, 0, 0, 0), True)]:
        header = [] if vers is None else [(b"VERS", bytes(reversed(vers)))]
        p = open_project(project_blob(header, patterns=pats, modules=[out]))
        check(len(p.patterns) == 4 and p.patterns[1] is None and p.patterns[3] is None, f"{vers}: pattern positions")
        a, c = p.patterns[0], p.patterns[2]
        check(isinstance(a, Pattern) and isinstance(c, PatternClone), f"{vers}: pattern types")
        check(a.project is p and c.project is p, "pattern ownership")
        check((a.name, a.tracks, a.lines, a.x, a.y, a.icon, a.fg_color, a.bg_color) == ("pat", 2, 2, -8, 64, bytes(range(32)), (1, 2, 3), (4, 5, 6)), f"{vers}: pattern fields")
        check((c.source, c.x, c.y, c.flags_PFFF) == (0, 4, -32, 3), f"{vers}: clone fields")
        mods = [[n.module for n in line] for line in a.data]
        exp = [[0x34, 0x00], [0xFF, 0x00]] if masked else [[0x1234, 0xFF00], [0x00FF, 0x0100]]
        check(mods == exp, f"{vers}: note modules {mods}")
        others = [[(int(n.note), n.vel, n.ctl, n.val) for n in line] for line in a.data]
        check(others == [[(1, 2, 0x0506, 0x0708), (0, 0, 0, 0)], [(5, 129, 1, 2), (0, 0, 0, 0)]], f"{vers}: other note fields {others}")
    # patterns after modules and an unknown chunk between pattern sections
    blob = project_blob([], modules=[out]) + join_chunks([(b"WHAT", b"?")] + pats[0] + [(b"WHAT", b"?")] + pats[2])
    p = open_project(blob)
    check([type(x).__name__ for x in p.patterns] == ["Pattern", "PatternClone"], "patterns after modules")


test_handlers_exist()
test_scalars()
test_versions_sync_name()
test_module_positions_and_links()
test_patterns_and_legacy_mask()
d = graph_digest()
check(d == EXPECTED_GRAPH_DIGEST, f"graph digest {d}")
d = fixtures_digest()
check(d == EXPECTED_FIXTURES_DIGEST, f"fixtures digest {d}")
finish()
