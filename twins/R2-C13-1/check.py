"""C13-1 check: ModuleMeta (rv/modules/meta.py) behaviour.

Run from the repository root with PYTHONPATH=<root>/src/python.
"""
import sys
from enum import Enum, IntEnum
from pathlib import Path
from textwrap import dedent

import yaml

import rv.modules as rvm
from rv.controller import (
    CompactRange,
    Controller,
    DependentRange,
    NoOffsetRange,
    Range,
    WarnOnlyRange,
)
from rv.modules import MODULE_CLASSES, Behavior, Module
from rv.modules.meta import ModuleMeta
from rv.option import Option

FAILURES = []


def check(cond, msg):
    if not cond:
        FAILURES.append(msg)


def ref_enumname(ekey):
    # verbatim reference copy of genrv.tools.generate.enumname
    ekey = ekey.replace("/", "_div_")
    ekey = ekey.replace("*", "_mul_")
    ekey = ekey.replace(".", "_")
    ekey = ekey.replace("+", "_plus_")
    ekey = ekey.replace("-", "_neg_")
    ekey = ekey.replace("^", "_pow_")
    if ekey[0].isdigit():
        ekey = f"_{ekey}"
    elif ekey[0] == "_":
        ekey = ekey[1:]
    while "__" in ekey:
        ekey = ekey.replace("__", "_")
    return ekey.lower()


# ---------------------------------------------------------------- spec vs classes
def compare_with_spec():
    spec = yaml.safe_load(Path("specs/fileformat.yaml").read_text())
    mtypes = spec["module_types"]
    check(len(mtypes) == 43, "spec has 43 module types")
    expected_names = {m.get("type") or n for n, m in mtypes.items()}
    check(set(MODULE_CLASSES) == expected_names, "registry keys == spec type names")
    check(len(MODULE_CLASSES) == 43, "43 registered classes")
    nctl = nopt = 0
    for mname, m in mtypes.items():
        tname = m.get("type") or mname
        cls = MODULE_CLASSES.get(tname)
        if cls is None:
            check(False, f"{tname} missing")
            continue
        where = f"{mname}: "
        check(cls is getattr(rvm, mname), where + "class exported under spec name")
        check(cls.mtype == tname, where + "mtype")
        base = next(b for b in cls.__mro__ if b.__name__ == "Base" + mname)
        check(vars(base)["name"] == mname, where + "name")
        check(cls.mgroup == m["group"], where + "group")
        check(cls.default_flags == (m.get("defaultFlags") or 0), where + "flags")
        check(cls.flags == cls.default_flags, where + "flags alias")
        # enums
        for ename, members in (m.get("enums") or {}).items():
            e = getattr(cls, ename)
            got = [(x.name, x.value) for x in e]
            want = [(ref_enumname(str(k)), v) for k, v in members.items()]
            check(got == want, where + f"enum {ename}")
        # controllers
        want_ctls = []
        for entry in m.get("controllers") or []:
            want_ctls.extend(entry.items())
        ctlmap = dict(want_ctls)
        got_ctls = list(cls.controllers.items())
        # (MetaModule and Sampler append hand-written controllers after the
        # generated ones, so the spec list is a prefix of the class list)
        check(
            [k for k, _ in got_ctls][: len(want_ctls)]
            == ["in_" if k == "in" else k for k, _ in want_ctls],
            where + "controller order",
        )
        check(
            len(got_ctls) == len(want_ctls) or mname in ("MetaModule", "Sampler"),
            where + "controller count",
        )
        check(
            [c.number for _, c in got_ctls] == list(range(1, len(got_ctls) + 1)),
            where + "controller numbering is 1..n",
        )
        for i, ((gname, ctl), (sname, cdef)) in enumerate(zip(got_ctls, want_ctls), 1):
            nctl += 1
            w = where + f"ctl {sname}: "
            check(ctl.number == i, w + "number")
            check(ctl.name == gname, w + "name")
            check(ctl.label == gname.replace("_", " ").title(), w + "label")
            check(getattr(cls, gname) is ctl, w + "attr identity")
            check(
                ctl._attached == (False if cdef.get("attached") is False else True),
                w + "attached",
            )
            vt = ctl.value_type
            if "min" in cdef and "max" in cdef:
                kind = (
                    CompactRange
                    if cdef.get("compact")
                    else NoOffsetRange
                    if cdef.get("no_offset")
                    else Range
                )
                check(type(vt) is kind, w + "range kind")
                check((vt.min, vt.max) == (cdef["min"], cdef["max"]), w + "bounds")
                check(ctl.default == cdef["default"], w + "default")
                check(type(ctl.default) is type(cdef["default"]), w + "default type")
            elif "enum" in cdef:
                e = getattr(cls, cdef["enum"])
                check(vt is e, w + "enum type")
                check(ctl.default is e[ref_enumname(str(cdef["default"]))], w + "enum dflt")
            elif "bool" in cdef:
                check(vt is bool, w + "bool")
                check(ctl.default is cdef["default"], w + "bool default")
            elif "depends_on" in cdef:
                check(type(vt) is DependentRange, w + "dependent")
                check(vt.ctl_name == cdef["depends_on"], w + "depends_on")
                e = getattr(cls, ctlmap[cdef["depends_on"]]["enum"])
                want_map = [
                    (e[ref_enumname(str(k))], (r["min"], r["max"]))
                    for k, r in cdef["ranges"].items()
                ]
                got_map = [(k, (r.min, r.max)) for k, r in vt.range_map.items()]
                check(got_map == want_map, w + "range table")
                check(
                    all(type(r) is WarnOnlyRange for r in vt.range_map.values()),
                    w + "range table kinds",
                )
                check(type(vt.default) is WarnOnlyRange, w + "fallback kind")
                check(
                    (vt.default.min, vt.default.max) == want_map[0][1], w + "fallback"
                )
                check(ctl.default == cdef["default"], w + "default")
            else:
                check(False, w + "unknown controller kind")
        # options
        want_opts = []
        for entry in m.get("options") or []:
            want_opts.extend(entry.items())
        check(
            sorted(cls.options) == sorted(k for k, _ in want_opts),
            where + "option names",
        )
        check(list(cls.options) == sorted(cls.options), where + "options sorted")
        for oname, ospec in want_opts:
            nopt += 1
            w = where + f"opt {oname}: "
            opt = cls.options.get(oname)
            if opt is None:
                continue
            check(getattr(cls, oname) is opt, w + "attr identity")
            check(opt.name == oname, w + "name")
            check(opt.byte == ospec["byte"], w + "byte")
            check(opt.bit == ospec["bit"], w + "bit")
            check(opt.size == ospec["size"], w + "size")
            check(opt.number == (ospec.get("number") or None), w + "number")
            if "min" in ospec and "max" in ospec:
                check((opt.min, opt.max) == (ospec["min"], ospec["max"]), w + "bounds")
                check(opt.inverted is False, w + "inverted w/ bounds")
            else:
                check((opt.min, opt.max) == (None, None), w + "no bounds")
                check(opt.inverted == bool(ospec.get("inverted")), w + "inverted")
            check(opt.exclusive_of == (ospec.get("exclusive_of") or []), w + "excl")
            if ospec.get("enum"):
                check(
                    opt.default is getattr(cls, ospec["enum"])[ospec["default"]],
                    w + "enum default",
                )
            else:
                check(opt.default == ospec["default"], w + "default")
                check(type(opt.default) is type(ospec["default"]), w + "default type")
        if "options_chnm" in m:
            check(cls.options_chnm == m["options_chnm"], where + "options_chnm")
    check(nctl == 502, f"502 controllers compared (got {nctl})")
    check(nopt == 49, f"49 options compared (got {nopt})")


# ------------------------------------------------ reference docstring generators
def ref_docstring(cls, original_doc):
    lines = [f'"{cls.mtype}" SunVox {cls.mgroup} Module', ""]
    if original_doc:
        lines.append(dedent(original_doc))
    lines += ["", "Behaviors:", ""]
    for b in sorted(cls.behaviors):
        lines += ["- {}".format(b.name)]
    if len(cls.controllers) > 0:
        lines += [
            "",
            "Controllers:",
            "",
            "=" * 40 + " " + "=" * 40 + " " + "=" * 40 + " " + "=" * 40,
            "{:40s} {:40s} {:40s} {:40s}".format("Number", "Name", "Type", "Default"),
            "=" * 40 + " " + "=" * 40 + " " + "=" * 40 + " " + "=" * 40,
        ]
        for i, c in enumerate(cls.controllers.values(), 1):
            number = "``{0:02x}`` ({0:d})".format(i)
            lines.append(
                "{number:40s} {c.name:40s} "
                "{c.value_type!r:40s} {c.default!r:40s}".format(number=number, c=c)
            )
        lines.append("=" * 40 + " " + "=" * 40 + " " + "=" * 40 + " " + "=" * 40)
        lines.append("")
    else:
        lines.append("This module has no controllers.")
    return "\n".join(lines)


def ref_enum_doc(e):
    lines = [
        "An enumeration.",
        "",
        "=" * 40 + " " + "=" * 40,
        "{:40s} {:40s}".format("Name", "Value"),
        "=" * 40 + " " + "=" * 40,
    ]
    for v in e:
        lines.append("{:40s} {:40d}".format(v.name, v.value))
    lines.append("=" * 40 + " " + "=" * 40)
    return "\n".join(lines)


def check_real_docstrings():
    import importlib
    import inspect
    import ast

    for tname, cls in MODULE_CLASSES.items():
        # recover the hand-written class docstring from source
        src = inspect.getsource(importlib.import_module(cls.__module__))
        original = None
        for node in ast.walk(ast.parse(src)):
            if isinstance(node, ast.ClassDef) and node.name == cls.__name__:
                original = ast.get_docstring(node, clean=False)
        check(cls.__doc__ == ref_docstring(cls, original), f"{tname}: class docstring")
        for k in dir(cls):
            e = getattr(cls, k)
            if isinstance(e, type) and issubclass(e, Enum):
                if tname == "DrumSynth" and k.endswith("NOTE"):
                    # attached to the class after it was created
                    check(e.__doc__ is None, f"{tname}.{k}: late enum untouched")
                else:
                    check(e.__doc__ == ref_enum_doc(e), f"{tname}.{k}: enum docstring")
    check(Module.__doc__.startswith("Abstract base class for all SunVox module classes."),
          "Module docstring left untouched")
    check(Module.controllers == {} and Module.options == {}, "Module has none")
    check("Module" not in MODULE_CLASSES and None not in MODULE_CLASSES, "Module not registered")


# ------------------------------------------------------------- synthetic classes
def check_synthetic():
    before = dict(MODULE_CLASSES)
    try:
        class Colour(Enum):
            red = 1
            green = 2

        class Mode(IntEnum):
            off = 0
            on = 1
            _7bit = 7

        class ZBase:
            # names deliberately in non-alphabetical definition order
            zeta = Controller((0, 10), 5)
            alpha = Controller(Mode, Mode.on)
            in_ = Controller(bool, False)
            mid_value = Controller((-5, 5), 0, attached=False)
            b_opt = Option(name="b_opt", byte=1, bit=2, size=1, default=False)
            a_opt = Option(name="a_opt", byte=0, bit=0, size=2, default=1, min=0, max=3)
            not_an_option = 3

        class Synth(ZBase, Module):
            """   Indented doc.

               More.
            """

            name = mtype = "C13 Synthetic"
            mgroup = "Synth"
            behaviors = {Behavior.sends_audio, Behavior.receives_notes}
            ModeEnum = Mode
            ColourEnum = Colour
            extra = Controller((1, 2), 1)

        check(MODULE_CLASSES.get("C13 Synthetic") is Synth, "synthetic registered")
        check(
            list(Synth.controllers) == ["zeta", "alpha", "in_", "mid_value", "extra"],
            "synthetic controller order = definition order",
        )
        check(
            [c.number for c in Synth.controllers.values()] == [1, 2, 3, 4, 5],
            "synthetic numbers",
        )
        check(
            [c.name for c in Synth.controllers.values()] == list(Synth.controllers),
            "synthetic names",
        )
        check(
            [c.label for c in Synth.controllers.values()]
            == ["Zeta", "Alpha", "In ", "Mid Value", "Extra"],
            "synthetic labels",
        )
        check(list(Synth.options) == ["a_opt", "b_opt"], "synthetic options sorted")
        check(Synth.options["a_opt"] is ZBase.__dict__["a_opt"], "option identity")
        check(type(Synth.controllers) is dict and type(Synth.options) is dict, "dicts")
        check(
            Synth.__doc__ == ref_docstring(Synth, "   Indented doc.\n\n               More.\n            "),
            "synthetic docstring",
        )
        check(
            Synth.__doc__.splitlines()[5:8] == ["- receives_notes", "- sends_audio", ""]
            or Synth.__doc__.splitlines()[6:9] == ["- receives_notes", "- sends_audio", ""]
            or "- receives_notes\n- sends_audio\n" in Synth.__doc__,
            "behaviors sorted",
        )
        check(Mode.__doc__ == ref_enum_doc(Mode), "Mode enum doc")
        check(Colour.__doc__ == ref_enum_doc(Colour), "Colour enum doc")
        check("_7bit" in Mode.__doc__, "enum member listed")

        # subclass: inherits controllers, adds one more, re-registers under new type
        class SubSynth(Synth):
            name = mtype = "C13 Sub"
            later = Controller((0, 1), 0)

        check(MODULE_CLASSES.get("C13 Sub") is SubSynth, "sub registered")
        check(MODULE_CLASSES.get("C13 Synthetic") is Synth, "parent still registered")
        check(
            list(SubSynth.controllers)
            == ["zeta", "alpha", "in_", "mid_value", "extra", "later"],
            "sub controller order",
        )
        check(SubSynth.controllers["later"].number == 6, "sub numbering")
        check(SubSynth.controllers is not Synth.controllers, "separate dicts")
        check(list(Synth.controllers)[-1] == "extra", "parent dict unchanged")
        check(SubSynth.options == Synth.options, "sub options inherited")
        # a class without its own docstring has __doc__ = None; nothing inherited
        check(SubSynth.__doc__ == ref_docstring(SubSynth, None), "sub docstring")

        # same mtype again: last definition wins
        class Synth2(Module):
            name = mtype = "C13 Synthetic"
            mgroup = "Effect"

        check(MODULE_CLASSES["C13 Synthetic"] is Synth2, "re-registration overrides")
        check(Synth2.controllers == {} and Synth2.options == {}, "empty")
        check(
            Synth2.__doc__
            == '"C13 Synthetic" SunVox Effect Module\n\n\nBehaviors:\n\nThis module has no controllers.',
            "no-controller docstring",
        )

        # falsy / missing mtype => not registered
        n = len(MODULE_CLASSES)

        class NoType(metaclass=ModuleMeta):
            mgroup = "X"
            mtype = ""
            behaviors = set()
            c = Controller((0, 1), 0)

        check(len(MODULE_CLASSES) == n, "empty mtype not registered")
        check(list(NoType.controllers) == ["c"] and NoType.c.number == 1, "NoType ctl")

        # two names bound to one Controller: both listed (alphabetical tie-break)
        shared = Controller((0, 3), 1)

        class Alias(metaclass=ModuleMeta):
            mtype = None
            mgroup = "X"
            behaviors = set()
            first = Controller((0, 1), 0)
            y_name = shared
            b_name = shared

        check(list(Alias.controllers) == ["b_name", "y_name", "first"]
              or list(Alias.controllers) == ["first", "b_name", "y_name"], "alias order")
        order = sorted(
            [(k, v) for k in dir(Alias) if isinstance(v := getattr(Alias, k), Controller)],
            key=lambda kv: kv[1]._order,
        )
        check(list(Alias.controllers) == [k for k, _ in order], "alias stable order")
        check(shared.name == "y_name" and shared.number == order.index(("y_name", shared)) + 1,
              "alias last-name wins")
        check(Alias.__doc__ == ref_docstring(Alias, None), "alias docstring")
    finally:
        for k in list(MODULE_CLASSES):
            if k not in before:
                del MODULE_CLASSES[k]
        MODULE_CLASSES.update(before)


compare_with_spec()
check_real_docstrings()
check_synthetic()

if FAILURES:
    print("FAIL")
    for f in FAILURES[:40]:
        print("  -", f)
    print(len(FAILURES), "failure(s)")
    sys.exit(1)
print("PASS")
