"""Behaviour check for Synth.chunks / Module.clone / Module.get_raw+set_raw /
SunSynthReader.  Passes on the unchanged tree and with the refactoring applied.
"""
import contextlib
import io
import logging
import struct
import sys

import rv.errors
from rv.api import Project, Synth, read_sunvox_file
from rv import modules as m
from rv.controller import DependentRange, Range
from rv.errors import ControllerValueError, EmptySynthError
from rv.lib.iff import chunks as iff_chunks
from rv.modules import MODULE_CLASSES

failures = []
logging.getLogger().addHandler(logging.NullHandler())


def check(cond, msg):
    if not cond:
        failures.append(msg)


def quiet(fn, *a, **kw):
    with contextlib.redirect_stdout(io.StringIO()):
        return fn(*a, **kw)


def chunk_list(synth):
    return list(synth.chunks())


def names(chunks):
    return [c[0] for c in chunks]


# -- empty synth refuses, lazily (generator) and at write/read/clone time
s = Synth()
gen = s.chunks()
try:
    next(gen)
    check(False, "empty synth must raise")
except EmptySynthError as e:
    check(str(e) == "Cannot serialize a synth with no module", "message")
buf = io.BytesIO()
for call in (lambda: s.write_to(buf), s.read, s.clone):
    try:
        call()
        check(False, "empty synth must raise from write/read/clone")
    except EmptySynthError:
        pass
check(buf.getvalue() == b"", "nothing written for an empty synth")
try:
    Synth(m.Module()).read()
    check(False, "base Module must not serialize")
except RuntimeError:
    pass

# -- exact chunk stream for a simple module
amp = m.Amplifier(volume=1024, balance=-128, dc_offset=128, inverse=True,
                  name="Ampé" * 12, finetune=-7, relative_note=3, color=(1, 2, 3),
                  midi_in_always=True, midi_in_channel=5, midi_out_name="dev",
                  scale=300)
amp.controller_midi_maps["balance"].channel = 9
syn = Synth(amp)
cl = chunk_list(syn)
check(cl[0] == (b"SSYN", b""), "magic first")
check(cl[1] == (b"VERS", bytes([1, 2, 1, 2])), "version bytes reversed")
check(cl[-1] == (b"SEND", b""), "SEND last")
nm = names(cl)
check(nm[2] == b"SFFF" and b"SXXX" not in nm and b"SVPR" not in nm and b"SMIN" in nm,
      "stand-alone context omits position/visualisation")
n_ctl = len(m.Amplifier.controllers)
check(nm.count(b"CVAL") == n_ctl and nm.count(b"CMID") == 1, "CVAL per controller, one CMID")
first_cval = nm.index(b"CVAL")
check(nm[first_cval:first_cval + n_ctl + 1] == [b"CVAL"] * n_ctl + [b"CMID"], "CVALs then CMID")
check(nm[nm.index(b"CMID") + 1:] == [b"SEND"], "no CHNK for a module without data")
cvals = [struct.unpack("<i", d)[0] for n_, d in cl if n_ == b"CVAL"]
expect = [amp.get_raw(k) for k in m.Amplifier.controllers]
check(cvals == expect, "CVAL payloads")
check(amp.get_raw("balance") == 0 and amp.get_raw("dc_offset") == 256
      and amp.get_raw("inverse") == 1 and amp.get_raw("volume") == 1024, "raw encodings")
cmid = dict(cl)[b"CMID"]
check(len(cmid) == 8 * n_ctl, "CMID size")
check(cmid == b"".join(amp.controller_midi_maps[k].cmid_data for k in m.Amplifier.controllers),
      "CMID payload")
check(syn.read() == syn.read(), "deterministic")
syn.sunsynth_version = (9, 8, 7, 6)
check(chunk_list(syn)[1] == (b"VERS", bytes([6, 7, 8, 9])), "custom version")
syn.sunsynth_version = (1, 2, 3)
try:
    chunk_list(syn)
    check(False, "bad version length must fail")
except struct.error:
    pass
syn.sunsynth_version = (2, 1, 2, 1)

# -- loader side: version, module, trailing data ignored
loaded = read_sunvox_file(io.BytesIO(syn.read() + b"JUNK\x00\x00\x00\x00"))
check(type(loaded) is Synth and loaded.loaded_sunsynth_version == (2, 1, 2, 1)
      and type(loaded.loaded_sunsynth_version) is tuple, "loaded version tuple")
check(loaded.sunsynth_version == (2, 1, 2, 1), "own version default")
syn.sunsynth_version = (3, 4, 5, 6)
check(syn.clone().loaded_sunsynth_version == (3, 4, 5, 6), "version round trip")
syn.sunsynth_version = (2, 1, 2, 1)
back = loaded.module
check(type(back) is m.Amplifier and back.parent is None, "module type")
for k in m.Amplifier.controllers:
    check(getattr(back, k) == getattr(amp, k), "ctl " + k)
check(back.controller_midi_maps["balance"].channel == 9, "midi map")
check(back.name == amp.name.encode("utf8")[:32].decode("utf8", "ignore"), "name truncated")
check((back.mod_finetune, back.mod_relative_note, back.color, back.midi_in_always,
       back.midi_in_channel, back.midi_out_name, back.mod_scale)
      == (-7, 3, (1, 2, 3), True, 5, "dev", 300), "common settings")
# header-only file
hdr = io.BytesIO()
from rv.lib.iff import write_chunk
write_chunk(hdr, b"SSYN", b"")
write_chunk(hdr, b"VERS", bytes([4, 3, 2, 1]))
hdr.seek(0)
only = read_sunvox_file(hdr)
check(only.module is None and only.loaded_sunsynth_version == (1, 2, 3, 4), "header-only synth")

# -- every module type: clone == write/read, CHNK rules, CVAL/CMID counts
for mtype, cls in sorted(MODULE_CLASSES.items()):
    if mtype == "Output":
        continue
    mod = quiet(cls)
    syn = Synth(mod)
    cl = quiet(chunk_list, syn)
    nm = names(cl)
    attached = [k for k, c in mod.controllers.items() if c.attached(mod)]
    check(nm.count(b"CVAL") == len(attached), mtype + " CVAL count")
    check(nm.count(b"CMID") == (1 if attached else 0), mtype + " CMID presence")
    if attached:
        check(len(dict(cl)[b"CMID"]) == 8 * len(attached), mtype + " CMID len")
    if mod.chnk:
        i = nm.index(b"CHNK")
        check(cl[i][1] == struct.pack("<I", mod.chnk), mtype + " CHNK value")
        spec = quiet(lambda: list(mod.specialized_iff_chunks()))
        check(cl[i + 1:-1] == spec, mtype + " specialised chunks follow CHNK")
    else:
        check(b"CHNK" not in nm and b"CHNM" not in nm, mtype + " no CHNK")
    data = quiet(syn.read)
    via_clone = quiet(mod.clone)
    via_file = quiet(read_sunvox_file, io.BytesIO(data)).module
    for other in (via_clone, via_file):
        check(type(other) is cls, mtype + " type")
        check(quiet(Synth(other).read) == data, mtype + " re-serialises identically")
    # extreme controller values, units first
    lo = quiet(cls)
    hi = quiet(cls)
    for target, pick in ((lo, "min"), (hi, "max")):
        for k, c in target.controllers.items():
            if not c.attached(target):
                continue
            t = c.instance_value_type(target)
            if isinstance(t, Range):
                setattr(target, k, getattr(t, pick))
            elif isinstance(t, type) and hasattr(t, "__members__"):
                vals = list(t)
                setattr(target, k, vals[0] if pick == "min" else vals[-1])
            elif t is bool:
                setattr(target, k, pick == "max")
        c2 = quiet(target.clone)
        for k, c in target.controllers.items():
            if c.attached(target):
                check(getattr(c2, k) == getattr(target, k),
                      "%s.%s %s survives clone" % (mtype, k, pick))
                check(c2.get_raw(k) == target.get_raw(k), "%s.%s raw" % (mtype, k))

# -- Generator: chnk depends on waveform
g = m.Generator()
check(b"CHNK" not in names(chunk_list(Synth(g))), "default generator has no CHNK")
g.drawn_waveform.samples = [1] * 32
cl = chunk_list(Synth(g))
check(dict(cl)[b"CHNK"] == struct.pack("<I", 4), "generator CHNK when drawn")
check(g.clone().drawn_waveform.samples == [1] * 32, "generator waveform")

# -- MetaModule: attachment recomputed before CVALs are written
mm = m.MetaModule(user_defined_controllers=3)
mm.user_defined[0].detach(mm)  # stale attachment state
cl = chunk_list(Synth(mm))
base = len([k for k in m.MetaModule.controllers if not k.startswith("user_defined_")])
check(names(cl).count(b"CVAL") == base + 3, "MetaModule CVALs after recompute")
mm2 = mm.clone()
check(mm2.user_defined_controllers == 3, "MetaModule round trip")

# -- SpectraVoice chunk order
sv = m.SpectraVoice(harmonics=[(1000, 200, 2, "triangle1"), (2000, 100, 1, "random")])
spec = list(sv.specialized_iff_chunks())
chnms = [struct.unpack("<I", d)[0] for n_, d in spec if n_ == b"CHNM"]
check(chnms == [0, 1, 2, 3], "SpectraVoice chunk order: %r" % chnms)
check(spec[1][1] == sv.harmonic_freqs.bytes and spec[3][1] == sv.harmonic_volumes.bytes
      and spec[5][1] == sv.harmonic_widths.bytes and spec[7][1] == sv.harmonic_types.bytes,
      "SpectraVoice chunk payloads")
svc = sv.clone()
check([(h.freq_hz, h.volume, h.width, int(h.type)) for h in svc.harmonics[:2]]
      == [(1000, 200, 2, int(m.SpectraVoice.HarmonicType.triangle1)),
          (2000, 100, 1, int(m.SpectraVoice.HarmonicType.random))], "SpectraVoice harmonics")

# -- get_raw special cases
class FakeEnumNone:
    pass


lfo = m.Lfo()
check(lfo.get_raw("waveform") == lfo.waveform.value, "enum raw")
lfo.controller_values["amplitude"] = None
check(lfo.get_raw("amplitude") == 0, "None -> 0")
try:
    lfo.get_raw("nope")
    check(False, "unknown controller")
except KeyError:
    pass
vp = m.VorbisPlayer(finetune=-128)
check(vp.get_raw("finetune") == -128, "NoOffsetRange raw is signed")
check(vp.clone().finetune == -128, "NoOffsetRange round trip")

# -- set_raw: out of range -> warning or ControllerValueError with exact text
amp2 = m.Amplifier()
amp2.index = 0x1F
records = []


class H(logging.Handler):
    def emit(self, r):
        records.append(r.getMessage())


h = H()
lg = logging.getLogger("rv.modules.module")
lg.addHandler(h)
old_level = lg.level
lg.setLevel(logging.WARNING)
try:
    with rv.errors.override_raise_controller_value_errors(False):
        amp2.set_raw("volume", 5000)
    check(amp2.volume == 5000, "out of range kept when warning")
    check(records == ["1f(Amplifier).volume=5000 is not within [0, 1024]"],
          "warning text: %r" % records)
    amp2.index = None
    with rv.errors.override_raise_controller_value_errors(True):
        try:
            amp2.set_raw("balance", 999)
            check(False, "must raise")
        except ControllerValueError as e:
            check(e.args == ("0(Amplifier).balance=871 is not within [-128, 128]",),
                  "error text: %r" % (e.args,))
            check(type(e.__cause__).__name__ == "RangeValidationError", "cause kept")
finally:
    lg.removeHandler(h)
    lg.setLevel(old_level)
amp2.set_raw("balance", 0)
check(amp2.balance == -128, "negative-offset min")
amp2.set_raw("balance", 256)
check(amp2.balance == 128, "negative-offset max")

# -- in-project writer emits the same CVAL/CMID/CHNK block
p = Project()
ms = p.attach_module(m.MultiSynth(transpose=-128, finetune=256))
ms.controller_midi_maps["velocity"].message_parameter = 77
pbuf = io.BytesIO()
p.write_to(pbuf)
pbuf.seek(0)
pch = list(iff_chunks(pbuf))
start = max(i for i, c in enumerate(pch) if c[0] == b"SFFF")
block = [c for c in pch[start:] if c[0] in (b"CVAL", b"CMID", b"CHNK", b"CHNM", b"CHDT")]
sch = [c for c in chunk_list(Synth(ms)) if c[0] in (b"CVAL", b"CMID", b"CHNK", b"CHNM", b"CHDT")]
check([(a, bytes(b)) for a, b in block] == [(a, bytes(b)) for a, b in sch],
      "project and synth writers agree")

if failures:
    print("FAIL")
    for f_ in failures[:40]:
        print(" -", f_)
    sys.exit(1)
print("PASS")
