"""Behaviour check for the Sampler writer loop rewrite (C03-3).

Touches: Sampler.specialized_iff_chunks, Sampler.sample_data_chunks,
Sampler.global_config_chunks, Sampler.Envelope.chunks / _x_values / _y_values.
Compares produced bytes with digests recorded on the unchanged tree and with an
independent decoder of the fixed 400-byte instrument record and of the
envelope chunks.

Run from the repository root:
    PYTHONPATH=<root>/src/python python check.py
(`--regen` prints the digest table instead of checking it.)
"""
import hashlib
import os
import struct
import sys
from io import BytesIO

from rv.api import Project, Synth, m, read_sunvox_file

ROOT = os.getcwd()
FILES = os.path.join(ROOT, "tests", "files")

GOLDEN = {
    "default:project": "bcb70da41a805ce986932467",
    "default:spec": "e7e64b54b6dce9cac076da6c",
    "default:synth": "c665ea9372f6fad33025e982",
    "effect-and-options:project": "feaff2ba7717b9362c9ed4b0",
    "effect-and-options:spec": "4218391ecd446a2aafa9636f",
    "effect-and-options:synth": "ad337bf4001ab52339f628cd",
    "empty-samples-list:project": "bcb70da41a805ce986932467",
    "empty-samples-list:spec": "e7e64b54b6dce9cac076da6c",
    "empty-samples-list:synth": "c665ea9372f6fad33025e982",
    "envelopes-0:project": "b2d28e923fcbd1e5268a746c",
    "envelopes-0:spec": "58db0c9196f78ea47232cf02",
    "envelopes-0:synth": "9f87b0dfd734596577e1cbdd",
    "envelopes-11:project": "317ab69dfb30d155daa9546f",
    "envelopes-11:spec": "11c10fd27beebee33706733a",
    "envelopes-11:synth": "fe458acad5e0580f9f33ec55",
    "envelopes-12:project": "70752272f1711f0b924adf84",
    "envelopes-12:spec": "2509fedc3cce6b62dde04e02",
    "envelopes-12:synth": "9dd82833b41877f3e2289a92",
    "envelopes-13:project": "6850f23621055e9bb81bfdd0",
    "envelopes-13:spec": "48df3d4aec9a243965511ce2",
    "envelopes-13:synth": "72363548669813e1aac168cd",
    "envelopes-1:project": "d0382c99f6bb21cb7e2505cf",
    "envelopes-1:spec": "5f3935ebf6147144952a5a73",
    "envelopes-1:synth": "9427090c38f0b1314c80af99",
    "envelopes-40:project": "40dc594cb56d963018c67d56",
    "envelopes-40:spec": "f34cd81bc208147747a473c0",
    "envelopes-40:synth": "2cb730d423a7314ee2d2f93a",
    "file:amplifier.sunsynth": "419f5717e558efbc145eafac",
    "file:analog-generator.sunsynth": "76ce674ef1db6717af60bca2",
    "file:compressor.sunsynth": "7e4fa89c60186b9a11f55e88",
    "file:dc-blocker.sunsynth": "1312bb3c1626a845ea4227ba",
    "file:delay.sunsynth": "32ee6c78f799b00c67608a7e",
    "file:distortion.sunsynth": "e9b59951b8753b41f51c8c4f",
    "file:drum-synth.sunsynth": "6d8ad0364d91a386d19b24cf",
    "file:echo.sunsynth": "a51866593f018ff999a6757d",
    "file:empty.sunvox": "0b58f6338b84cd2a3802ae4d",
    "file:eq.sunsynth": "c6e8877e93f69f7fbaa3db88",
    "file:feedback.sunsynth": "09a1d368f8d9743977592b90",
    "file:fft.sunsynth": "a532a1e449a579c5fa56fcdd",
    "file:filter-pro.sunsynth": "87b217d025f588bb70015551",
    "file:filter.sunsynth": "ccf4f2af334e7d85df980339",
    "file:flanger.sunsynth": "658f4783cc9c248ebe9f31e3",
    "file:fmx.sunsynth": "d2b0427af5abec18927f4138",
    "file:generator.sunsynth": "16aefebfbfb606f8c608f0af",
    "file:glide.sunsynth": "765d995ffed7b9491e2c9775",
    "file:gpio.sunsynth": "15c3990e39ba8c2d0b6f5ecd",
    "file:input.sunsynth": "025ed41f84a149cb59b48ef6",
    "file:issue109/filter_lfo.sunvox": "7c07bab808ce3d271b3487c1",
    "file:issue41/sample.sunvox": "31504b7ddfd906224ba3855d",
    "file:issue54/test1.sunvox": "915266c46c96537b1ad7473c",
    "file:kicker.sunsynth": "33abb29c4834873a1df6cdaa",
    "file:lfo.sunsynth": "efa89196cf44067f36c946f4",
    "file:loop.sunsynth": "57eca85729cb1af475e5c57d",
    "file:metamodule-option-78.sunsynth": "76bf484725a761c100dc6c67",
    "file:metamodule-option-79.sunsynth": "8d8a050747174fd9f658a8b2",
    "file:metamodule-option-7a.sunsynth": "36db7cdd1df60d034c827704",
    "file:metamodule.sunsynth": "55f5fd0bfba897453b071068",
    "file:modulator.sunsynth": "22d3e9b37c36f8818d83036c",
    "file:module-multiselect.sunvox": "8fa3a4e0ed3b0d49c4294782",
    "file:multictl.sunsynth": "66b009f3228bb000bd08f11f",
    "file:multisynth-random-off.sunsynth": "b4ccf1b6f4e1ed62c7ebf966",
    "file:multisynth-random1.sunsynth": "a19a3f40a8bd840e62b0b525",
    "file:multisynth-random2.sunsynth": "98bf489a0febc83d29b91511",
    "file:multisynth-random3.sunsynth": "b7fbddfa4ed104bfe889dc1d",
    "file:multisynth.sunsynth": "87df69077399b6112a3e3ed7",
    "file:pitch-shifter.sunsynth": "4c58b5705344a08e159e5273",
    "file:pitch2ctl.sunsynth": "73252da465dfcc2f5993dc79",
    "file:reverb.sunsynth": "90db4c635458e8fe34ef4ba4",
    "file:sampler.sunsynth": "3b0f2915c2ec0456c0932e70",
    "file:sampler.sunsynth#None": "8f55523b962e603c5bfd2f29",
    "file:single-fm.sunvox": "ca3eb0ed7d25ba31f4e96888",
    "file:smooth.sunsynth": "673c38cfc74b338e6936d75c",
    "file:sound2ctl.sunsynth": "fd4a139c6dc96ebf2eecbaea",
    "file:spectravoice.sunsynth": "112111c76bcab011dcf9c039",
    "file:supertracks.sunvox": "1a4f41f039f94d444739fff9",
    "file:velocity2ctl.sunsynth": "5fe6662a1ac4bc70daa3ed25",
    "file:vibrato.sunsynth": "274b70fa0e6cf0ab0d3b04b7",
    "file:vocal-filter.sunsynth": "f62bcc37659869aaa0bd842d",
    "file:vorbis-player.sunsynth": "f18896c9f30ee44ad1a83493",
    "file:waveshaper.sunsynth": "a4d25d2c53431359abb5c05e",
    "gap-then-sample:project": "e4dfac8778b41f1ef1a5d853",
    "gap-then-sample:spec": "ac5dc9180ffba9ab364505a4",
    "gap-then-sample:synth": "2dc6d051c23276314959382d",
    "one-sample:project": "f02e2b773e979a02c79d18f2",
    "one-sample:spec": "b4f22853b86fc05fd809663b",
    "one-sample:synth": "dc9d5c46fdbe8050f2d45e80",
    "scalars:project": "c106590c7af4ca6877cbfbde",
    "scalars:spec": "7b6e7701e93d31a2db976092",
    "scalars:synth": "e75ba9a98f9c23381e24c388",
    "short-samples-list:project": "742eff29dde3dc5c932829c1",
    "short-samples-list:spec": "cd6779b6335cb82202f467bd",
    "short-samples-list:synth": "03dcfad91d42397e96ad7aba",
    "sparse-samples:project": "bff3537723d0d1f3e7846ac3",
    "sparse-samples:spec": "a67a864dd09bb9fd31a033f4",
    "sparse-samples:synth": "62e5e9c14d028842068d969e",
}

failures = []
digests = {}

Sampler = m.Sampler

# Independent description of the instrument record (docs: 400 bytes).
HEADER = struct.Struct("<I22sHHHI96s48s48s10B4BHBbBbI4sI128sIii")


def fail(msg):
    failures.append(msg)
    print("FAIL:", msg)


def record(key, data):
    digests[key] = hashlib.sha256(bytes(data)).hexdigest()[:24]


def parse(data):
    out = []
    pos = 0
    while pos < len(data):
        assert pos + 8 <= len(data), "truncated chunk header"
        cid = data[pos : pos + 4]
        (size,) = struct.unpack_from("<I", data, pos + 4)
        pos += 8
        assert pos + size <= len(data), "truncated chunk payload"
        out.append((cid, data[pos : pos + size]))
        pos += size
    return out


def numbered(chunks):
    """Group module-specific chunks: {chnm: {"CHDT": ..., "CHFF": ..., ...}}."""
    out = {}
    order = []
    cur = None
    for cid, payload in chunks:
        if cid == b"CHNM":
            (cur,) = struct.unpack("<I", payload)
            if cur in out:
                fail(f"CHNM {cur:#x} appears twice")
            out[cur] = {}
            order.append(cur)
        elif cid in (b"CHDT", b"CHFF", b"CHFR"):
            out[cur][cid] = payload
    return out, order


def old_points(env):
    xs = [x for x, _ in env.points][:12]
    ys = [y // 0x200 for _, y in env.points][:12]
    xs += [0] * (12 - len(xs))
    ys += [0] * (12 - len(ys))
    base = env.range[0] // 0x200
    flat = []
    for x, y in zip(xs, ys):
        flat += [x, y - base]
    return struct.pack("<24H", *flat)


def check_sampler_chunks(key, s, spec):
    """spec: list of (id, payload) as yielded by specialized_iff_chunks."""
    spec = [(c, p) for c, p in spec if c is not None]
    groups, order = numbered(spec)
    if order != sorted(order):
        fail(f"{key}: chunk numbers not ascending: {order}")
    if any(n >= s.chnk for n in order):
        fail(f"{key}: chunk number >= CHNK")
    # 1. instrument record
    head = groups[0][b"CHDT"]
    if len(head) != 400 or HEADER.size != 400:
        fail(f"{key}: instrument record is {len(head)} bytes")
        return
    f = HEADER.unpack(head)
    vol, pan = s.volume_envelope, s.panning_envelope
    used = [i for i, smp in enumerate(s.samples) if smp is not None]
    expect = (
        s.unused1,
        bytes(s.instrument_name).ljust(22, b"\0")[:22],
        s.unused2,
        (used[-1] + 1) if used else 0,
        s.unused3,
        s.unused4,
        s.note_samples.bytes[:96],
        old_points(vol),
        old_points(pan),
        len(vol.points),
        len(pan.points),
        vol.sustain_point,
        vol.loop_start_point,
        vol.loop_end_point,
        pan.sustain_point,
        pan.loop_start_point,
        pan.loop_end_point,
        vol.enable | vol.sustain * 2 | vol.loop * 4,
        pan.enable | pan.sustain * 2 | pan.loop * 4,
        s.vibrato_type.value,
        s.vibrato_attack,
        s.vibrato_depth,
        s.vibrato_rate,
        s.volume_fadeout,
        s.volume_old,
        s.ins_finetune,
        s.unused5,
        s.ins_relative_note,
        s.unused6,
        b"PMAS",
        s.version,
        s.note_samples.bytes.ljust(128, b"\0"),
        s.max_version,
        s.editor_cursor,
        s.editor_selected_size,
    )
    for i, (got, want) in enumerate(zip(f, expect)):
        if got != want:
            fail(f"{key}: instrument record field {i}: {got!r} != {want!r}")
    # 2. samples
    for i in used:
        smp = s.samples[i]
        a, b = groups.get(i * 2 + 1), groups.get(i * 2 + 2)
        if a is None or b is None:
            fail(f"{key}: sample {i} chunks missing")
            continue
        if len(a[b"CHDT"]) != 44:
            fail(f"{key}: sample {i} header is {len(a[b'CHDT'])} bytes")
        if struct.unpack_from("<III", a[b"CHDT"]) != (smp.frames, smp.loop_start, smp.loop_len):
            fail(f"{key}: sample {i} header start")
        if b[b"CHDT"] != smp.data:
            fail(f"{key}: sample {i} data")
        if b[b"CHFF"] != struct.pack("<I", smp.format.value | smp.channels.value):
            fail(f"{key}: sample {i} CHFF")
        if b[b"CHFR"] != struct.pack("<I", smp.rate):
            fail(f"{key}: sample {i} CHFR")
    sample_numbers = [n for n in order if 0 < n < 0x101]
    if sample_numbers != [n for i in used for n in (i * 2 + 1, i * 2 + 2)]:
        fail(f"{key}: sample chunk numbers {sample_numbers}")
    # 3. options, then the seven envelopes in order
    tail = [n for n in order if n >= 0x101]
    want_tail = [0x101, 0x102, 0x103, 0x104, 0x105, 0x106, 0x107, 0x108]
    if s.effect:
        want_tail.append(0x10A)
    if tail != want_tail:
        fail(f"{key}: tail chunk numbers {[hex(n) for n in tail]}")
    envs = [s.volume_envelope, s.panning_envelope, s.pitch_envelope]
    envs += list(s.effect_control_envelopes)
    for n, env in zip(range(0x102, 0x109), envs):
        d = groups[n][b"CHDT"]
        want = struct.pack(
            "<HBBB3xHHHH4x",
            env.enable | env.sustain * 2 | env.loop * 4,
            env.ctl_index,
            env.gain_pct,
            env.velocity,
            len(env.points),
            env.sustain_point,
            env.loop_start_point,
            env.loop_end_point,
        )
        for x, y in env.points:
            want += struct.pack("<HH", x, y - env.range[0])
        if d != want:
            fail(f"{key}: envelope {n:#x} payload")
        if len(d) != 20 + 4 * len(env.points):
            fail(f"{key}: envelope {n:#x} size")
    if s.effect:
        if groups[0x10A][b"CHDT"] != s.effect.read():
            fail(f"{key}: effect synth payload")


def emit(key, s, via=("spec", "synth", "project")):
    spec = list(s.specialized_iff_chunks())
    record(key + ":spec", b"".join(c + p for c, p in spec if c is not None))
    check_sampler_chunks(key, s, spec)
    if "synth" in via:
        data = Synth(s).read()
        record(key + ":synth", data)
        back = read_sunvox_file(BytesIO(data))
        if back.read() != data:
            fail(f"{key}: synth rewrite is not a fixed point")
        check_sampler_chunks(key + ":reread", back.module, list(back.module.specialized_iff_chunks()))
    if "project" in via and s.parent is None:
        p = Project()
        p.attach_module(s)
        p.connect(s, p.output)
        data = p.read()
        record(key + ":project", data)
        ids = [c for c, _ in parse(data)]
        if ids.count(b"SEND") != 2 or ids[-1] != b"SEND":
            fail(f"{key}: project framing")


def make_sample(fmt, channels, frames, seed=1, **kw):
    smp = Sampler.Sample()
    smp.format = fmt
    smp.channels = channels
    size = {Sampler.Format.int8: 1, Sampler.Format.int16: 2, Sampler.Format.float32: 4}[fmt]
    size *= 2 if channels == Sampler.Channels.stereo else 1
    smp.data = bytes((seed * 31 + i * 7) % 256 for i in range(frames * size))
    for k, v in kw.items():
        setattr(smp, k, v)
    return smp


def built():
    F, C, L = Sampler.Format, Sampler.Channels, Sampler.LoopType

    emit("default", Sampler())

    s = Sampler(instrument_name=b"a name longer than twenty-two bytes")
    s.samples[0] = make_sample(F.int8, C.mono, 10)
    emit("one-sample", s)

    s = Sampler(instrument_name=b"short")
    s.samples[0] = make_sample(F.int16, C.stereo, 7, seed=2, loop_type=L.forward, loop_start=1, loop_len=3)
    s.samples[3] = make_sample(F.float32, C.mono, 5, seed=3, loop_type=L.ping_pong, loop_sustain=True, panning=-128, finetune=-128, relative_note=-12, name=b"third", rate=8000, volume=0)
    s.samples[127] = make_sample(F.int8, C.stereo, 0, seed=4, panning=127, start_pos=9)
    emit("sparse-samples", s)

    # trailing empty slots after the last sample, gap at slot 0
    s = Sampler()
    s.samples[5] = make_sample(F.int16, C.mono, 3)
    emit("gap-then-sample", s)

    # samples list of another length
    s = Sampler()
    s.samples = [None, make_sample(F.int8, C.mono, 2), None]
    emit("short-samples-list", s)
    s = Sampler()
    s.samples = []
    emit("empty-samples-list", s)

    # envelopes with 0, 1, 11, 12, 13 and 40 points and all flag combinations
    for count in (0, 1, 11, 12, 13, 40):
        s = Sampler()
        envs = [s.volume_envelope, s.panning_envelope, s.pitch_envelope]
        envs += s.effect_control_envelopes
        for j, env in enumerate(envs):
            lo, hi = env.range
            env.points = [
                (i * 16 + j, lo + ((i * 0x777 + j * 0x111) % (hi - lo + 1)))
                for i in range(count)
            ]
            env.enable = bool((count + j) & 1)
            env.sustain = bool((count + j) & 2)
            env.loop = bool((count + j) & 4)
            env.sustain_point = min(count, 3 + j)
            env.loop_start_point = min(count, 1 + j)
            env.loop_end_point = min(count, 2 + j)
            env.ctl_index = j
            env.gain_pct = 100 - j
            env.velocity = j % 2
        emit(f"envelopes-{count}", s)

    # instrument record scalars
    s = Sampler()
    s.vibrato_type = Sampler.VibratoType.square
    s.vibrato_attack = 255
    s.vibrato_depth = 17
    s.vibrato_rate = 63
    s.volume_fadeout = 8192
    s.volume_old = 1
    s.ins_finetune = -128
    s.ins_relative_note = 127
    s.editor_cursor = -1
    s.editor_selected_size = -2
    s.unused1, s.unused2, s.unused3 = 0xDEADBEEF, 0xBEEF, 0xCAFE
    s.unused4, s.unused5, s.unused6 = 0x01020304, 0xFE, 0xFFFFFFFF
    for i, k in enumerate(list(s.note_samples)):
        s.note_samples[k] = i % 5
    emit("scalars", s)

    # options and an effect synth
    s = Sampler()
    for name in s.options:
        s.option_values[name] = True
    s.effect = Synth(m.Reverb())
    s.samples[1] = make_sample(F.float32, C.stereo, 4)
    emit("effect-and-options", s)

    # error behaviour: too many points for the one-byte counter
    s = Sampler()
    s.volume_envelope.points = [(i, 0) for i in range(256)]
    try:
        list(s.global_config_chunks())
    except struct.error:
        pass
    else:
        fail("256 envelope points did not raise struct.error")
    s = Sampler()
    s.panning_envelope.loop_end_point = 256
    try:
        list(s.global_config_chunks())
    except struct.error:
        pass
    else:
        fail("loop_end_point 256 did not raise struct.error")
    # envelope point out of range is an error when the envelope is written,
    # after its CHNM has been produced
    s = Sampler()
    s.pitch_envelope.points = [(0, -0x4001)]
    it = s.pitch_envelope.chunks()
    if next(it) != (b"CHNM", struct.pack("<I", 0x104)):
        fail("envelope CHNM")
    try:
        next(it)
    except struct.error:
        pass
    else:
        fail("out-of-range envelope point did not raise struct.error")
    # fewer than four effect envelopes is an IndexError before anything is yielded
    s = Sampler()
    s.effect_control_envelopes = s.effect_control_envelopes[:3]
    it = s.specialized_iff_chunks()
    try:
        next(it)
    except IndexError:
        pass
    else:
        fail("three effect envelopes did not raise IndexError on first next()")
    # more than four: only the first four are written
    s = Sampler()
    s.effect_control_envelopes = s.effect_control_envelopes + [Sampler.EffectControlEnvelope(0x109)]
    _, order = numbered([(c, p) for c, p in s.specialized_iff_chunks() if c])
    if 0x109 in order or order[-1] != 0x108:
        fail("a fifth effect envelope was written")


def corpus():
    paths = []
    for base, _, names in os.walk(FILES):
        for n in names:
            if n.endswith((".sunvox", ".sunsynth")):
                paths.append(os.path.join(base, n))
    paths.sort()
    if len(paths) < 40:
        fail(f"corpus too small: {len(paths)} files under {FILES}")
    samplers = 0
    for path in paths:
        rel = os.path.relpath(path, FILES).replace(os.sep, "/")
        with open(path, "rb") as f:
            obj = read_sunvox_file(f)
        data = obj.read()
        record("file:" + rel, data)
        mods = [obj.module] if isinstance(obj, Synth) else [x for x in obj.modules if x]
        for mod in mods:
            if isinstance(mod, Sampler):
                samplers += 1
                key = f"file:{rel}#{mod.index}"
                spec = list(mod.specialized_iff_chunks())
                record(key, b"".join(c + p for c, p in spec if c is not None))
                if mod.is_legacy:
                    continue
                check_sampler_chunks(key, mod, spec)
    if samplers < 1:
        fail(f"only {samplers} samplers in the corpus")


def main():
    built()
    corpus()
    if "--regen" in sys.argv:
        for k in sorted(digests):
            print(f'    "{k}": "{digests[k]}",')
        return 0
    if set(GOLDEN) != set(digests):
        fail(f"digest key sets differ: {sorted(set(GOLDEN) ^ set(digests))}")
    for k, v in digests.items():
        if GOLDEN.get(k) != v:
            fail(f"{k}: bytes differ from the recorded digest")
    if failures:
        print(f"{len(failures)} failure(s)")
        return 1
    print(f"PASS ({len(digests)} outputs checked)")
    return 0


if __name__ == "__main__":
    sys.exit(main())
