"""Behaviour check for MetaModule / Sampler chunk loading and nested loads (C18).

1. load_chunk dispatch of both modules is compared, chunk number by chunk
   number, against a reference transcription of the documented dispatch order.
2. Fixtures and a programmatically built 4-level nesting (MetaModule ->
   MetaModule -> Sampler -> effect synth) are loaded, re-serialized and compared.
3. Faults are injected at every Chunk.read (outer and nested), and embedded
   payloads are truncated/corrupted; the global strictness switch must be
   exactly what it was before each load and nested loads must run lenient.
"""
import hashlib
import io
import logging
import struct
import sys
from pathlib import Path

import rv
import rv.api as api
import rv.errors as E
from rv._vendor.chunk import Chunk as IffChunk
from rv.chunks.chunk import Chunk
from rv.lib.iff import chunks, write_chunk
from rv.modules.metamodule import MetaModule
from rv.modules.sampler import Sampler
from rv.readers import reader as reader_mod
from rv.readers.reader import read_sunvox_file

ROOT = Path(rv.__file__).resolve().parents[3]
FILES = ROOT / "tests" / "files"
logging.disable(logging.CRITICAL)

failures = []


def expect(cond, msg):
    if not cond:
        failures.append(msg)


class Boom(OSError):
    pass


def to_bytes(obj):
    f = io.BytesIO()
    obj.write_to(f)
    return f.getvalue()


def mk_chunk(chnm, chdt=None):
    c = Chunk()
    c.chnm = chnm
    if chdt is not None:
        c.chdt = chdt
    return c


AMP_BYTES = (FILES / "amplifier.sunsynth").read_bytes()
EMPTY_PROJECT_BYTES = (FILES / "empty.sunvox").read_bytes()


# ------------------------------------------------------------ 1. dispatch
class RecEnvelope:
    def __init__(self, tag, trace):
        self.tag, self.trace = tag, trace

    def load_chdt(self, chdt):
        self.trace.append((self.tag, chdt))


def traced_sampler(legacy):
    # Handlers are replaced per instance: subclassing a module class would
    # re-register the subclass in the global module registry.
    trace = []
    s = Sampler()
    for tag in ("options", "instrument", "sample_meta", "sample_data"):
        short = tag.replace("sample_", "")
        setattr(s, "load_" + tag, lambda chunk, short=short: trace.append((short, chunk)))
    s.volume_envelope = RecEnvelope("vol", trace)
    s.panning_envelope = RecEnvelope("pan", trace)
    s.pitch_envelope = RecEnvelope("pitch", trace)
    s.effect_control_envelopes = [RecEnvelope("fx%d" % i, trace) for i in range(4)]
    s.is_legacy = legacy
    s.legacy_chunks = None if legacy is False else []
    return s, trace


def sampler_reference(chnm, chunk, chdt):
    """What Sampler.load_chunk is documented to do for a chunk number."""
    if chnm == 0x101:
        return [("options", chunk)]
    if chnm == 0:
        return [("instrument", chunk)]
    if chnm < 0x101 and chnm % 2 == 1:
        return [("meta", chunk)]
    if chnm < 0x101 and chnm % 2 == 0:
        return [("data", chunk)]
    if chnm == 0x102:
        return [("vol", chdt)]
    if chnm == 0x103:
        return [("pan", chdt)]
    if chnm == 0x104:
        return [("pitch", chdt)]
    if 0x105 <= chnm <= 0x108:
        return [("fx%d" % (chnm - 0x105), chdt)]
    if chnm == 0x10A:
        return "effect"
    return []


def check_sampler_dispatch():
    numbers = list(range(0, 0x120)) + [0x1FF, 0x200, 0xFFFF, 2**31, 2**32 - 1, 1.0, 2.0, 258.0, 0x10A + 0.0, 7.5]
    for legacy in (None, True, False):
        for chnm in numbers:
            s, trace = traced_sampler(legacy)
            payload = AMP_BYTES if chnm == 0x10A else b"payload-%r" % (chnm,)
            chunk = mk_chunk(chnm, payload)
            before_effect = s.effect
            s.load_chunk(chunk)
            ref = sampler_reference(chnm, chunk, payload)
            if ref == "effect":
                expect(trace == [], "effect chunk also dispatched elsewhere")
                expect(isinstance(s.effect, api.Synth), "effect not loaded")
                expect(type(s.effect.module).__name__ == "Amplifier", "effect module")
            else:
                expect(trace == ref, "sampler dispatch %r: %r" % (chnm, trace))
                expect(s.effect is before_effect, "effect touched by %r" % (chnm,))
            if legacy is False:
                expect(s.legacy_chunks is None, "legacy list revived")
            else:
                expect(s.legacy_chunks == [chunk], "legacy chunk not remembered %r" % (chnm,))
    # 0x101 with a different options_chnm stores the raw payload
    s = Sampler()
    s.options_chnm = 0x7777
    s.load_chunk(mk_chunk(0x101, b"raw"))
    expect(s._unknown_0x101 == b"raw", "_unknown_0x101")
    # real options chunk sets option values
    s = Sampler()
    s.load_chunk(mk_chunk(0x101, bytes([1] * 8)))
    expect(all(bool(v) for v in list(s.option_values.values())[:1]), "options loaded")
    # odd inputs: error types
    for bad, exc in ((None, TypeError), ("8", TypeError), ([1], TypeError)):
        s, trace = traced_sampler(None)
        try:
            s.load_chunk(mk_chunk(bad, b""))
        except exc:
            pass
        else:
            expect(False, "sampler accepted chnm %r" % (bad,))
        expect(trace == [], "dispatch on bad chnm")
    # chunk without CHDT (attribute is then the Chunk.chdt method)
    for chnm, exc in ((0x10A, TypeError), (0x101, None), (0x200, None)):
        s, trace = traced_sampler(None)
        try:
            s.load_chunk(mk_chunk(chnm))
            got = None
        except Exception as e:
            got = type(e)
        expect(got is exc, "no-CHDT sampler %x: %r" % (chnm, got))
    # effect payload that is not a synth / is cut short
    for initial in (True, False):
        E.RAISE_CONTROLLER_VALUE_ERRORS = initial
        s = Sampler()
        s.load_chunk(mk_chunk(0x10A, b""))
        expect(s.effect is None, "empty effect payload")
        s.load_chunk(mk_chunk(0x10A, EMPTY_PROJECT_BYTES))
        expect(isinstance(s.effect, api.Project), "project as effect payload")
        for cut in range(0, len(AMP_BYTES), 7):
            s = Sampler()
            try:
                s.load_chunk(mk_chunk(0x10A, AMP_BYTES[:cut]))
            except Exception:
                expect(s.effect is None, "effect set despite failure")
            expect(E.RAISE_CONTROLLER_VALUE_ERRORS is initial, "flag after cut effect %d" % cut)


def traced_metamodule():
    trace = []
    m = MetaModule()
    m.load_options = lambda chunk: trace.append(("options", chunk))
    m.load_label = lambda chunk: trace.append(("label", chunk))
    return m, trace


def check_metamodule_dispatch():
    numbers = list(range(0, 0x80)) + [0x100, 0xFFFF, 2**32 - 1, 0.0, 1.0, 2.0, 7.5, 8.0]
    proj_bytes = EMPTY_PROJECT_BYTES
    for chnm in numbers:
        m, trace = traced_metamodule()
        old_project = m.project
        m.mappings.values[3].module = 9
        if chnm == 0:
            payload = proj_bytes
        elif chnm == 1:
            payload = struct.pack("<HH", 5, 6) * 96
        else:
            payload = b"label-%r\0junk" % (chnm,)
        chunk = mk_chunk(chnm, payload)
        m.load_chunk(chunk)
        if chnm == 2:
            expect(trace == [("options", chunk)], "mm options")
        elif chnm == 0:
            expect(trace == [], "mm project trace")
            expect(m.project is not old_project and isinstance(m.project, api.Project), "mm project")
        elif chnm == 1:
            expect(trace == [], "mm mappings trace")
            expect((m.mappings.values[0].module, m.mappings.values[0].controller) == (5, 6), "mm mappings loaded")
            expect(m.mappings.values[3].module == 5, "mm mappings reset")
        elif chnm >= 8:
            expect(trace == [("label", chunk)], "mm label %r" % (chnm,))
        else:
            expect(trace == [], "mm ignored %r: %r" % (chnm, trace))
        if chnm != 0:
            expect(m.project is old_project, "mm project touched by %r" % (chnm,))
        if chnm != 1:
            expect(m.mappings.values[3].module == 9, "mm mappings touched by %r" % (chnm,))
    # real label loading: NUL-terminated, or whole payload
    m = MetaModule()
    m.load_chunk(mk_chunk(8, b"Cutoff\0garbage"))
    m.load_chunk(mk_chunk(9, b"NoTerminator"))
    m.load_chunk(mk_chunk(8 + 95, b"\0"))
    expect(m.user_defined[0].label == "Cutoff", "label 0")
    expect(m.user_defined[1].label == "NoTerminator", "label 1")
    expect(m.user_defined[95].label == "", "label 95")
    for bad_chnm, payload, exc in (
        (8 + 96, b"x", IndexError),
        (None, b"x", TypeError),
        ("9", b"x", TypeError),
        (8, None, TypeError),  # CHNM without CHDT
        (0, None, TypeError),
    ):
        m = MetaModule()
        try:
            m.load_chunk(mk_chunk(bad_chnm, payload))
        except exc:
            pass
        except Exception as e:
            expect(False, "mm %r/%r raised %s" % (bad_chnm, payload, type(e).__name__))
        else:
            expect(False, "mm accepted %r/%r" % (bad_chnm, payload))
    # a subclass moving options_chnm onto 0 wins over the project loader
    m = MetaModule()
    m.options_chnm = 0
    keep = m.project
    m.load_chunk(mk_chunk(0, bytes(64)))
    expect(m.project is keep, "options_chnm precedence")
    # embedded project payload failures leave project and flag alone
    for initial in (True, False):
        E.RAISE_CONTROLLER_VALUE_ERRORS = initial
        single = (FILES / "single-fm.sunvox").read_bytes()
        for cut in range(0, len(single), max(1, len(single) // 60)):
            m = MetaModule()
            keep = m.project
            try:
                m.load_project(mk_chunk(0, single[:cut]))
            except Exception:
                expect(m.project is keep, "project replaced despite failure")
            expect(E.RAISE_CONTROLLER_VALUE_ERRORS is initial, "flag after cut project %d" % cut)
        m = MetaModule()
        m.load_project(mk_chunk(0, AMP_BYTES))
        expect(isinstance(m.project, api.Synth), "synth as project payload")


# ------------------------------------------------------- 2. whole-file loads
def build_nested():
    inner = api.Project()
    smp = inner.new_module(api.m.Sampler)
    smp.effect = api.Synth(api.m.Amplifier(volume=300))
    inner.connect(smp, inner.output)
    mid = api.Project()
    mm_in = mid.new_module(api.m.MetaModule, project=inner)
    mid.connect(mm_in, mid.output)
    outer = api.Project()
    mm = outer.new_module(api.m.MetaModule, project=mid)
    outer.new_module(api.m.Fm)
    outer.connect(mm, outer.output)
    return to_bytes(outer)


EXPECTED_DIGESTS = {
    "sampler.sunsynth": "3b0f2915c2ec0456c0932e701153dc1fe981399cffe9631e080af6bc8b9736a0",
    "metamodule.sunsynth": "55f5fd0bfba897453b071068bb34950f29667e951e5553cfba958d9cd2cf5f2c",
    "metamodule-option-78.sunsynth": "76bf484725a761c100dc6c67f19bcdbf4ce8bf2c17b54729ae61641755f87383",
    "<nested>": "9f2fb363b26b85fc2fa8634eba6a7d63836a1fd9645bbe6e468986ee3eb908b4",
}


def check_roundtrips(nested):
    for name, want in EXPECTED_DIGESTS.items():
        data = nested if name == "<nested>" else (FILES / name).read_bytes()
        for initial in (True, False):
            E.RAISE_CONTROLLER_VALUE_ERRORS = initial
            obj = read_sunvox_file(io.BytesIO(data))
            out = to_bytes(obj)
            got = hashlib.sha256(out).hexdigest()
            expect(got == want, "digest %s: %s" % (name, got))
            expect(to_bytes(read_sunvox_file(io.BytesIO(out))) == out, "unstable " + name)
            expect(E.RAISE_CONTROLLER_VALUE_ERRORS is initial, "flag roundtrip " + name)
    p = read_sunvox_file(io.BytesIO(nested))
    deep = p.modules[1].project.modules[1]
    expect(type(deep) is MetaModule, "deep metamodule")
    smp = deep.project.modules[1]
    expect(type(smp) is Sampler and smp.effect.module.volume == 300, "deep effect")
    expect(nested == to_bytes(p), "nested bytes identical")
    smp = read_sunvox_file(FILES / "sampler.sunsynth").module
    expect(type(smp.effect.module).__name__ == "Reverb", "fixture effect")
    expect(smp.is_legacy is False and smp.legacy_chunks is None, "fixture legacy state")
    expect(sum(s is not None for s in smp.samples) == 3, "fixture samples")
    mm = read_sunvox_file(FILES / "metamodule.sunsynth").module
    expect(len(mm.project.modules) == 2, "fixture embedded project")


# ------------------------------------------------ 3. faults in nested loads
class OverrideSpy:
    """Records the flag seen at every (nested) entry into the read override."""

    def __enter__(self):
        self.orig = reader_mod.override_raise_controller_value_errors
        self.entries = []

        def spy(value):
            self.entries.append((E.RAISE_CONTROLLER_VALUE_ERRORS, value))
            return self.orig(value)

        reader_mod.override_raise_controller_value_errors = spy
        return self

    def __exit__(self, *exc):
        reader_mod.override_raise_controller_value_errors = self.orig


def check_nested_faults(nested):
    lenient = E.RAISE_RANGE_ERRORS_ON_READ
    cases = {
        "<nested>": (nested, 4),
        "sampler.sunsynth": ((FILES / "sampler.sunsynth").read_bytes(), 2),
        "metamodule.sunsynth": ((FILES / "metamodule.sunsynth").read_bytes(), 2),
    }
    orig_read = IffChunk.read
    state = {"n": 0, "fail": None, "flags": []}

    def spy_read(self, *a, **k):
        i = state["n"]
        state["n"] += 1
        state["flags"].append(E.RAISE_CONTROLLER_VALUE_ERRORS)
        if i == state["fail"]:
            raise Boom("chunk %d" % i)
        return orig_read(self, *a, **k)

    IffChunk.read = spy_read
    try:
        for name, (data, depth) in cases.items():
            for initial in (True, False):
                E.RAISE_CONTROLLER_VALUE_ERRORS = initial
                state.update(n=0, fail=None, flags=[])
                with OverrideSpy() as spy:
                    read_sunvox_file(io.BytesIO(data))
                total = state["n"]
                expect(len(spy.entries) == depth, "%s: %d loads" % (name, len(spy.entries)))
                expect(spy.entries[0] == (initial, lenient), "outer entry " + name)
                expect(all(e == (lenient, lenient) for e in spy.entries[1:]), "nested entries " + name)
                expect(set(state["flags"]) == {lenient}, "flag during nested " + name)
                expect(E.RAISE_CONTROLLER_VALUE_ERRORS is initial, "flag after nested " + name)
                step = 1 if total < 400 else 3
                for n in sorted(set(range(0, total, step)) | {total - 1}):
                    state.update(n=0, fail=n, flags=[])
                    try:
                        read_sunvox_file(io.BytesIO(data))
                    except Boom as e:
                        expect(str(e) == "chunk %d" % n, "boom id")
                    else:
                        expect(False, "%s: fault %d swallowed" % (name, n))
                    expect(
                        E.RAISE_CONTROLLER_VALUE_ERRORS is initial,
                        "%s: flag after fault %d" % (name, n),
                    )
    finally:
        IffChunk.read = orig_read

    # truncate / corrupt the embedded payloads inside an otherwise intact file
    def rebuild(data, mutate):
        out = io.BytesIO()
        seen_chnm = None
        for cname, cdata in chunks(io.BytesIO(data)):
            if cname == b"CHNM":
                (seen_chnm,) = struct.unpack("<I", cdata)
            elif cname == b"CHDT":
                cdata = mutate(seen_chnm, cdata)
            write_chunk(out, cname, cdata)
        return out.getvalue()

    for name, target in (("metamodule.sunsynth", 0), ("sampler.sunsynth", 0x10A)):
        data = cases[name][0]
        expect(rebuild(data, lambda n, d: d) == data, "rebuild identity " + name)
        sizes = []
        rebuild(data, lambda n, d: sizes.append(len(d)) or d if n == target else d)
        size = sizes[0]
        for initial in (True, False):
            E.RAISE_CONTROLLER_VALUE_ERRORS = initial
            for cut in sorted(set(range(0, size, max(1, size // 50))) | {8, 12, size - 1}):
                for how in ("cut", "junk"):
                    def mutate(n, d, cut=cut, how=how):
                        if n != target:
                            return d
                        return d[:cut] if how == "cut" else d[:cut] + b"\xff" * (len(d) - cut)

                    bad = rebuild(data, mutate)
                    try:
                        read_sunvox_file(io.BytesIO(bad))
                    except Exception:
                        pass
                    expect(
                        E.RAISE_CONTROLLER_VALUE_ERRORS is initial,
                        "%s: flag after embedded %s@%d" % (name, how, cut),
                    )
    # lenient nested load, strict afterwards
    E.RAISE_CONTROLLER_VALUE_ERRORS = True
    i = AMP_BYTES.index(b"CVAL")
    bad_amp = AMP_BYTES[: i + 8] + struct.pack("<I", 99999) + AMP_BYTES[i + 12 :]
    s = Sampler()
    s.load_chunk(mk_chunk(0x10A, bad_amp))
    expect(s.effect.module.volume == 99999, "nested lenient value")
    expect(E.RAISE_CONTROLLER_VALUE_ERRORS is True, "strict after nested lenient")
    try:
        s.effect.module.set_raw("volume", 99999)
    except E.ControllerValueError:
        pass
    else:
        expect(False, "strictness lost after nested load")


def main():
    saved = E.RAISE_CONTROLLER_VALUE_ERRORS
    try:
        nested = build_nested()
        check_sampler_dispatch()
        check_metamodule_dispatch()
        check_roundtrips(nested)
        check_nested_faults(nested)
    finally:
        E.RAISE_CONTROLLER_VALUE_ERRORS = saved
    if failures:
        for f in sorted(set(failures))[:40]:
            print("FAIL:", f)
        sys.exit(1)
    print("PASS")


if __name__ == "__main__":
    main()
