"""Behaviour check for Project.attach_module / new_module (property C14).

Run from the repository root:
    PYTHONPATH=<root>/src/python python check.py
"""
import os
import random
import sys
from io import BytesIO

import rv.api as rv
from rv.errors import ModuleOwnershipError
from rv.modules.module import Module
from rv.modules.output import Output
from rv.project import Project
from rv.readers.reader import read_sunvox_file

m = rv.m
CLASSES = [m.Amplifier, m.Generator, m.Echo, m.Lfo, m.Filter, m.Reverb]


def coherent(p):
    assert p.modules[0] is p.output, "slot 0 must hold the output"
    assert isinstance(p.output, Output)
    for i, mod in enumerate(p.modules):
        if mod is None:
            continue
        assert mod.index == i, (mod, mod.index, i)
        assert mod.parent is p
        assert p.module_index(mod) == i
    live = [x for x in p.modules if x is not None]
    assert len(set(map(id, live))) == len(live)


def snapshot(p):
    return (
        list(p.modules),
        [(x.index, x.parent) if x is not None else None for x in p.modules],
        p.output,
        list(p.patterns),
    )


def same(a, b):
    assert len(a[0]) == len(b[0])
    assert all(x is y for x, y in zip(a[0], b[0]))
    assert len(a[1]) == len(b[1])
    for x, y in zip(a[1], b[1]):
        if x is None or y is None:
            assert x is y
        else:
            assert x[0] == y[0] and x[1] is y[1]
    assert a[2] is b[2]
    assert len(a[3]) == len(b[3]) and all(x is y for x, y in zip(a[3], b[3]))


def reload(p):
    return read_sunvox_file(BytesIO(p.read()))


def test_fresh():
    p = Project()
    assert len(p.modules) == 1
    coherent(p)
    assert p.output.index == 0 and p.output.parent is p


def test_sequential_and_return_values():
    p = Project()
    amp = m.Amplifier(volume=300, index=99)
    assert amp.index == 99 and amp.parent is None
    r = p.attach_module(amp)
    assert r is amp and amp.index == 1 and amp.parent is p
    gen = p.new_module(m.Generator, name="gen", sustain=False)
    assert isinstance(gen, m.Generator) and gen.name == "gen"
    assert gen.sustain is False
    assert gen.index == 2 and gen.parent is p
    assert p.modules == [p.output, amp, gen]
    assert p.attach_module(None) is None
    assert p.modules[-1] is None and len(p.modules) == 4
    coherent(p)


def test_gap_filling_and_loading_flag():
    p = Project()
    p.attach_module(None, loading=True)
    p.attach_module(None, loading=True)
    a = p.attach_module(m.Amplifier(), loading=True)
    assert a.index == 3 and p.modules[1] is None and p.modules[2] is None
    p.attach_module(None)  # explicit empty slot always goes to the end
    assert len(p.modules) == 5 and p.modules[4] is None
    b = p.attach_module(m.Echo())
    assert b.index == 1 and a.index == 3
    c = p.new_module(m.Lfo)
    assert c.index == 2
    d = p.attach_module(m.Filter(), loading=True)
    assert d.index == 5 and p.modules[4] is None
    e = p.new_module(m.Reverb)
    assert e.index == 4
    f = p.new_module(m.Amplifier)
    assert f.index == 6
    assert p.modules == [p.output, b, c, a, e, d, f]
    coherent(p)


def test_duplicates_are_noops():
    p = Project()
    a = p.new_module(m.Amplifier)
    p.attach_module(None)
    before = snapshot(p)
    assert p.attach_module(a) is a
    assert p.attach_module(a, loading=True) is a
    assert p.attach_module(p.output) is p.output
    p += a
    p += [a, p.output]
    same(before, snapshot(p))
    coherent(p)


def test_refusals_leave_state_untouched():
    p, q = Project(), Project()
    a = p.new_module(m.Amplifier)
    q.attach_module(None)
    q.new_module(m.Echo)
    q.attach_module(None)
    bp, bq = snapshot(p), snapshot(q)
    for loading in (False, True):
        try:
            q.attach_module(a, loading=loading)
        except ModuleOwnershipError as e:
            assert str(e) == "Module is already attached to another project."
        else:
            raise AssertionError("expected ModuleOwnershipError")
        try:
            q.attach_module(p.output, loading=loading)
        except ModuleOwnershipError:
            pass
        else:
            raise AssertionError("expected ModuleOwnershipError")
        try:
            q.attach_module(Module(), loading=loading)
        except RuntimeError as e:
            assert not isinstance(e, ModuleOwnershipError)
            assert str(e) == "Cannot attach base Module instance."
        else:
            raise AssertionError("expected RuntimeError")
    # The base-class check comes before the ownership check.
    base = Module(parent=p, index=5)
    try:
        q.attach_module(base)
    except ModuleOwnershipError:
        raise AssertionError("expected plain RuntimeError")
    except RuntimeError:
        pass
    try:
        q += [m.Lfo(), a, m.Filter()]
    except ModuleOwnershipError:
        pass
    else:
        raise AssertionError("expected ModuleOwnershipError")
    # the first list element got attached (to the lowest gap), the third did not
    assert isinstance(q.modules[1], m.Echo)  # new_module filled the gap
    assert isinstance(q.modules[2], m.Lfo) and len(q.modules) == 3
    same(bp, snapshot(p))
    assert a.index == 1 and a.parent is p
    coherent(p)
    coherent(q)
    assert bq[2] is q.output


def test_output_slot():
    p = Project()
    first = p.output
    extra = p.attach_module(Output())
    assert extra.index == 1 and p.output is first
    # An output landing in slot 0 becomes the project's output.
    p.modules[0] = None
    amp_in_zero = Project()
    amp_in_zero.modules[0] = None
    old = amp_in_zero.output
    a = amp_in_zero.new_module(m.Amplifier)
    assert a.index == 0 and amp_in_zero.output is old
    new_out = p.attach_module(Output())
    assert new_out.index == 0 and p.output is new_out and p.modules[0] is new_out
    assert new_out.name == "Output"
    # Same while loading into an empty module list.
    r = Project()
    r.modules = []
    o = r.attach_module(Output(), loading=True)
    assert o.index == 0 and r.output is o and r.modules == [o]
    o2 = r.attach_module(Output(), loading=True)
    assert o2.index == 1 and r.output is o
    coherent(r)


def test_save_load():
    p = Project()
    mods = [p.new_module(c) for c in CLASSES]
    p.connect(mods[2], mods[0])
    p.connect(mods[0], p.output)
    # punch holes the way a loaded file would present them
    for i in (2, 4, 6):
        p.modules[i] = None
    q = reload(p)
    assert [type(x) for x in q.modules] == [
        Output, m.Amplifier, type(None), m.Echo, type(None), m.Filter,
    ]
    coherent(q)
    x = q.new_module(m.Lfo)
    y = q.new_module(m.Lfo)
    z = q.new_module(m.Lfo)
    assert (x.index, y.index, z.index) == (2, 4, 6)
    coherent(q)
    q2 = reload(q)
    assert [type(a) for a in q2.modules] == [type(a) for a in q.modules]
    coherent(q2)
    try:
        q2.attach_module(x)
    except ModuleOwnershipError:
        pass
    else:
        raise AssertionError("expected ModuleOwnershipError")
    coherent(q2)
    path = os.path.join("tests", "files", "issue54", "test1.sunvox")
    if os.path.exists(path):
        with open(path, "rb") as f:
            loaded = read_sunvox_file(f)
        coherent(loaded)
        if None in loaded.modules:
            gap = loaded.modules.index(None)
            before = list(loaded.modules)
            n = loaded.new_module(m.Amplifier)
            assert n.index == gap
            before[gap] = n
            assert all(u is v for u, v in zip(before, loaded.modules))
            assert len(before) == len(loaded.modules)
            coherent(loaded)


def test_random_histories():
    rng = random.Random(1414)
    for _ in range(60):
        projects = [Project(), Project()]
        models = [[pr.output] for pr in projects]
        owned = {}
        pool = []
        for _step in range(40):
            k = rng.randrange(2)
            p, model = projects[k], models[k]
            op = rng.choice(["new", "attach", "none", "load", "dup", "steal", "rt"])
            if op in ("new", "attach", "load"):
                mod = rng.choice(CLASSES)()
                loading = op == "load"
                if op == "new":
                    mod = p.new_module(type(mod))
                else:
                    assert p.attach_module(mod, loading=loading) is mod
                if not loading and None in model:
                    at = model.index(None)
                    model[at] = mod
                else:
                    at = len(model)
                    model.append(mod)
                assert mod.index == at
                owned[id(mod)] = k
                pool.append(mod)
            elif op == "none":
                p.attach_module(None, loading=rng.random() < 0.5)
                model.append(None)
            elif op == "dup" and pool:
                mod = rng.choice(pool)
                if owned[id(mod)] == k:
                    p.attach_module(mod, loading=rng.random() < 0.5)
            elif op == "steal" and pool:
                mod = rng.choice(pool)
                if owned[id(mod)] != k:
                    try:
                        p.attach_module(mod)
                    except ModuleOwnershipError:
                        pass
                    else:
                        raise AssertionError("expected refusal")
            elif op == "rt":
                q = reload(p)
                expect = [type(x) for x in model]
                while expect and expect[-1] is type(None):
                    expect.pop()
                assert [type(x) for x in q.modules] == expect
                coherent(q)
            for pr, mdl in zip(projects, models):
                assert len(pr.modules) == len(mdl)
                assert all(x is y for x, y in zip(pr.modules, mdl))
                coherent(pr)


def main():
    tests = [v for k, v in sorted(globals().items()) if k.startswith("test_")]
    for t in tests:
        t()
    print("PASS (%d groups)" % len(tests))


if __name__ == "__main__":
    main()
    sys.exit(0)
