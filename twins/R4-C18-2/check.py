"""C18-2 check: read_sunvox_file / Reader.process_chunks in rv.readers.reader.

Focus: files the library opens itself from a path are closed on every exit
path, caller-owned file objects are left open, and the global strictness
switch is restored, for successful loads, I/O faults at every read index,
faults at every chunk boundary (also inside nested loads), truncated files,
failing open() and failing close().  Also pins the chunk dispatch behaviour
of Reader.process_chunks (method lookup, log messages, ReaderFinished).

Run from the repository root:
    PYTHONPATH=<root>/src/python /venv/bin/python check.py
"""
import hashlib
import io
import logging
import os
import struct
import sys
import tempfile
from pathlib import Path

import rv.errors as E
import rv.readers.reader as R
from rv.lib.iff import write_chunk
from rv.readers.reader import Reader, ReaderFinished, read_sunvox_file
import rv.readers.initial  # noqa: F401  (warm up lazy imports before spying)

ROOT = Path(os.getcwd())
FILES = ROOT / "tests" / "files"
failures = []


def expect(cond, msg):
    if not cond:
        failures.append(msg)


class FaultyFile:
    """Binary file wrapper; raises OSError at the n-th read() call."""

    def __init__(self, raw, fail_at=None, fail_close=False):
        self.raw = raw
        self.fail_at = fail_at
        self.fail_close = fail_close
        self.reads = 0
        self.close_calls = 0
        self.seen_flags = set()

    def read(self, *a):
        self.seen_flags.add(E.RAISE_CONTROLLER_VALUE_ERRORS)
        n = self.reads
        self.reads += 1
        if self.fail_at is not None and n == self.fail_at:
            raise OSError("injected at read %d" % n)
        return self.raw.read(*a)

    def seek(self, *a):
        return self.raw.seek(*a)

    def tell(self):
        return self.raw.tell()

    def close(self):
        self.close_calls += 1
        self.raw.close()
        if self.fail_close:
            raise OSError("injected at close")

    @property
    def closed(self):
        return self.raw.closed


class OpenSpy:
    """Replace Path.open for the duration of a with-block and record files."""

    def __init__(self, **wrap_kwargs):
        self.wrap_kwargs = wrap_kwargs
        self.opened = []
        self.modes = []

    def __enter__(self):
        self.orig = Path.open
        spy = self

        def spy_open(path, *args, **kwargs):
            if kwargs or "b" not in "".join(map(str, args)):
                # text-mode opens by the import machinery etc. pass through
                return spy.orig(path, *args, **kwargs)
            spy.modes.append(args)
            f = FaultyFile(spy.orig(path, *args, **kwargs), **spy.wrap_kwargs)
            spy.opened.append(f)
            return f

        Path.open = spy_open
        return self

    def __exit__(self, *exc):
        Path.open = self.orig
        return False


def chunk_boundaries(data):
    pos, out = 0, [0]
    while pos + 8 <= len(data):
        (size,) = struct.unpack("<I", data[pos + 4 : pos + 8])
        out.append(pos + 8)
        pos += 8 + size
        out.append(min(pos, len(data)))
    return sorted(set(out))


def outcome(fn):
    try:
        obj = fn()
    except BaseException as e:  # noqa
        return "exc:" + type(e).__name__
    return "ok:" + type(obj).__name__


class StrSub(str):
    pass


FIXTURES = [
    "amplifier.sunsynth",
    "metamodule.sunsynth",
    "sampler.sunsynth",
    "multisynth.sunsynth",
    "empty.sunvox",
    "issue54/test1.sunvox",
]


def check_path_loads():
    for name in FIXTURES:
        path = FILES / name
        for initial in (True, False):
            E.RAISE_CONTROLLER_VALUE_ERRORS = initial
            for arg in (path, str(path), StrSub(path)):
                with OpenSpy() as spy:
                    obj = read_sunvox_file(arg)
                expect(type(obj).__name__ in ("Synth", "Project"), "result type")
                expect(len(spy.opened) == 1, "exactly one file opened")
                expect(spy.modes == [("rb",)], "open mode %r" % (spy.modes,))
                f = spy.opened[0]
                expect(f.closed and f.close_calls == 1, name + ": not closed once")
                expect(f.seen_flags == {False}, "flag while loading")
                expect(E.RAISE_CONTROLLER_VALUE_ERRORS is initial, "flag after ok")
            total = f.reads
            step = 1 if total < 300 else 11
            for n in list(range(0, total, step)) + [total - 1]:
                with OpenSpy(fail_at=n) as spy:
                    res = outcome(lambda: read_sunvox_file(path))
                expect(res == "exc:OSError", "%s read %d -> %s" % (name, n, res))
                f = spy.opened[0]
                expect(
                    f.closed and f.close_calls == 1,
                    "%s: file left open after fault at read %d" % (name, n),
                )
                expect(
                    E.RAISE_CONTROLLER_VALUE_ERRORS is initial,
                    "%s: flag wrong after fault at read %d" % (name, n),
                )
            # close() itself failing: error propagates, flag still restored
            with OpenSpy(fail_close=True) as spy:
                try:
                    read_sunvox_file(path)
                except OSError as e:
                    expect(str(e) == "injected at close", "close error text")
                else:
                    expect(False, "close error swallowed")
            expect(spy.opened[0].close_calls == 1, "close called once")
            expect(E.RAISE_CONTROLLER_VALUE_ERRORS is initial, "flag after close err")
            # read fault followed by close fault: close error wins, chained
            with OpenSpy(fail_at=2, fail_close=True) as spy:
                try:
                    read_sunvox_file(path)
                except OSError as e:
                    expect(str(e) == "injected at close", "close error wins")
                    expect(
                        isinstance(e.__context__, OSError)
                        and "read 2" in str(e.__context__),
                        "read error kept as context",
                    )
            expect(E.RAISE_CONTROLLER_VALUE_ERRORS is initial, "flag after 2 errs")


def check_open_failures():
    with tempfile.TemporaryDirectory() as d:
        for initial in (True, False):
            E.RAISE_CONTROLLER_VALUE_ERRORS = initial
            for bad, exc in [
                (Path(d) / "missing.sunvox", FileNotFoundError),
                (str(Path(d) / "missing.sunvox"), FileNotFoundError),
                (Path(d), IsADirectoryError),
                ("", (IsADirectoryError, FileNotFoundError, PermissionError)),
            ]:
                try:
                    read_sunvox_file(bad)
                except exc:
                    pass
                else:
                    expect(False, "open failure not raised for %r" % (bad,))
                expect(E.RAISE_CONTROLLER_VALUE_ERRORS is initial, "flag after open err")
            # not a path and not a file
            for junk in (None, 5, b"bytes-are-not-a-path"):
                res = outcome(lambda: read_sunvox_file(junk))
                expect(res.startswith("exc:"), "junk input accepted: %r" % (junk,))
                expect(E.RAISE_CONTROLLER_VALUE_ERRORS is initial, "flag after junk")


def check_caller_owned_files():
    for name in FIXTURES:
        path = FILES / name
        data = path.read_bytes()
        for initial in (True, False):
            E.RAISE_CONTROLLER_VALUE_ERRORS = initial
            with open(path, "rb") as f:
                with OpenSpy() as spy:
                    read_sunvox_file(f)
                expect(not f.closed, "caller's file was closed")
                expect(spy.opened == [], "library opened a file on its own")
            b = io.BytesIO(data)
            read_sunvox_file(b)
            expect(not b.closed, "caller's BytesIO was closed")
            ff = FaultyFile(io.BytesIO(data), fail_at=3)
            expect(outcome(lambda: read_sunvox_file(ff)) == "exc:OSError", "fault")
            expect(not ff.closed and ff.close_calls == 0, "caller's file closed/err")
            expect(E.RAISE_CONTROLLER_VALUE_ERRORS is initial, "flag/caller-owned")


def check_truncations():
    digest = hashlib.sha256()
    with tempfile.TemporaryDirectory() as d:
        for name in FIXTURES[:4]:
            data = (FILES / name).read_bytes()
            cuts = set(chunk_boundaries(data))
            cuts.update(range(0, len(data), 97))
            cuts.update((1, 3, 4, 7, 9, len(data) - 1))
            for k in sorted(c for c in cuts if 0 <= c <= len(data)):
                p = Path(d) / "t.bin"
                p.write_bytes(data[:k])
                for initial in (True, False):
                    E.RAISE_CONTROLLER_VALUE_ERRORS = initial
                    with OpenSpy() as spy:
                        res_path = outcome(lambda: read_sunvox_file(p))
                    f = spy.opened[0]
                    expect(f.closed, "%s cut %d: path file left open" % (name, k))
                    expect(
                        E.RAISE_CONTROLLER_VALUE_ERRORS is initial,
                        "%s cut %d: flag (path) %s" % (name, k, res_path),
                    )
                    res_mem = outcome(lambda: read_sunvox_file(io.BytesIO(data[:k])))
                    expect(E.RAISE_CONTROLLER_VALUE_ERRORS is initial, "flag (mem)")
                    expect(res_path == res_mem, "path/mem outcomes differ at %d" % k)
                digest.update(("%s:%d:%s\n" % (name, k, res_path)).encode())
    return digest.hexdigest()


def check_chunk_boundary_faults():
    """Raise from the chunk iterator at every chunk index, nested loads too."""
    orig_chunks = R.chunks
    for name in ("metamodule.sunsynth", "sampler.sunsynth", "amplifier.sunsynth"):
        path = FILES / name
        counter = {"n": 0, "fail": None, "depth_seen": set()}

        def counting_chunks(f):
            for item in orig_chunks(f):
                n = counter["n"]
                counter["n"] += 1
                counter["depth_seen"].add(type(f).__name__)
                if n == counter["fail"]:
                    raise OSError("injected at chunk %d" % n)
                yield item

        R.chunks = counting_chunks
        try:
            read_sunvox_file(path)
            total = counter["n"]
            if name != "amplifier.sunsynth":
                expect(
                    "BytesIO" in counter["depth_seen"],
                    name + ": nested load did not go through reader",
                )
            for initial in (True, False):
                for n in range(total):
                    E.RAISE_CONTROLLER_VALUE_ERRORS = initial
                    counter.update(n=0, fail=n)
                    with OpenSpy() as spy:
                        res = outcome(lambda: read_sunvox_file(path))
                    expect(res == "exc:OSError", "%s chunk %d: %s" % (name, n, res))
                    expect(spy.opened[0].closed, "%s chunk %d: open file" % (name, n))
                    expect(
                        E.RAISE_CONTROLLER_VALUE_ERRORS is initial,
                        "%s: flag wrong after fault at chunk %d" % (name, n),
                    )
        finally:
            R.chunks = orig_chunks


class ListHandler(logging.Handler):
    def __init__(self):
        super().__init__(level=logging.DEBUG)
        self.records = []

    def emit(self, record):
        self.records.append((record.levelname, record.getMessage()))


def make_iff(*chunks_):
    b = io.BytesIO()
    for name, data in chunks_:
        write_chunk(b, name, data)
    b.seek(0)
    return b


def check_process_chunks():
    handler = ListHandler()
    R.log.addHandler(handler)
    old_level = R.log.level
    R.log.setLevel(logging.DEBUG)
    try:

        class Demo(Reader):
            process_NOPE = "not callable"

            def __init__(self, f):
                super().__init__(f)
                self.seen = []

            def process_AB(self, data):
                self.seen.append(("AB", data))

            def process_ABCD(self, data):
                self.seen.append(("ABCD", data))

            def process_STOP(self, data):
                self.seen.append(("STOP", data))
                self.object = "stopped"
                raise ReaderFinished()

            def process_FAIL(self, data):
                raise KeyError("fail")

        # normal dispatch, padded names stripped, unknown + non-callable warned
        r = Demo(make_iff((b"AB", b"1"), (b"ABCD", b"22"), (b"XYZ", b""), (b"NOPE", b"n"), (b"PAMD", b"p")))
        try:
            r.process_chunks()
        except RuntimeError as e:
            expect(str(e) == "Reached end of file without a handler", "EOF text")
        else:
            expect(False, "base process_end_of_file should raise")
        expect(r.seen == [("AB", b"1"), ("ABCD", b"22")], "dispatch %r" % (r.seen,))
        expect(
            handler.records
            == [
                ("DEBUG", "-> Demo.process_AB"),
                ("DEBUG", "-> Demo.process_ABCD"),
                ("WARNING", "no Demo.process_XYZ method"),
                ("WARNING", "no Demo.process_NOPE method"),
                ("DEBUG", "-> Demo.process_PAMD"),
            ],
            "log records %r" % (handler.records,),
        )
        del handler.records[:]

        # ReaderFinished from a handler stops quietly; later chunks unread
        f = make_iff((b"AB", b"1"), (b"STOP", b"s"), (b"ABCD", b"never"))
        r = Demo(f)
        expect(r.object == "stopped", "object property drives process_chunks")
        expect(r.seen == [("AB", b"1"), ("STOP", b"s")], "stop dispatch")
        expect(f.read(4) == b"ABCD", "file position after ReaderFinished")
        try:
            r.object = "again"
        except AttributeError as e:
            expect(str(e) == "object was already set", "setter text")
        else:
            expect(False, "object set twice")

        # ReaderFinished from process_end_of_file is also swallowed
        class Ends(Demo):
            def process_end_of_file(self):
                self.seen.append("eof")
                raise ReaderFinished()

        r = Ends(make_iff((b"AB", b"")))
        expect(r.process_chunks() is None, "process_chunks returns None")
        expect(r.seen == [("AB", b""), "eof"], "eof handler order")
        expect(r.object is None, "object stays None")

        # process_end_of_file that returns normally
        class Quiet(Demo):
            def process_end_of_file(self):
                self.seen.append("eof")

        r = Quiet(make_iff())
        r.process_chunks()
        expect(r.seen == ["eof"], "empty file reaches eof handler")

        # other exceptions propagate unchanged
        r = Demo(make_iff((b"AB", b""), (b"FAIL", b""), (b"AB", b"")))
        try:
            r.process_chunks()
        except KeyError as e:
            expect(e.args == ("fail",), "handler exception args")
        else:
            expect(False, "handler exception swallowed")
        expect(r.seen == [("AB", b"")], "stopped at failing handler")

        # rewind helper positions before the chunk header
        f = make_iff((b"AB", b"xyz"), (b"ABCD", b""))
        list_reader = Demo(f)
        f.seek(8 + 3)
        list_reader.rewind(b"xyz")
        expect(f.tell() == 0, "rewind")

        # non-ASCII chunk names are decoded with rv.ENCODING before lookup
        del handler.records[:]
        r = Quiet(make_iff((b"\xc3\xa9", b"")))
        r.process_chunks()
        expect(
            handler.records == [("WARNING", "no Quiet.process_\u00e9 method")],
            "non-ascii name %r" % (handler.records,),
        )
        r = Quiet(make_iff((b"\xe9 \xe9", b"")))
        try:
            r.process_chunks()
        except UnicodeDecodeError:
            pass
        else:
            expect(False, "undecodable chunk name accepted")
        expect(r.seen == [], "eof handler must not run after decode error")
    finally:
        R.log.removeHandler(handler)
        R.log.setLevel(old_level)


def check_range_errors_on_read_switch():
    """The value installed during a load is the reader module's constant."""
    data = bytearray((FILES / "amplifier.sunsynth").read_bytes())
    i = data.index(b"CVAL")
    data[i + 8 : i + 12] = struct.pack("<I", 0x7FFFFFF)
    data = bytes(data)
    saved = R.RAISE_RANGE_ERRORS_ON_READ
    try:
        for initial in (True, False):
            E.RAISE_CONTROLLER_VALUE_ERRORS = initial
            R.RAISE_RANGE_ERRORS_ON_READ = False
            expect(outcome(lambda: read_sunvox_file(io.BytesIO(data))) == "ok:Synth", "lenient")
            expect(E.RAISE_CONTROLLER_VALUE_ERRORS is initial, "flag lenient")
            R.RAISE_RANGE_ERRORS_ON_READ = True
            expect(
                outcome(lambda: read_sunvox_file(io.BytesIO(data)))
                == "exc:ControllerValueError",
                "strict-on-read should raise",
            )
            expect(E.RAISE_CONTROLLER_VALUE_ERRORS is initial, "flag strict-on-read")
    finally:
        R.RAISE_RANGE_ERRORS_ON_READ = saved


EXPECTED_TRUNCATION_DIGEST = None  # filled in below


def main():
    saved = E.RAISE_CONTROLLER_VALUE_ERRORS
    logging.disable(logging.NOTSET)
    R.log.propagate = False
    try:
        check_process_chunks()
        logging.disable(logging.CRITICAL)
        check_path_loads()
        check_open_failures()
        check_caller_owned_files()
        digest = check_truncations()
        check_chunk_boundary_faults()
        check_range_errors_on_read_switch()
    finally:
        E.RAISE_CONTROLLER_VALUE_ERRORS = saved
        logging.disable(logging.NOTSET)
    if "--print-digest" in sys.argv:
        print(digest)
    expect(
        digest == EXPECTED_TRUNCATION_DIGEST,
        "truncation outcomes changed: %s" % digest,
    )
    expect(Path.open.__module__ == "pathlib", "Path.open not restored by check")
    if failures:
        for f in sorted(set(failures))[:40]:
            print("FAIL:", f)
        print("FAIL (%d)" % len(failures))
        sys.exit(1)
    print("PASS")


EXPECTED_TRUNCATION_DIGEST = "9e4b1cccb8fae5de26970f020f6c83c820a3a9f83da55d6902c7498a1750e4fa"

if __name__ == "__main__":
    main()
