"""Behaviour check for property C15 (MetaModule embedded project and
user-defined controllers).

Exercises: MetaModule.recompute_controller_attachment,
MetaModule.specialized_iff_chunks, MetaModule.MappingArray (bytes setter,
encoded_values), MetaModule.load_chunk / load_project / load_label,
MappingArray.update_user_defined_controllers, the alias attribute protocol,
ModuleReader.process_STYP / process_SEND (including surplus CVALs and the
exact order of log records), Synth.chunks and Project.chunks.

Run as:
  cd <root> && PYTHONPATH=<root>/src/python /venv/bin/python check.py
Prints PASS and exits 0 when everything behaves as expected.
"""
import io
import logging
import struct
import sys

import rv
from rv.api import Project, Synth, m, read_sunvox_file
from rv.errors import EmptySynthError
from rv.lib.iff import write_chunk
from rv.modules.metamodule import (
    MAX_USER_DEFINED_CONTROLLERS,
    MetaModule,
    UserDefined,
    UserDefinedProxy,
)
from rv.readers.module import ModuleReader

FAILURES = []
CHECKS = 0


def check(cond, msg):
    global CHECKS
    CHECKS += 1
    if not cond:
        FAILURES.append(msg)


def eq(a, b, msg):
    check(a == b, f"{msg}: {a!r} != {b!r}")


def u32(n):
    return struct.pack("<I", n)


def i32(n):
    return struct.pack("<i", n)


def ud_values(mod, count=MAX_USER_DEFINED_CONTROLLERS):
    return [mod.controller_values[f"user_defined_{i + 1}"] for i in range(count)]


def attach_flags(mod):
    return [c.attached(mod) for c in mod.user_defined]


def mapping_pairs(mod):
    return [(x.module, x.controller) for x in mod.mappings.values]


def write_chunks(chunk_list):
    f = io.BytesIO()
    for name, data in chunk_list:
        write_chunk(f, name, data)
    return f.getvalue()


# Target controllers of various kinds, as (module factory, controller index):
#   Amplifier: 0 volume Range(0,1024); 1 balance Range(-128,128);
#              3 inverse bool; 8 bipolar_dc_offset Range(-16384,16384)
#   Lfo:       1 type enum; 4 waveform enum; 9 generator bool
#   Generator: 0 volume; 1 waveform enum
def inner_project(extra=None):
    p = Project()
    p.name = "inner"
    amp = p.new_module(m.Amplifier, volume=300, balance=-100, inverse=True)
    amp.bipolar_dc_offset = -5000
    lfo = p.new_module(m.Lfo, generator=True)
    lfo.waveform = m.Lfo.Waveform.square
    gen = p.new_module(m.Generator, volume=77)
    gen >> amp >> p.output
    lfo >> p.output
    if extra is not None:
        p.attach_module(extra)
        extra >> p.output
    return p


MAPPINGS = [
    (1, 0),  # amp.volume
    (1, 1),  # amp.balance (negative range)
    (1, 3),  # amp.inverse (bool)
    (1, 8),  # amp.bipolar_dc_offset
    (2, 1),  # lfo.type (enum)
    (2, 4),  # lfo.waveform (enum)
    (2, 9),  # lfo.generator (bool)
    (3, 0),  # gen.volume
    (3, 1),  # gen.waveform (enum)
    (0, 0),  # module 0: ignored
    (9, 0),  # module out of range: ignored
    (1, 50),  # controller out of range: ignored
]
LABELS = {
    0: "Vol",
    1: "Balance / pan",
    3: "9 lives",
    5: "héllo wörld",
    6: "",
    8: "---",
    11: "last mapped",
    40: "far away",
    95: "very last",
}


def build_metamodule(count, extra=None, name=None):
    mm = MetaModule(project=inner_project(extra))
    if name:
        mm.name = name
    mm.user_defined_controllers = count
    for i, pair in enumerate(MAPPINGS):
        mm.mappings.values[i] = MetaModule.Mapping(pair)
    for i, label in LABELS.items():
        mm.user_defined[i].label = label
    mm.update_user_defined_controllers()
    return mm


def expected_values_after_update(count):
    """What update_user_defined_controllers copies for the first `count`."""
    W = m.Lfo.Waveform
    src = [
        300,
        -100,
        True,
        -5000,
        m.Lfo.Type.amplitude,
        W.square,
        True,
        77,
        m.Generator.Waveform.triangle,
        0,
        0,
        0,
    ]
    out = []
    for i in range(MAX_USER_DEFINED_CONTROLLERS):
        out.append(src[i] if i < min(count, 9) else 0)
    return out


def describe(mod):
    """A comparable description of a MetaModule (recursive)."""
    count = mod.user_defined_controllers
    d = {
        "count": count,
        "attached": attach_flags(mod),
        "mappings": mapping_pairs(mod),
        "values": ud_values(mod),
        "labels": [c.label for c in mod.user_defined],
        "types": [repr(c.value_type) for c in mod.user_defined],
        "aliases": mod.user_defined_aliases,
        "fixed": [mod.volume, mod.input_module, mod.play_patterns, mod.bpm, mod.tpl],
        "name": mod.name,
        "project_name": mod.project.name,
        "modules": [],
    }
    for sub in mod.project.modules:
        if sub is None:
            d["modules"].append(None)
        elif isinstance(sub, MetaModule):
            d["modules"].append(("MetaModule", sub.in_links, describe(sub)))
        else:
            d["modules"].append(
                (sub.mtype, sub.name, list(sub.in_links), dict(sub.controller_values))
            )
    return d


def expected_labels_after_load(count):
    return [
        LABELS.get(i) if i < count else None
        for i in range(MAX_USER_DEFINED_CONTROLLERS)
    ]


# --------------------------------------------------------------------------
# 1. attach state for every count, and odd counts poked in directly
# --------------------------------------------------------------------------
def test_attachment():
    mm = MetaModule()
    eq(len(mm.user_defined), 96, "96 user defined controllers")
    eq(attach_flags(mm), [False] * 96, "fresh: none attached")
    for n in list(range(0, 97)) + [50, 3, 96, 0, 1]:
        mm.user_defined_controllers = n
        eq(mm.user_defined_controllers, n, f"count {n} stored")
        eq(attach_flags(mm), [True] * n + [False] * (96 - n), f"attach flags {n}")
        eq(
            [k for k, c in mm.controllers.items() if c.attached(mm)][5:],
            [f"user_defined_{i + 1}" for i in range(n)],
            f"attached controller names {n}",
        )
        eq(len(mm.user_defined_aliases), n, f"aliases length {n}")
    # clamping by the option
    mm.user_defined_controllers = 500
    eq(mm.user_defined_controllers, 96, "clamped high")
    eq(attach_flags(mm), [True] * 96, "clamped high flags")
    mm.user_defined_controllers = -4
    eq(mm.user_defined_controllers, 0, "clamped low")
    eq(attach_flags(mm), [False] * 96, "clamped low flags")
    mm.user_defined_controllers = True
    eq(attach_flags(mm), [True] + [False] * 95, "bool count")
    # values that bypass the option's clamping (e.g. read from a file)
    for raw, expected in [
        (200, [True] * 96),
        (97, [True] * 96),
        (-3, [False] * 96),
        (-200, [False] * 96),
        (10, [True] * 10 + [False] * 86),
    ]:
        mm.option_values["user_defined_controllers"] = raw
        mm.recompute_controller_attachment()
        eq(attach_flags(mm), expected, f"raw count {raw}")
    # attach/detach are called in index order, attach first
    calls = []

    class Spy(UserDefined):
        def attach(self, instance):
            calls.append(("a", self.number - 6))
            super().attach(instance)

        def detach(self, instance):
            calls.append(("d", self.number - 6))
            super().detach(instance)

    mm2 = MetaModule()
    mm2.user_defined[:] = [Spy(i) for i in range(96)]
    mm2.option_values["user_defined_controllers"] = 4
    mm2.recompute_controller_attachment()
    eq(
        calls,
        [("a", i) for i in range(4)] + [("d", i) for i in range(4, 96)],
        "attach/detach call order",
    )
    # kwarg constructor path
    mm3 = MetaModule(user_defined_controllers=7)
    eq(attach_flags(mm3), [True] * 7 + [False] * 89, "kwarg count")


# --------------------------------------------------------------------------
# 2. MappingArray
# --------------------------------------------------------------------------
def test_mapping_array():
    arr = MetaModule.MappingArray()
    eq(len(arr.values), 96, "default length")
    eq(arr.encoded_values, [0] * 192, "default encoded")
    eq(arr.bytes, b"\0" * 384, "default bytes")
    check(arr.python_type is MetaModule.Mapping, "python_type")
    eq(arr.chnm, 1, "chnm")
    # short data pads
    arr.bytes = struct.pack("<HHHH", 1, 2, 3, 4)
    eq(len(arr.values), 96, "padded length")
    eq(arr.encoded_values[:6], [1, 2, 3, 4, 0, 0], "padded encoded")
    check(
        all(isinstance(v, MetaModule.Mapping) for v in arr.values), "all Mapping objs"
    )
    check(len({id(v) for v in arr.values}) == 96, "padding objects are distinct")
    # trailing partial element ignored
    arr.bytes = struct.pack("<HHH", 7, 8, 9)
    eq(arr.encoded_values[:4], [7, 8, 0, 0], "partial element ignored")
    eq(len(arr.values), 96, "partial length")
    # empty
    arr.bytes = b""
    eq(arr.encoded_values, [0] * 192, "empty data")
    # exact
    data = struct.pack("<192H", *range(1000, 1192))
    arr.bytes = data
    eq(arr.bytes, data, "exact round trip")
    eq(arr.encoded_values, list(range(1000, 1192)), "exact encoded")
    eq(list(arr.chunks()), [(b"CHNM", u32(1)), (b"CHDT", data)], "chunks()")
    # too long: kept as is, cannot be packed again
    arr.bytes = struct.pack("<200H", *range(200))
    eq(len(arr.values), 100, "long length kept")
    eq(arr.encoded_values, list(range(200)), "long encoded")
    try:
        arr.bytes
    except struct.error:
        check(True, "")
    else:
        check(False, "long mapping array should not pack")
    arr.reset()
    eq(arr.encoded_values, [0] * 192, "reset")
    # bytearray / memoryview input
    arr.bytes = bytearray(struct.pack("<HH", 5, 6))
    eq(arr.encoded_values[:4], [5, 6, 0, 0], "bytearray input")
    # max values
    arr.bytes = struct.pack("<HH", 65535, 65535)
    eq(arr.encoded_values[:2], [65535, 65535], "max u16")


# --------------------------------------------------------------------------
# 3. exact chunk stream of specialized_iff_chunks
# --------------------------------------------------------------------------
def test_specialized_chunks():
    for count in (0, 1, 2, 4, 6, 7, 9, 12, 41, 96):
        mm = build_metamodule(count)
        got = list(mm.specialized_iff_chunks())
        expected = [
            (b"CHNM", u32(0)),
            (b"CHDT", mm.project.read()),
            (b"CHNM", u32(1)),
            (b"CHDT", struct.pack("<192H", *mm.mappings.encoded_values)),
            (b"CHNM", u32(2)),
            (b"CHDT", bytes([count, 0, 0, 0, 0, 0, 0, 0])),
        ]
        for i in sorted(LABELS):
            if i < count:
                expected.append((b"CHNM", u32(8 + i)))
                expected.append((b"CHDT", LABELS[i].encode(rv.ENCODING) + b"\0"))
        eq(got, expected, f"specialized chunks count={count}")
        check(all(type(c) is tuple and len(c) == 2 for c in got), "chunk tuples")
        eq(mm.chnk, 104, "chnk")
    # label None on an attached controller is skipped, detached label skipped
    mm = MetaModule(user_defined_controllers=3)
    mm.user_defined[1].label = "b"
    mm.user_defined[3].label = "d"
    got = list(mm.specialized_iff_chunks())
    eq(got[6:], [(b"CHNM", u32(9)), (b"CHDT", b"b\0")], "only attached labels")
    # it is a lazy generator: project is serialised when reached
    gen = mm.specialized_iff_chunks()
    eq(next(gen), (b"CHNM", u32(0)), "first chunk")
    mm.project.name = "changed late"
    check(b"changed late" in next(gen)[1], "project read lazily")


# --------------------------------------------------------------------------
# 4. save/load, stand-alone and in-project, nested
# --------------------------------------------------------------------------
def roundtrip_synth(mm):
    data = Synth(mm).read()
    synth = read_sunvox_file(io.BytesIO(data))
    return data, synth.module


def test_roundtrip_counts():
    for count in (0, 1, 2, 3, 5, 9, 10, 12, 13, 41, 95, 96):
        mm = build_metamodule(count)
        eq(ud_values(mm), expected_values_after_update(count), f"update vals {count}")
        data, loaded = roundtrip_synth(mm)
        eq(loaded.user_defined_controllers, count, f"loaded count {count}")
        eq(attach_flags(loaded), [True] * count + [False] * (96 - count), "flags")
        eq(mapping_pairs(loaded), mapping_pairs(mm), f"mappings {count}")
        eq(
            [c.label for c in loaded.user_defined],
            expected_labels_after_load(count),
            f"labels {count}",
        )
        eq(ud_values(loaded), expected_values_after_update(count), f"values {count}")
        eq(
            [repr(c.value_type) for c in loaded.user_defined],
            [repr(c.value_type) for c in mm.user_defined],
            f"value types {count}",
        )
        eq(
            [c.default for c in loaded.user_defined],
            [c.default for c in mm.user_defined],
            f"defaults {count}",
        )
        eq(
            set(loaded.controllers_loaded)
            - {"volume", "input_module", "play_patterns", "bpm", "tpl"},
            {f"user_defined_{i + 1}" for i in range(count)}
            | {f"user_defined_{i + 1}" for i in range(96)},
            f"controllers_loaded {count}",
        )
        data2 = Synth(loaded).read()
        eq(data2, data, f"synth bytes stable {count}")
        d1 = describe(loaded)
        _, again = roundtrip_synth(loaded)
        eq(describe(again), d1, f"describe stable {count}")
        check(loaded.project.metamodule is None, "loaded project has no back link")
        # clone goes through the same path
        eq(describe(mm.clone()), d1, f"clone {count}")


def test_changed_values_roundtrip():
    mm = build_metamodule(9)
    mm.user_defined_1 = 1000
    mm.user_defined_2 = 0
    mm.user_defined_3 = False
    mm.user_defined_4 = 16384
    mm.user_defined_5 = m.Lfo.Type.panning
    mm.user_defined_6 = m.Lfo.Waveform.saw
    mm.user_defined_7 = False
    mm.user_defined_8 = 0
    mm.user_defined_9 = m.Generator.Waveform.noise
    amp, lfo, gen = mm.project.modules[1:4]
    eq(
        [amp.volume, amp.balance, amp.inverse, amp.bipolar_dc_offset],
        [1000, 0 - 128, False, 16384 - 16384],
        "propagation into amplifier (negative ranges get min added)",
    )
    eq(
        [lfo.type, lfo.waveform, lfo.generator],
        [m.Lfo.Type.panning, m.Lfo.Waveform.saw, False],
        "lfo",
    )
    eq([gen.volume, gen.waveform], [0, m.Generator.Waveform.noise], "generator")
    # embedded -> metamodule direction (controller.number is matched)
    amp.volume = 5  # number 1 -> matches mapping (1, 1) -> user_defined_2
    eq(mm.user_defined_2, 5, "embedded change reflected")
    eq(mm.user_defined_1, 1000, "other one untouched")
    mm.user_defined_2 = 100
    eq(amp.balance, 100 - 128, "negative range offset applied on the way down")
    try:
        mm.user_defined_2 = -128
    except Exception as e:
        eq(type(e).__name__, "ControllerValueError", "offset pushes out of range")
    else:
        check(False, "expected ControllerValueError")
    eq(mm.user_defined_2, -128, "outer value was stored before the failure")
    eq(amp.balance, -28, "embedded value unchanged by the failure")
    mm.user_defined_2 = 100
    data, loaded = roundtrip_synth(mm)
    eq(
        ud_values(loaded, 9),
        [
            1000,
            100,
            False,
            16384,
            m.Lfo.Type.panning,
            m.Lfo.Waveform.saw,
            False,
            0,
            m.Generator.Waveform.noise,
        ],
        "changed values survive",
    )
    lamp = loaded.project.modules[1]
    eq(lamp.balance, amp.balance, "embedded balance survives")
    eq(Synth(loaded).read(), data, "bytes stable after changes")
    # mid-way values
    mm.user_defined_1 = 512
    eq(mm.project.modules[1].volume, 512, "plain range passes through")


def nest(depth, count):
    """A MetaModule nested `depth` levels deep."""
    mm = build_metamodule(count, name=f"level{depth}")
    for level in range(depth - 1, -1, -1):
        inner = mm
        mm = build_metamodule((count + level * 7) % 97, extra=inner, name=f"level{level}")
        # map one controller of the outer onto the nested MetaModule (module 4)
        mm.mappings.values[12] = MetaModule.Mapping((4, 0))
        mm.mappings.values[13] = MetaModule.Mapping((4, 5))  # its user_defined_1
        mm.update_user_defined_controllers()
    return mm


def test_nested():
    for depth, count in ((1, 2), (2, 14), (3, 96), (3, 0)):
        mm = nest(depth, count)
        data, loaded = roundtrip_synth(mm)
        d = describe(loaded)
        # walk down
        level = loaded
        for lv in range(depth + 1):
            eq(level.name, f"level{lv}", f"nest name {depth}/{lv}")
            expected_count = count if lv == depth else (count + lv * 7) % 97
            eq(level.user_defined_controllers, expected_count, f"nest count {lv}")
            eq(
                attach_flags(level),
                [True] * expected_count + [False] * (96 - expected_count),
                f"nest flags {lv}",
            )
            eq(
                [c.label for c in level.user_defined],
                expected_labels_after_load(expected_count),
                f"nest labels {lv}",
            )
            eq(mapping_pairs(level)[:12], MAPPINGS, f"nest mappings {lv}")
            if lv < depth:
                eq(mapping_pairs(level)[12:14], [(4, 0), (4, 5)], "nest map")
                level = level.project.modules[4]
                check(isinstance(level, MetaModule), "nested is MetaModule")
        eq(Synth(loaded).read(), data, f"nested bytes stable {depth}")
        _, again = roundtrip_synth(loaded)
        eq(describe(again), d, f"nested describe stable {depth}")

        # in-project context
        outer = Project()
        outer.name = "outer"
        outer.attach_module(mm)
        mm >> outer.output
        pdata = outer.read()
        ploaded = read_sunvox_file(io.BytesIO(pdata))
        eq(ploaded.read(), pdata, f"project bytes stable {depth}")
        pm = ploaded.modules[1]
        check(isinstance(pm, MetaModule), "project metamodule")
        dd = describe(pm)
        eq(dd, d, f"in-project equals stand-alone {depth}")
        check(pm.parent is ploaded, "parent")
        cloned = outer.clone()
        eq(describe(cloned.modules[1]), d, "project clone")


# --------------------------------------------------------------------------
# 5. reader details: surplus CVALs, log order, chunk dispatch
# --------------------------------------------------------------------------
class ListHandler(logging.Handler):
    def __init__(self):
        super().__init__(level=logging.DEBUG)
        self.records = []

    def emit(self, record):
        self.records.append((record.levelname, str(record.msg)))


def with_reader_log(fn):
    logger = logging.getLogger("rv.readers.module")
    handler = ListHandler()
    old_level = logger.level
    old_propagate = logger.propagate
    logger.addHandler(handler)
    logger.setLevel(logging.DEBUG)
    logger.propagate = False
    try:
        result = fn()
    finally:
        logger.removeHandler(handler)
        logger.setLevel(old_level)
        logger.propagate = old_propagate
    return result, handler.records


def test_reader_cvals():
    mm = build_metamodule(3)
    chunk_list = list(Synth(mm).chunks())
    # insert surplus CVALs after the last CVAL: MetaModule has 5 + 96 keys
    last_cval = max(i for i, c in enumerate(chunk_list) if c[0] == b"CVAL")
    n_cvals = sum(1 for c in chunk_list if c[0] == b"CVAL")
    eq(n_cvals, 8, "5 fixed + 3 user CVALs written")
    extra = [(b"CVAL", i32(1000 + i)) for i in range(100)]
    patched = chunk_list[: last_cval + 1] + extra + chunk_list[last_cval + 1 :]
    data = write_chunks(patched)

    synth, records = with_reader_log(lambda: read_sunvox_file(io.BytesIO(data)))
    loaded = synth.module
    total = 8 + 100
    # the embedded project's modules are read (and logged) before the
    # MetaModule's own SEND chunk, so its records are the last ones
    warnings = [r for r in records if r[0] == "WARNING"]
    all_debugs = [r for r in records if r[0] == "DEBUG" and r[1].startswith("Setting")]
    eq(len(all_debugs), 101 + 9 + 13 + 10, "number of Setting records")
    debugs = all_debugs[-101:]
    first_own = records.index(debugs[0])
    eq(records[first_own - len(warnings) : first_own], warnings, "warnings adjacent")
    eq(
        warnings,
        [
            (
                "WARNING",
                f"Unsupported controller at index {i} with raw value {1000 + i - 8}",
            )
            for i in range(total - 1, 100, -1)
        ],
        "surplus warnings, highest index first",
    )
    keys = ["volume", "input_module", "play_patterns", "bpm", "tpl"] + [
        f"user_defined_{i + 1}" for i in range(96)
    ]
    eq([d[1].split()[1] for d in debugs], keys[::-1], "set order is descending")
    # warnings come before every "Setting" record
    eq(records[first_own:], debugs, "nothing else after the warnings")
    eq(debugs[-1][1], "Setting volume from raw 256", "debug text")
    eq(debugs[0][1], f"Setting user_defined_96 from raw {1000 + 100 - 8}", "text 2")
    # detached user controllers got raw values too (Range(0, 44100) default type)
    eq(loaded.controller_values["user_defined_96"], 1092, "detached value set")
    eq(loaded.controller_values["user_defined_4"], 1000, "first surplus value")
    eq(ud_values(loaded, 3), [300, -100, True], "attached values")
    eq(len(loaded.controllers_loaded), 101, "all loaded")

    # fewer CVALs than keys, plain module
    amp = m.Amplifier(volume=9, balance=-3)
    chunk_list = [c for c in Synth(amp).chunks()]
    cv = [i for i, c in enumerate(chunk_list) if c[0] == b"CVAL"]
    truncated = [c for i, c in enumerate(chunk_list) if i not in cv[2:]]
    synth, records = with_reader_log(
        lambda: read_sunvox_file(io.BytesIO(write_chunks(truncated)))
    )
    eq(synth.module.volume, 9, "truncated cvals volume")
    eq(synth.module.balance, -3, "truncated cvals balance")
    eq(
        [r[1] for r in records if r[1].startswith("Setting")],
        ["Setting balance from raw 125", "Setting volume from raw 9"],
        "two settings, descending",
    )
    eq([r for r in records if r[0] == "WARNING"], [], "no warnings")
    # more CVALs than a plain module has controllers
    surplus = chunk_list[: cv[-1] + 1] + [(b"CVAL", i32(-1))] + chunk_list[cv[-1] + 1 :]
    synth, records = with_reader_log(
        lambda: read_sunvox_file(io.BytesIO(write_chunks(surplus)))
    )
    eq(
        [r[1] for r in records if r[0] == "WARNING"],
        ["Unsupported controller at index 9 with raw value -1"],
        "one surplus warning",
    )
    eq(synth.module.bipolar_dc_offset, 0, "last real controller still set")
    # no CVAL at all
    none = [c for c in chunk_list if c[0] != b"CVAL"]
    synth, records = with_reader_log(
        lambda: read_sunvox_file(io.BytesIO(write_chunks(none)))
    )
    eq([r for r in records if r[1].startswith("Setting")], [], "no settings")
    eq(synth.module.volume, 256, "defaults kept")

    # _controller_keys of the reader
    f = io.BytesIO(write_chunks(list(Synth(build_metamodule(2)).chunks())[2:]))
    reader = ModuleReader(f, 1)
    obj = reader.object
    check(isinstance(obj, MetaModule), "ModuleReader builds MetaModule")
    eq(reader._controller_keys, keys, "reader controller keys")
    check(isinstance(reader._controller_keys, list), "keys is a list")
    f = io.BytesIO(write_chunks(list(Synth(m.Amplifier()).chunks())[2:]))
    reader = ModuleReader(f, 1)
    reader.object
    eq(reader._controller_keys, list(m.Amplifier.controllers), "amp keys")


def test_load_chunk_dispatch():
    from rv.modules.module import Chunk

    mm = MetaModule()

    def chunk(chnm, chdt):
        c = Chunk()
        c.chnm = chnm
        c.chdt = chdt
        return c

    # labels: NUL termination handling
    mm.load_chunk(chunk(8, b"abc\0def\0"))
    eq(mm.user_defined[0].label, "abc", "label cut at first NUL")
    mm.load_chunk(chunk(9, b"no-nul"))
    eq(mm.user_defined[1].label, "no-nul", "label without NUL")
    mm.load_chunk(chunk(10, b"\0"))
    eq(mm.user_defined[2].label, "", "empty label")
    mm.load_chunk(chunk(103, b"last\0"))
    eq(mm.user_defined[95].label, "last", "last label")
    mm.load_chunk(chunk(11, "hé\0".encode(rv.ENCODING)))
    eq(mm.user_defined[3].label, "hé", "encoded label")
    try:
        mm.load_chunk(chunk(104, b"x\0"))
    except IndexError:
        check(True, "")
    else:
        check(False, "label index beyond 96 should raise IndexError")
    # chunk numbers 3..7 ignored
    before = describe(mm)
    for n in (3, 4, 5, 6, 7):
        mm.load_chunk(chunk(n, b"\x05\x06\x07\x08"))
    eq(describe(mm), before, "chunks 3..7 are ignored")
    # options chunk: does not trigger attachment by itself
    mm.load_chunk(chunk(2, bytes([4, 1, 1, 0, 1])))
    eq(mm.user_defined_controllers, 4, "options loaded")
    eq(mm.arpeggiator, True, "arp")
    eq(mm.event_output, True, "event_output inverted")
    eq(mm.receive_notes_from_keyboard, True, "recv")
    eq(attach_flags(mm), [False] * 96, "no attachment until recompute")
    mm.recompute_controller_attachment()
    eq(attach_flags(mm), [True] * 4 + [False] * 92, "after recompute")
    eq(mm.user_defined_aliases, ["u_abc", "u_no_nul", None, "u_he"], "aliases")
    # mappings chunk
    mm.mappings.values[50] = MetaModule.Mapping((3, 3))
    mm.load_chunk(chunk(1, struct.pack("<HHHH", 2, 1, 1, 0)))
    eq(mapping_pairs(mm)[:3], [(2, 1), (1, 0), (0, 0)], "mappings loaded")
    eq(mapping_pairs(mm)[50], (0, 0), "mappings reset first")
    eq(len(mm.mappings.values), 96, "mappings padded")
    # project chunk
    inner = inner_project()
    old_project = mm.project
    mm.load_chunk(chunk(0, inner.read()))
    check(mm.project is not old_project, "project replaced")
    eq(mm.project.name, "inner", "project loaded")
    eq([x.mtype for x in mm.project.modules], ["Output", "Amplifier", "LFO", "Generator"], "mods")
    eq(mm.project.read(), inner.read(), "embedded project bytes")
    mm.update_user_defined_controllers()
    eq(ud_values(mm, 4), [m.Lfo.Type.amplitude, 300, 0, 0], "update after load")
    # a synth file as project chunk is accepted as is (reader decides)
    mm.load_project(chunk(0, Synth(m.Amplifier()).read()))
    check(isinstance(mm.project, Synth), "load_project takes whatever the reader returns")


# --------------------------------------------------------------------------
# 6. alias attribute protocol and controller callbacks
# --------------------------------------------------------------------------
def test_aliases():
    mm = build_metamodule(9)
    eq(
        mm.user_defined_aliases,
        [
            "u_vol",
            "u_balance_pan",
            None,
            "u__9_lives",
            None,
            "u_hello_world",
            None,
            None,
            "u__",
        ],
        "aliases",
    )
    eq(mm.u_vol, 300, "alias get")
    mm.u_vol = 11
    eq(mm.user_defined_1, 11, "alias set")
    eq(mm.project.modules[1].volume, 11, "alias set propagates")
    eq(mm.u__9_lives, -5000, "alias with digit")
    mm.u_hello_world = "sin"
    eq(mm.user_defined_6, m.Lfo.Waveform.sin, "enum by name via alias")
    check("u_vol" in dir(mm) and "u__" in dir(mm), "dir has aliases")
    check(None not in dir(mm), "dir has no None")
    check("volume" in dir(mm) and "user_defined_96" in dir(mm), "dir keeps normal")
    for bad in ("u_nope", "nonexistent", "u_far_away", "u_last_mapped"):
        try:
            getattr(mm, bad)
        except AttributeError:
            check(True, "")
        else:
            check(False, f"{bad} should raise AttributeError")
    check(not hasattr(mm, "u_very_last"), "detached label has no alias")
    mm.user_defined_controllers = 96
    eq(mm.u_very_last, 0, "alias appears when attached")
    eq(mm.u_far_away, 0, "alias appears when attached 2")
    mm.some_plain_attribute = 5
    eq(mm.__dict__["some_plain_attribute"], 5, "plain attribute stored")
    eq(mm.user_defined_96, 0, "numbered access")
    try:
        mm.user_defined_96 = 123  # mapping (0, 0): Output has no controllers
    except IndexError:
        check(True, "")
    else:
        check(False, "unmapped user controller raises IndexError on set")
    eq(mm.controller_values["user_defined_96"], 123, "value stored before failure")
    try:
        mm.user_defined_11 = 1  # mapping onto module 9 which does not exist
    except IndexError:
        check(True, "")
    else:
        check(False, "mapping to a missing module raises IndexError on set")
    check(isinstance(MetaModule.user_defined_1, UserDefinedProxy), "class access")
    eq(MetaModule.user_defined_7.index, 6, "proxy index")
    eq(mm.controllers["user_defined_2"].controller(mm), mm.user_defined[1], "ctl")
    eq(mm.user_defined[1].number, 7, "number")
    eq(mm.user_defined[1].name, "user_defined_2", "name")
    eq(
        repr(MetaModule.user_defined_2.instance_value_type(mm)),
        "<Range -128..128>",
        "instance value type",
    )
    # get_raw / set_raw through proxies
    mm.user_defined_2 = 100
    eq(mm.get_raw("user_defined_2"), 228, "raw of negative range")
    mm.set_raw("user_defined_2", 0)
    eq(mm.user_defined_2, -128, "set_raw negative range")
    mm.set_raw("user_defined_5", 1)
    eq(mm.user_defined_5, m.Lfo.Type(1), "set_raw enum")
    mm.set_raw("user_defined_3", 1)
    check(mm.user_defined_3 is True, "set_raw bool")


def test_update_rules():
    # update only touches the first `count` and skips unusable mappings
    mm = build_metamodule(0)
    eq(ud_values(mm), [0] * 96, "count 0 copies nothing")
    eq(repr(mm.user_defined[0].value_type), "<Range 0..44100>", "type untouched")
    mm.user_defined_controllers = 12
    mm.update_user_defined_controllers()
    eq(ud_values(mm), expected_values_after_update(12), "12 copies 9 usable")
    eq(
        [repr(c.value_type) for c in mm.user_defined[9:13]],
        ["<Range 0..44100>"] * 4,
        "ignored mappings keep default type",
    )
    eq(mm.user_defined[1].default, 0, "default copied")
    eq(mm.user_defined[0].default, 256, "default copied 2")
    eq(mm.user_defined[5].default, m.Lfo.Waveform.sin2, "enum default copied")
    # empty module slot
    mm2 = build_metamodule(12)
    mm2.project.modules[2] = None
    mm2.controller_values["user_defined_5"] = "sentinel"
    mm2.update_user_defined_controllers()
    eq(mm2.controller_values["user_defined_5"], "sentinel", "empty slot skipped")
    eq(mm2.user_defined_8, 77, "later mappings still processed")
    # the static method is reachable from the array class
    mm3 = build_metamodule(2)
    mm3.project.modules[1].volume = 42
    MetaModule.MappingArray.update_user_defined_controllers(mm3)
    eq(mm3.user_defined_1, 42, "static update")
    mm3.project.modules[1].balance = 17
    mm3.mappings.update_user_defined_controllers(mm3)
    eq(mm3.user_defined_2, 17, "bound update")


def test_synth_and_project_chunks():
    try:
        list(Synth().chunks())
    except EmptySynthError:
        check(True, "")
    else:
        check(False, "empty synth must raise")
    mm = build_metamodule(5)
    ch = list(Synth(mm).chunks())
    names = [c[0] for c in ch]
    eq(names[:2], [b"SSYN", b"VERS"], "header")
    eq(names.count(b"CVAL"), 10, "cvals")
    cvals = [struct.unpack("<i", c[1])[0] for c in ch if c[0] == b"CVAL"]
    eq(cvals, [256, 1, 0, 125, 6, 300, 28, 1, 11384, 0], "cval raw values")
    cmid = [c[1] for c in ch if c[0] == b"CMID"]
    eq(len(cmid), 1, "one cmid")
    eq(len(cmid[0]), 8 * 10, "cmid size")
    chnk_i = names.index(b"CHNK")
    eq(ch[chnk_i], (b"CHNK", u32(104)), "chnk chunk")
    eq(ch[chnk_i + 1 :][:-1], list(mm.specialized_iff_chunks()), "tail is specialized")
    eq(ch[-1], (b"SEND", b""), "send")
    # a module with no controllers
    out_free = list(Synth(m.Feedback()).chunks())
    check(out_free[-1] == (b"SEND", b""), "feedback send")
    # project writes same CVALs for the metamodule
    p = Project()
    p.attach_module(mm)
    pch = list(p.chunks())
    pc = [struct.unpack("<i", c[1])[0] for c in pch if c[0] == b"CVAL"]
    eq(pc, cvals, "project cvals (output has none)")
    # Synth.chunks calls recompute_controller_attachment itself
    mm.option_values["user_defined_controllers"] = 2
    ch2 = [c for c in Synth(mm).chunks() if c[0] == b"CVAL"]
    eq(len(ch2), 7, "recompute applied by Synth.chunks")


def main():
    tests = [
        test_attachment,
        test_mapping_array,
        test_specialized_chunks,
        test_roundtrip_counts,
        test_changed_values_roundtrip,
        test_nested,
        test_reader_cvals,
        test_load_chunk_dispatch,
        test_aliases,
        test_update_rules,
        test_synth_and_project_chunks,
    ]
    for t in tests:
        try:
            t()
        except Exception as e:  # noqa
            import traceback

            traceback.print_exc()
            FAILURES.append(f"{t.__name__} raised {type(e).__name__}: {e}")
    if FAILURES:
        print(f"FAIL ({len(FAILURES)} of {CHECKS} checks)")
        for f in FAILURES[:40]:
            print("  -", f[:600])
        sys.exit(1)
    print(f"PASS ({CHECKS} checks)")


if __name__ == "__main__":
    main()
