"""C13-2 behaviour check: rv.modules.meta.ModuleMeta.

Run from the repository root:
    PYTHONPATH=<root>/src/python /venv/bin/python check.py

* Compares every registered module class (registry key, controller order /
  numbering / labels / types / defaults, options, generated class and enum
  docstrings) with specs/fileformat.yaml and with a snapshot recorded from the
  unmodified tree (per-class digests of the full description, embedded below).
* Builds ad-hoc classes through ModuleMeta to exercise definition-order
  numbering, inheritance, overriding, aliasing, registry edge cases, the
  "Module" docstring exemption, enum tables and error types.
"""
import hashlib
import json
import pathlib
import sys
from enum import Enum, IntEnum

import yaml

import rv.modules
from rv.controller import CompactRange, Controller, Range
from rv.modules import MODULE_CLASSES, Behavior, Module
from rv.modules.meta import ModuleMeta
from rv.option import Option

HERE = pathlib.Path(__file__).resolve().parent
ROOT = pathlib.Path.cwd()
EXPECTED_DIGESTS = {'real': {'ADSR': '4a235d08d98742e4ce80191f',
          'Amplifier': '75bdfd1da8fa3dc75432ce45',
          'Analog generator': 'c63e9bbd56f6d9c9b14bd2db',
          'Compressor': 'addf6ff74284cbb985e41996',
          'Ctl2Note': '1b4d427461a1455c02905224',
          'DC Blocker': '2d4bdf01822a72e6896ce3b3',
          'Delay': '9ed94def690065768918cc4b',
          'Distortion': '8f8b06142855f9ba1c57975c',
          'DrumSynth': '491a0169283d6010198390c4',
          'EQ': 'e87a738d147381b793f5bc0f',
          'Echo': '4c05bad35b87a6cfda2ef915',
          'FFT': 'd3ab94b9a1ae5fd7c6810d9b',
          'FM': '0fef98ebee627b450eaa38e2',
          'FMX': '264c7b2df255fab250058512',
          'Feedback': '143f75c8c55c4265ca296d98',
          'Filter': '5768142e651efa7a235d93b8',
          'Filter Pro': '38b5d9232e15960b4be2e3bd',
          'Flanger': '0924b6582b2bb21abec80a6c',
          'GPIO': '9ae98fd0fa642d0a618c386a',
          'Generator': 'cc96dbe3b79f29d133306543',
          'Glide': '41100b5dbe1398ed74dec2c3',
          'Input': 'c0225ecbba6312ac515a2492',
          'Kicker': '8594548305b9b50dba379982',
          'LFO': '1535ffdd42f69fcab6295c2b',
          'Loop': '3f4dc73953ecbc4a606ad8b8',
          'MetaModule': '7f4e8c85580bd67bc7deb767',
          'Modulator': '8e753960a82b06627e9c0723',
          'MultiCtl': '8b3179814e8a0dcd34a4924f',
          'MultiSynth': '4f12943c5bf49996fb3829a8',
          'Output': 'f2f901de7274796a85307935',
          'Pitch Detector': 'baf8178ce15d069bcf52a0e0',
          'Pitch shifter': '9e6508cc25fe9adf1b952824',
          'Pitch2Ctl': '984cfd075f12036d5f11b584',
          'Reverb': '868a38b2a4ddd243d00b5885',
          'Sampler': '2c235595f4e8a7760d5e3b9e',
          'Smooth': '4276e5e0b54e855dcb823c4f',
          'Sound2Ctl': '5d26cbfa200e94b7a09e4852',
          'SpectraVoice': 'ad908401f296553aeb6a96c2',
          'Velocity2Ctl': '339429d7e6620a8f643bfc03',
          'Vibrato': '313c211ce7f8c45d8169da97',
          'Vocal filter': 'd392b774ff07b3b44cd1e365',
          'Vorbis player': '0d153f5a49621835ed81d5bc',
          'WaveShaper': 'fb5a0fa8bbfdc159612160d6'},
 'synthetic': {'Again': '0488f3e3c5da18c81a5734dc',
               'Base': 'b9d6ee9b183d5833f90dda25',
               'Child': 'b989ebc49ad6b58182db970c',
               'NoDoc': 'a121376a688b400fa295c0a5'}}
failures = []


def check(cond, msg):
    if not cond:
        failures.append(msg)
        print("FAIL:", msg)


def digest(value):
    return hashlib.sha256(json.dumps(value, sort_keys=True).encode()).hexdigest()[:24]


def describe(cls):
    return {
        "class": cls.__name__,
        "doc": cls.__doc__,
        "controllers": [
            [k, c.name, c.number, c.label, repr(c.value_type), repr(c.default), c._attached]
            for k, c in cls.controllers.items()
        ],
        "options": [[k, repr(o)] for k, o in cls.options.items()],
        "enums": {
            k: v.__doc__
            for k in dir(cls)
            if isinstance(v := getattr(cls, k), type) and issubclass(v, Enum)
        },
    }


def real_modules(snapshot):
    spec = yaml.safe_load((ROOT / "specs" / "fileformat.yaml").read_text())
    mts = spec["module_types"]
    by_type = {(m.get("type") or n): (n, m) for n, m in mts.items()}
    check(len(mts) == 43, "43 module types in spec")
    check(sorted(MODULE_CLASSES) == sorted(by_type), "registry keys == spec type names")
    check(list(MODULE_CLASSES) == [rv.modules.__dict__[n].mtype for n in
          [c.__name__ for c in MODULE_CLASSES.values()]], "registry maps to public classes")
    nctl = nopt = 0
    for mtype, cls in MODULE_CLASSES.items():
        name, m = by_type[mtype]
        check(cls.mtype == mtype and cls.mgroup == m["group"], f"{mtype} header")
        check(issubclass(cls, Module) and type(cls) is ModuleMeta, f"{mtype} metaclass")
        want = [("in_" if k == "in" else k) for d in m.get("controllers") or [] for k in d]
        # hand-written subclasses (Sampler, MetaModule) append a few extras
        # after the generated ones; the spec'd ones must be the exact prefix
        have = list(cls.controllers)
        check(have[: len(want)] == want, f"{mtype} controller order")
        check(have == want or mtype in ("Sampler", "MetaModule"), f"{mtype} has extras")
        nctl += len(want)
        for i, (k, c) in enumerate(cls.controllers.items(), 1):
            check(c is cls.__dict__.get(k, getattr(cls, k)), f"{mtype}.{k} identity")
            check((c.name, c.number) == (k, i), f"{mtype}.{k} name/number")
            check(c.label == k.replace("_", " ").title(), f"{mtype}.{k} label")
        orders = [c._order for c in cls.controllers.values()]
        check(orders == sorted(orders) and len(set(orders)) == len(orders), f"{mtype} _order monotone")
        wanto = sorted(k for d in m.get("options") or [] for k in d)
        check(list(cls.options) == wanto, f"{mtype} options (name order)")
        for k, o in cls.options.items():
            nopt += 1
            check(isinstance(o, Option) and o.name == k and o is getattr(cls, k), f"{mtype}.{k} option")
        snapshot["real"][mtype] = describe(cls)
    check((nctl, nopt) == (502, 49), f"502 controllers / 49 options, got {nctl}/{nopt}")
    # Module itself: registered nowhere, docstring left alone, empty maps
    check(Module not in MODULE_CLASSES.values(), "Module not registered")
    check(Module.controllers == {} and Module.options == {}, "Module has no controllers/options")
    check(not (Module.__doc__ or "").startswith('"'), "Module docstring untouched")


def synthetic(snapshot):
    before = dict(MODULE_CLASSES)
    syn = snapshot["synthetic"]

    Colour = IntEnum("Colour", {"red": 0, "dark_green": 7, "b": -3})
    ns_colour = Colour

    class Base(Module):
        """
        Base doc,
          indented.
        """

        name = mtype = "SynBase"
        mgroup = "Test"
        behaviors = {Behavior.sends_audio, Behavior.receives_notes}
        Colour = ns_colour
        zeta = Controller((0, 256), 128)
        alpha = Controller(ns_colour, ns_colour.red)
        mid_one = Controller(bool, True, attached=False)
        opt_z = Option(name="opt_z", byte=0, bit=0, size=1, default=False)
        opt_a = Option(name="opt_a", byte=0, bit=1, size=1, default=True, inverted=True)

    check(MODULE_CLASSES.get("SynBase") is Base, "registered")
    check(list(Base.controllers) == ["zeta", "alpha", "mid_one"], "definition order, not name order")
    check([c.number for c in Base.controllers.values()] == [1, 2, 3], "numbers from 1")
    check(Base.controllers["mid_one"].label == "Mid One", "label")
    check(list(Base.options) == ["opt_a", "opt_z"], "options in name order")
    check(Base.controllers["zeta"] is Base.zeta and Base.options["opt_a"] is Base.opt_a, "identity")
    syn["Base"] = describe(Base)

    class Module_(Base):  # noqa - subclass adds, overrides and aliases
        name = mtype = "SynChild"
        behaviors = set()
        extra = Controller(CompactRange(-4, 4), 0)
        alpha = Controller((1, 2), 1)  # override: moves to the end
        also_extra = extra
        opt_m = Option(name="opt_m", byte=1, bit=0, size=8, default=3, min=0, max=9)

    Child = Module_
    check(list(Child.controllers) == ["zeta", "mid_one", "also_extra", "extra", "alpha"],
          f"child order {list(Child.controllers)}")
    check(Child.controllers["extra"] is Child.controllers["also_extra"], "alias same object")
    check((Child.extra.name, Child.extra.number) == ("extra", 4), "alias: last name/number wins")
    check(Child.alpha.number == 5 and Child.zeta.number == 1, "child numbering")
    check(Base.alpha.number == 2 and list(Base.controllers) == ["zeta", "alpha", "mid_one"], "base untouched")
    check(list(Child.options) == ["opt_a", "opt_m", "opt_z"], "child options")
    check(Child.Colour.__doc__ == Base.Colour.__doc__, "inherited enum doc")
    check(MODULE_CLASSES.get("SynChild") is Child and MODULE_CLASSES["SynBase"] is Base, "both registered")
    syn["Child"] = describe(Child)

    class Again(Base):
        pass

    check(MODULE_CLASSES["SynBase"] is Again, "subclass re-registers inherited mtype (last wins)")
    check(Again.controllers == Base.controllers and Again.controllers is not Base.controllers, "own dict")
    syn["Again"] = describe(Again)

    # classes named "Module" keep their docstring; falsy mtype is not registered
    n = len(MODULE_CLASSES)
    Plain = ModuleMeta("Module", (), {"__doc__": "keep me", "mtype": "", "x": Controller(bool, False)})
    check(Plain.__doc__ == "keep me" and len(MODULE_CLASSES) == n, "Module-named class exempt / unregistered")
    check(list(Plain.controllers) == ["x"] and Plain.x.number == 1 and Plain.options == {}, "plain maps")
    NoDoc = ModuleMeta("NoDoc", (), {"mtype": None, "mgroup": "G", "behaviors": []})
    check(len(MODULE_CLASSES) == n, "None mtype unregistered")
    syn["NoDoc"] = NoDoc.__doc__
    check(NoDoc.__doc__ == '"None" SunVox G Module\n\n\nBehaviors:\n\nThis module has no controllers.', "nodoc text")

    # error types
    for label, ns, etype in (
        ("missing mtype", {"mgroup": "G", "behaviors": []}, AttributeError),
        ("missing mgroup", {"mtype": "SynErr1", "behaviors": []}, AttributeError),
        ("missing behaviors", {"mtype": "SynErr2", "mgroup": "G"}, AttributeError),
        ("string enum", {"mtype": "SynErr3", "mgroup": "G", "behaviors": [],
                         "E": Enum("E", {"a": "x"})}, ValueError),
        ("unsortable behaviors", {"mtype": "SynErr4", "mgroup": "G", "behaviors": [1, "a"]}, TypeError),
    ):
        try:
            ModuleMeta("Err", (), ns)
        except Exception as e:  # noqa
            check(type(e) is etype, f"{label}: {type(e)!r}")
        else:
            check(False, f"{label}: no error")
    check("SynErr1" in MODULE_CLASSES and "SynErr3" in MODULE_CLASSES, "registration precedes docstring errors")

    for k in list(MODULE_CLASSES):
        if k not in before:
            del MODULE_CLASSES[k]
    MODULE_CLASSES.update(before)
    check(MODULE_CLASSES == before and list(MODULE_CLASSES) == list(before), "registry restored")


def main():
    snapshot = {"real": {}, "synthetic": {}}
    real_modules(snapshot)
    synthetic(snapshot)
    got = {sec: {k: digest(v) for k, v in snapshot[sec].items()} for sec in snapshot}
    if "--record" in sys.argv:
        print(json.dumps(got, sort_keys=True, indent=1))
        return 0
    for section in ("real", "synthetic"):
        expected = EXPECTED_DIGESTS[section]
        check(sorted(got[section]) == sorted(expected), f"{section} keys")
        for k, v in expected.items():
            check(got[section].get(k) == v, f"snapshot mismatch: {section}/{k}")
    if failures:
        print(f"{len(failures)} check(s) failed")
        return 1
    print("PASS")
    return 0


if __name__ == "__main__":
    sys.exit(main())
