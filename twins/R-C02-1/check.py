"""Shared behaviour harness (embedded verbatim in every check.py)."""
import hashlib
import io
import logging
import sys
import warnings
from enum import Enum

logging.disable(logging.CRITICAL)
warnings.simplefilter("ignore")

from rv.chunks.array import ArrayChunk  # noqa: E402
from rv.cmidmap import MidiMessageType, Slope  # noqa: E402
from rv.controller import DependentRange, Range  # noqa: E402
from rv.errors import EmptySynthError  # noqa: E402
from rv.modules import MODULE_CLASSES  # noqa: E402
from rv.project import Project  # noqa: E402
from rv.readers.reader import read_sunvox_file  # noqa: E402
from rv.synth import Synth  # noqa: E402

FAILURES = []


def expect(cond, msg):
    if not cond:
        FAILURES.append(msg)


def module_types():
    return sorted(k for k in MODULE_CLASSES if k != "Output")


def set_controllers(mod, which):
    """Drive every controller to one end of its range (which: 'min'/'max'/'mid')."""
    items = list(mod.controllers.items())
    ordered = [i for i in items if not isinstance(i[1].value_type, DependentRange)]
    ordered += [i for i in items if isinstance(i[1].value_type, DependentRange)]
    for name, ctl in ordered:
        t = ctl.instance_value_type(mod)
        if isinstance(t, Range):
            lo, hi = t.min, t.max
            value = {"min": lo, "max": hi, "mid": (lo + hi) // 2}[which]
        elif isinstance(t, type) and issubclass(t, Enum):
            members = list(t)
            value = {"min": members[0], "max": members[-1]}.get(
                which, members[len(members) // 2]
            )
        elif t is bool:
            value = which != "min"
        else:
            continue
        try:
            setattr(mod, name, value)
        except Exception:  # noqa: BLE001 - leave the default in place
            pass


def set_options(mod, which):
    for name, opt in mod.options.items():
        if opt.size == 1:
            value = which != "min"
        elif None not in {opt.min, opt.max}:
            value = opt.min if which == "min" else opt.max
        else:
            value = 0 if which == "min" else (1 << opt.size) - 1
        try:
            setattr(mod, name, value)
        except Exception:  # noqa: BLE001
            pass


def array_chunks(mod):
    return sorted(
        (k, v) for k, v in vars(mod).items() if isinstance(v, ArrayChunk)
    )


ELEMENT_LIMITS = {"B": 255, "H": 65535, "I": 0xFFFFFFFF}


def fill_arrays(mod, which):
    for _, chunk in array_chunks(mod):
        first = chunk.values[0] if chunk.values else None
        if isinstance(first, Enum):
            members = list(type(first))
            chunk.values = [
                members[0]
                if which == "min"
                else members[-1]
                if which == "max"
                else members[i % len(members)]
                for i in range(chunk.length)
            ]
        elif isinstance(first, float):
            chunk.values = [
                (((i * 37) % 200) - 100) / 128.0 if which != "min" else -1.0
                for i in range(chunk.length)
            ]
        elif isinstance(first, int) and not isinstance(first, bool):
            top = ELEMENT_LIMITS.get(chunk.type, 255)
            if chunk.max_value:
                top = min(top, chunk.max_value)
            low = chunk.min_value or 0
            if which == "min":
                chunk.values = [low] * chunk.length
            elif which == "max":
                chunk.values = [top] * chunk.length
            else:
                chunk.values = [
                    low + (i * 7919) % (top - low + 1) for i in range(chunk.length)
                ]
        elif first is not None:
            # Mapping-like objects: vary their integer attributes in place.
            for i, item in enumerate(chunk.values):
                for j, attr in enumerate(sorted(vars(item))):
                    limit = 0xFFFF if chunk.type.startswith("H") else 0xFFFFFFFF
                    if which == "min":
                        v = 0
                    elif which == "max":
                        v = limit
                    else:
                        v = (i * 131 + j * 17 + 1) % (limit + 1)
                    setattr(item, attr, v)


def set_midi_maps(mod, which):
    if which == "min":
        return
    types = list(MidiMessageType)
    slopes = list(Slope)
    for i, name in enumerate(mod.controllers):
        m = mod.controller_midi_maps[name]
        m.channel = (i * 5 + 1) % 17 if which == "mid" else 16
        m.message_type = types[(i + 1) % len(types)] if which == "mid" else types[-1]
        m.slope = slopes[i % len(slopes)] if which == "mid" else slopes[-1]
        m.message_parameter = (i * 1021) % 65536 if which == "mid" else 65535


def build(mtype, which):
    cls = MODULE_CLASSES[mtype]
    mod = cls()
    if which != "default":
        pick = lambda lo, hi, mid: {"min": lo, "max": hi, "mid": mid}[which]  # noqa: E731
        mod.name = pick("", "x" * 40, "n\u00e9me")
        mod.mod_finetune = pick(-256, 256, 17)
        mod.mod_relative_note = pick(-64, 64, -3)
        mod.mod_scale = pick(1, 1024, 300)
        mod.color = pick((0, 0, 0), (255, 255, 255), (1, 128, 254))
        mod.midi_in_always = which != "min"
        mod.midi_in_channel = pick(0, 16, 7)
        mod.midi_out_name = pick(None, "dev" * 10, "out")
        mod.midi_out_channel = pick(0, 16, 3)
        mod.midi_out_bank = pick(-1, 16383, 5)
        mod.midi_out_program = pick(-1, 127, 9)
        mod.x = pick(-4096, 4096, 100)
        mod.y = pick(-4096, 4096, 200)
        mod.layer = pick(0, 7, 2)
        mod.visualization = pick(0, 0x0FFF1F3F, 0x000C0101)
    if which != "default":
        set_controllers(mod, which)
        set_options(mod, which)
        fill_arrays(mod, which)
        set_midi_maps(mod, which)
    return mod


def norm(v):
    if isinstance(v, Enum):
        return (type(v).__name__, v.name)
    if isinstance(v, float):
        return round(v, 6)
    if isinstance(v, (list, tuple)):
        return [norm(x) for x in v]
    if isinstance(v, (int, str, bytes, bool, type(None))):
        return v
    if hasattr(v, "__dict__"):
        return {k: norm(x) for k, x in sorted(vars(v).items())}
    return repr(v)


def snapshot(mod, positional=False):
    """Everything the property says must survive, as plain data."""
    snap = {
        "type": type(mod).__name__,
        "mtype": mod.mtype,
        "name": mod.name,
        "flags": mod.flags,
        "controllers": {k: norm(v) for k, v in mod.controller_values.items()},
        "options": dict(mod.option_values),
        "cmid": {
            # MIDI maps of unattached controllers are not part of the file
            k: mod.controller_midi_maps[k].cmid_data
            for k, c in mod.controllers.items()
            if c.attached(mod)
        },
        "finetune": mod.mod_finetune,
        "relnote": mod.mod_relative_note,
        "scale": mod.mod_scale,
        "color": tuple(mod.color),
        "midi": (
            mod.midi_in_always,
            mod.midi_in_channel,
            mod.midi_out_name or None,
            mod.midi_out_channel,
            mod.midi_out_bank,
            mod.midi_out_program,
        ),
        "arrays": {k: norm(c.values) for k, c in array_chunks(mod)},
    }
    if positional:
        snap["pos"] = (mod.x, mod.y, mod.layer, int(mod.visualization))
    return snap


def synth_bytes(mod):
    f = io.BytesIO()
    Synth(mod).write_to(f)
    return f.getvalue()


def iff_split(data):
    """Split a byte string into (tag, payload) pairs."""
    out = []
    pos = 0
    while pos < len(data):
        tag = data[pos : pos + 4]
        size = int.from_bytes(data[pos + 4 : pos + 8], "little")
        out.append((tag, data[pos + 8 : pos + 8 + size]))
        pos += 8 + size
    return out


VARIANTS = ("default", "min", "mid", "max")


def run_synth_round_trips(digest):
    for mtype in module_types():
        for which in VARIANTS:
            label = f"{mtype}/{which}"
            try:
                mod = build(mtype, which)
                data = synth_bytes(mod)
            except Exception as e:  # noqa: BLE001
                digest.update(f"{label}:ERR:{type(e).__name__}".encode())
                expect(False, f"{label}: cannot build/serialize: {e!r}")
                continue
            digest.update(label.encode())
            digest.update(data)
            chunks = iff_split(data)
            tags = [t for t, _ in chunks]
            expect(tags[0] == b"SSYN" and tags[1] == b"VERS", f"{label}: header")
            expect(tags[-1] == b"SEND", f"{label}: SEND last")
            attached = [
                n for n, c in mod.controllers.items() if c.attached(mod)
            ]
            expect(tags.count(b"CVAL") == len(attached), f"{label}: CVAL count")
            cvals = [p for t, p in chunks if t == b"CVAL"]
            for n, p in zip(attached, cvals):
                raw = int.from_bytes(p, "little", signed=True)
                expect(raw == mod.get_raw(n), f"{label}: CVAL {n}")
            cmids = [p for t, p in chunks if t == b"CMID"]
            if attached:
                expect(len(cmids) == 1, f"{label}: one CMID")
                expect(len(cmids[0]) == 8 * len(attached), f"{label}: CMID size")
            else:
                expect(not cmids, f"{label}: no CMID when no controllers")
            for banned in (b"SXXX", b"SYYY", b"SZZZ", b"SVPR"):
                expect(banned not in tags, f"{label}: {banned} in stand-alone synth")
            expect((b"CHNK" in tags) == bool(mod.chnk), f"{label}: CHNK presence")
            before = snapshot(mod)
            loaded = read_sunvox_file(io.BytesIO(data)).module
            after = snapshot(loaded)
            # names are truncated to 32 bytes on write
            before["name"] = (
                before["name"].encode("utf8")[:32].decode("utf8", "ignore")
            )
            if before != after:
                diff = [k for k in before if before[k] != after[k]]
                expect(False, f"{label}: load differs in {diff}")
            data2 = synth_bytes(loaded)
            expect(data2 == data, f"{label}: second write differs")
            cloned = mod.clone()
            expect(type(cloned) is type(mod), f"{label}: clone type")
            expect(snapshot(cloned) == after, f"{label}: clone differs from load")
            digest.update(repr(sorted(after.items(), key=str)).encode())


def run_project_round_trips(digest):
    for which in VARIANTS:
        project = Project()
        mods = []
        for mtype in module_types():
            mods.append(project.attach_module(build(mtype, which)))
        for i, m in enumerate(mods):
            project.connect(m, project.output if i % 3 == 0 else mods[i - 1])
            if i % 5 == 0 and i + 2 < len(mods):
                project.connect(mods[i + 2], m)
        f = io.BytesIO()
        project.write_to(f)
        data = f.getvalue()
        digest.update(f"project/{which}".encode())
        digest.update(data)
        loaded = read_sunvox_file(io.BytesIO(data))
        expect(len(loaded.modules) == len(project.modules), f"project/{which}: count")
        for a, b in zip(project.modules, loaded.modules):
            label = f"project/{which}/{a.mtype}"
            if a.mtype == "Output":
                expect(b.in_links == a.in_links, f"{label}: links")
                continue
            sa, sb = snapshot(a, positional=True), snapshot(b, positional=True)
            sa["name"] = sa["name"].encode("utf8")[:32].decode("utf8", "ignore")
            if sa != sb:
                diff = [k for k in sa if sa[k] != sb[k]]
                expect(False, f"{label}: differs in {diff}")
            expect(a.in_links == b.in_links, f"{label}: in_links")
            expect(a.in_link_slots == b.in_link_slots, f"{label}: in_link_slots")
            expect(a.out_links == b.out_links, f"{label}: out_links")
        f2 = io.BytesIO()
        loaded.write_to(f2)
        expect(f2.getvalue() == data, f"project/{which}: second write differs")


def run_empty_synth():
    s = Synth()
    gen = s.chunks()  # lazily evaluated: creating the generator must not raise
    try:
        next(gen)
        expect(False, "empty synth: no error")
    except EmptySynthError as e:
        expect("no module" in str(e), "empty synth: message")
    f = io.BytesIO()
    try:
        s.write_to(f)
        expect(False, "empty synth write_to: no error")
    except EmptySynthError:
        pass
    expect(f.getvalue() == b"", "empty synth wrote bytes before refusing")
    try:
        s.read()
        expect(False, "empty synth read(): no error")
    except EmptySynthError:
        pass


def finish(digest, golden):
    got = digest.hexdigest()
    if golden is not None:
        expect(got == golden, f"byte digest changed: {got} != {golden}")
    if FAILURES:
        for m in FAILURES[:40]:
            print("FAIL:", m)
        print(f"{len(FAILURES)} failure(s)")
        sys.exit(1)
    print("PASS", got)


# --- checks specific to Synth.chunks() structure and Module.clone() -----------


class _StubMap:
    def __init__(self, data):
        self.cmid_data = data


class _StubController:
    def __init__(self, log, name, answers):
        self.log, self.name, self.answers = log, name, list(answers)

    def attached(self, instance):
        self.log.append(("attached", self.name))
        return self.answers.pop(0) if len(self.answers) > 1 else self.answers[0]


class _StubModule:
    def __init__(self, chnk, controllers, with_recompute):
        self.log = []
        self.chnk = chnk
        self.controllers = {
            n: _StubController(self.log, n, a) for n, a in controllers
        }
        self.controller_midi_maps = {
            n: _StubMap(n.encode().ljust(8, b".")) for n, _ in controllers
        }
        if with_recompute:
            self.recompute_controller_attachment = lambda: self.log.append(
                ("recompute",)
            )

    def iff_chunks(self, in_project=None):
        self.log.append(("iff", in_project))
        yield b"SFFF", b"\x00\x00\x00\x00"
        self.log.append(("iff-done",))

    def get_raw(self, name):
        self.log.append(("get_raw", name))
        return {"a": -1, "b": 0x7FFFFFFF, "c": -0x80000000}[name]

    def specialized_iff_chunks(self):
        self.log.append(("special",))
        yield b"CHNM", b"\x00\x00\x00\x00"
        yield None, None


def run_stub_synth_checks():
    T, F = [True], [False]
    # (controllers, chnk, with_recompute, expected chunk list)
    head = [(b"SSYN", b""), (b"VERS", bytes([1, 2, 1, 2])), (b"SFFF", bytes(4))]
    cases = [
        ([], 0, False, head + [(b"SEND", b"")]),
        (
            [("a", T), ("b", F), ("c", T)],
            0,
            True,
            head
            + [
                (b"CVAL", b"\xff\xff\xff\xff"),
                (b"CVAL", b"\x00\x00\x00\x80"),
                (b"CMID", b"a.......c......."),
                (b"SEND", b""),
            ],
        ),
        (
            [("b", T)],
            0x10,
            False,
            head
            + [
                (b"CVAL", b"\xff\xff\xff\x7f"),
                (b"CMID", b"b......."),
                (b"CHNK", b"\x10\x00\x00\x00"),
                (b"CHNM", bytes(4)),
                (None, None),
                (b"SEND", b""),
            ],
        ),
        # attached() is consulted twice; a controller that detaches in between
        # is listed in CMID (if anything was written) but gets no CVAL
        (
            [("a", [True, False]), ("c", T)],
            0,
            True,
            head
            + [
                (b"CVAL", b"\x00\x00\x00\x80"),
                (b"CMID", b"a.......c......."),
                (b"SEND", b""),
            ],
        ),
        ([("a", [True, False])], 0, True, head + [(b"SEND", b"")]),
        ([("a", F)], True, False, head
            + [(b"CHNK", b"\x01\x00\x00\x00"), (b"CHNM", bytes(4)), (None, None),
               (b"SEND", b"")]),
    ]
    for i, (ctls, chnk, rec, expected) in enumerate(cases):
        stub = _StubModule(chnk, ctls, rec)
        got = list(Synth(stub).chunks())
        expect(got == expected, f"stub case {i}: chunks {got!r}")
        log = stub.log
        expect(log[0] == ("iff", False), f"stub case {i}: iff_chunks(in_project=False)")
        expect(log[1] == ("iff-done",), f"stub case {i}: iff exhausted first")
        if rec:
            expect(log[2] == ("recompute",), f"stub case {i}: recompute before attached")
            expect(log.count(("recompute",)) == 1, f"stub case {i}: recompute once")
        else:
            expect(("recompute",) not in log, f"stub case {i}: no recompute")
        names = [n for n, _ in ctls]
        first_pass = [e for e in log if e[0] == "attached"][: len(names)]
        expect(
            first_pass == [("attached", n) for n in names],
            f"stub case {i}: attachment scanned in declaration order",
        )
        if chnk:
            expect(log[-1] == ("special",), f"stub case {i}: specialised chunks last")
        else:
            expect(("special",) not in log, f"stub case {i}: no specialised chunks")
    # chunks() is lazy and the version tuple is read when VERS is produced
    stub = _StubModule(0, [], False)
    synth = Synth(stub)
    gen = synth.chunks()
    expect(stub.log == [], "chunks() must be lazy")
    expect(next(gen) == (b"SSYN", b""), "first chunk")
    synth.sunsynth_version = (9, 8, 7, 6)
    expect(next(gen) == (b"VERS", bytes([6, 7, 8, 9])), "VERS reversed")
    expect(Synth.MAGIC_CHUNK == (b"SSYN", b""), "MAGIC_CHUNK")
    expect(Synth().sunsynth_version == (2, 1, 2, 1), "default version")


def run_clone_checks():
    for mtype in module_types():
        for which in ("default", "mid"):
            mod = build(mtype, which)
            before = synth_bytes(mod)
            clone = mod.clone()
            expect(clone is not mod, f"{mtype}: clone identity")
            expect(type(clone) is type(mod), f"{mtype}: clone type")
            expect(clone.parent is None and clone.index is None, f"{mtype}: detached")
            expect(synth_bytes(clone) == before, f"{mtype}/{which}: clone bytes")
            expect(synth_bytes(mod) == before, f"{mtype}/{which}: source untouched")
    # a module inside a project clones through the stand-alone writer
    project = Project()
    inner = project.attach_module(build("Analog generator", "mid"))
    c = inner.clone()
    expect(c.parent is None, "clone of attached module has no parent")
    expect(snapshot(c) == snapshot(read_sunvox_file(io.BytesIO(synth_bytes(inner))).module),
           "clone == load(save())")
    from rv.modules.module import Module

    try:
        Module().clone()
        expect(False, "base Module clone should fail")
    except RuntimeError:
        pass


def main():
    digest = hashlib.sha256()
    run_synth_round_trips(digest)
    run_project_round_trips(digest)
    run_empty_synth()
    run_stub_synth_checks()
    run_clone_checks()
    finish(digest, GOLDEN)


GOLDEN = "0480f65abcf86492d4c4cf00f3687be377cd5bb6e4eecbd4e76fc128ec9d5726"

if __name__ == "__main__":
    main()
