"""Behaviour check for Module.options_chunks / Module.load_options.

An independent model of the options record (one integer per byte, value masked
to `size` bits and shifted to `bit`) is compared against the library for every
option-bearing module type: every value of every option, all pairs of options,
random full assignments, raw stored values that need masking, short / empty /
over-long CHDT records, error behaviour and a full .sunsynth write/read cycle.
"""
import io
import itertools
import random
import struct
import sys

import rv.api  # noqa: F401  (registers all module classes)
from rv.modules import MODULE_CLASSES
from rv.modules.module import Chunk, Module
from rv.readers.reader import read_sunvox_file
from rv.synth import Synth

failures = []


def expect(cond, msg):
    if not cond:
        failures.append(msg)


def model_record(cls, stored):
    """Expected CHDT bytes for the given stored (not logical) values."""
    cells = {}
    top = 0
    for name, o in cls.options.items():
        v = int(stored[name]) % (2**o.size)
        cells[o.byte] = cells.get(o.byte, 0) | (v * 2**o.bit)
        top = max(top, o.byte + 1)
    return bytes(cells.get(i, 0) for i in range(top))


def model_load(cls, data):
    data = bytes(data) + b"\0" * 64
    out = {}
    for name, o in cls.options.items():
        v = (data[o.byte] // 2**o.bit) % (2**o.size)
        out[name] = (v == 1) if o.size == 1 else v
    return out


def written(mod):
    gen = mod.options_chunks()
    chunks = list(gen)
    expect(len(chunks) == 2, "two chunks expected")
    expect(chunks[0] == (b"CHNM", struct.pack("<I", mod.options_chnm)), "CHNM chunk")
    expect(chunks[1][0] == b"CHDT", "CHDT tag")
    expect(type(chunks[1][1]) is bytes, "CHDT payload type")
    return chunks[1][1]


def loaded(cls, data):
    mod = cls()
    c = Chunk()
    c.chnm = cls.options_chnm
    c.chdt = data
    ret = mod.load_options(c)
    expect(ret is None, "load_options returns None")
    return mod


def same(a, b):
    return a == b and all(type(a[k]) is type(b[k]) for k in a)


def roundtrip_file(mod):
    f = io.BytesIO()
    Synth(mod).write_to(f)
    raw = f.getvalue()
    f.seek(0)
    return raw, read_sunvox_file(f).module


classes = sorted(
    {c for c in MODULE_CLASSES.values() if c.options}, key=lambda c: c.__name__
)
expect(len(classes) == 5, "expected 5 option-bearing module types, got %d" % len(classes))
expect(sum(len(c.options) for c in classes) == 49, "expected 49 options")

rng = random.Random(1111)
for cls in classes:
    names = list(cls.options)
    # no two options share a bit
    seen = set()
    for name, o in cls.options.items():
        for b in range(o.bit, o.bit + o.size):
            expect((o.byte, b) not in seen, "%s.%s overlaps" % (cls.__name__, name))
            seen.add((o.byte, b))
        expect(o.bit + o.size <= 8, "option fits in its byte")

    def check_assignment(assign, label):
        mod = cls()
        for k, v in assign.items():
            setattr(mod, k, v)
        stored = dict(mod.option_values)
        data = written(mod)
        expect(data == model_record(cls, stored), "%s %s: record" % (cls.__name__, label))
        expect(
            len(data) == max(o.byte for o in cls.options.values()) + 1,
            "%s %s: record length" % (cls.__name__, label),
        )
        expect(dict(mod.option_values) == stored, "options_chunks must not mutate values")
        back = loaded(cls, data)
        expect(
            same(back.option_values, model_load(cls, data)),
            "%s %s: load vs model" % (cls.__name__, label),
        )
        for k in names:
            expect(
                getattr(back, k) == getattr(mod, k),
                "%s %s: %s %r != %r" % (cls.__name__, label, k, getattr(back, k), getattr(mod, k)),
            )
        return mod

    check_assignment({}, "defaults")
    # every representable value of every option
    for name, o in cls.options.items():
        for v in range(2**o.size):
            check_assignment({name: v}, "%s=%d" % (name, v))
    # all pairs, extreme values
    for a, b in itertools.permutations(names, 2):
        oa, ob = cls.options[a], cls.options[b]
        for va in {0, 2**oa.size - 1}:
            for vb in {0, 2**ob.size - 1}:
                check_assignment({a: va, b: vb}, "%s=%d,%s=%d" % (a, va, b, vb))
    # random full assignments, in random order
    for i in range(60):
        order = names[:]
        rng.shuffle(order)
        assign = {k: rng.randrange(2 ** cls.options[k].size) for k in order}
        mod = check_assignment(assign, "random%d" % i)
        if i < 6:
            raw, mod2 = roundtrip_file(mod)
            expect(type(mod2) is cls, "file round trip type")
            expect(same(mod2.option_values, mod.option_values) or
                   all(getattr(mod2, k) == getattr(mod, k) for k in names),
                   "%s file round trip" % cls.__name__)
            expect(b"CHDT" + struct.pack("<I", len(written(mod))) + written(mod) in raw,
                   "%s options CHDT present in file" % cls.__name__)

    # raw stored values that need masking (bypass the descriptor)
    for i in range(40):
        mod = cls()
        for k in names:
            mod.option_values[k] = rng.choice(
                [True, False, 0, 1, 255, 256, 257, -1, -2, 2**20 + 3, rng.randrange(-999, 999)]
            )
        expect(written(mod) == model_record(cls, mod.option_values), "masking of raw values")

    # short, empty, exact-64 and over-long records on load
    full = bytes(rng.randrange(256) for _ in range(80))
    for n in (0, 1, 2, 3, 5, 7, 8, 63, 64, 65, 80):
        data = full[:n]
        for payload in (data, bytearray(data), list(data)):
            back = loaded(cls, payload)
            expect(same(back.option_values, model_load(cls, data)), "%s load len %d" % (cls.__name__, n))
            if isinstance(payload, (bytearray, list)):
                expect(len(payload) == n, "load_options must not grow its input")
    for data in (b"\xff" * 64, b"\x00" * 64, b"\xaa" * 9, b"\x55" * 9):
        back = loaded(cls, data)
        expect(same(back.option_values, model_load(cls, data)), "pattern load")
        expect(set(back.option_values) == set(names), "all options loaded")

    # errors: a missing value is a TypeError, raised lazily at first next()
    mod = cls()
    mod.option_values[names[-1]] = None
    gen = mod.options_chunks()
    try:
        next(gen)
    except TypeError:
        pass
    else:
        expect(False, "None option value should raise TypeError")
    mod = cls()
    del mod.option_values[names[0]]
    try:
        list(mod.options_chunks())
    except TypeError:
        pass
    else:
        expect(False, "absent option value should raise TypeError")
    c = Chunk()
    try:
        cls().load_options(c)
    except TypeError:
        pass
    else:
        expect(False, "chdt=None should raise TypeError")

    # specialized_iff_chunks contains the option chunks, in order
    mod = cls()
    spec = list(mod.specialized_iff_chunks())
    oc = list(mod.options_chunks())
    idx = [i for i in range(len(spec) - 1) if spec[i : i + 2] == oc]
    expect(len(idx) >= 1, "%s: option chunks inside specialized_iff_chunks" % cls.__name__)


# a module type without options writes an empty record and loads nothing
bare = MODULE_CLASSES["Amplifier"]()
expect(bare.options == {}, "Amplifier has no options")
expect(list(bare.options_chunks()) == [(b"CHNM", struct.pack("<I", bare.options_chnm)), (b"CHDT", b"")], "no options")
expect(list(bare.specialized_iff_chunks()) == [(None, None)], "no options: placeholder")
c = Chunk()
c.chdt = b"\x01\x02"
bare.load_options(c)
expect(bare.option_values == {}, "no options loaded")

if failures:
    print("FAIL (%d)" % len(failures))
    for f in failures[:20]:
        print("  ", f)
    sys.exit(1)
print("PASS")
