"""Behaviour check for Controller.pattern_value, Controller.instance_value_type
and DependentRange.parent.

Every distinct range used by any module type is enumerated completely for the
pattern-column encoding; unit-dependent ranges are checked for every unit, and
for the "unit not loaded yet" / "unit value missing" fallbacks.
"""
import sys
from enum import Enum

from rv.controller import (
    CompactRange,
    Controller,
    DependentRange,
    NoOffsetRange,
    Range,
    WarnOnlyRange,
)
from rv.modules import MODULE_CLASSES

failures = []


def check(cond, *msg):
    if not cond:
        failures.append(" ".join(str(m) for m in msg))
        if len(failures) > 20:
            report()


def report():
    if failures:
        print("FAIL")
        for f in failures:
            print("  ", f)
        sys.exit(1)
    print("PASS")
    sys.exit(0)


def expected_pattern(t, v):
    if isinstance(t, CompactRange):
        return v - t.min
    return int((v - t.min) / ((t.max - t.min) / 32768))


class FakeInstance:
    """Just enough of a Module for value-type resolution."""

    def __init__(self, loaded=(), **values):
        self.controllers_loaded = set(loaded)
        self.controller_values = dict(values)


# --- 1. instance_value_type ---------------------------------------------------
inst = FakeInstance()
r = Range(-5, 5)
check(Controller(r, 0).instance_value_type(inst) is r, "plain range returned as is")
check(Controller((3, 9), 3).instance_value_type(inst) == Range(3, 9), "tuple -> Range")
check(type(Controller((3, 9), 3).value_type) is Range, "tuple -> exactly Range")
check(Controller(bool, False).instance_value_type(inst) is bool, "bool type")
check(Controller(None, None).instance_value_type(inst) is None, "None type")


class Colour(Enum):
    red = 0
    green = 1


check(Controller(Colour, Colour.red).instance_value_type(inst) is Colour, "enum type")


class Unit(Enum):
    a = 0
    b = 1
    c = 2


ra, rb, rd = WarnOnlyRange(1, 256), WarnOnlyRange(0, 4000), WarnOnlyRange(1, 2048)
dep = DependentRange("unit", {Unit.a: ra, Unit.b: rb}, rd)
dctl = Controller(dep, 1)
check(repr(dep) == "<DependentRange (varies)>", "dependent repr")

# --- 2. DependentRange.parent: every branch ----------------------------------
check(dep.parent(FakeInstance()) is rd, "nothing loaded -> default")
check(dep.parent(FakeInstance(loaded=(), unit=Unit.a)) is rd, "value but not loaded")
check(dep.parent(FakeInstance(loaded=["other"], unit=Unit.a)) is rd, "other loaded only")
check(dep.parent(FakeInstance(loaded=["unit"])) is rd, "loaded but value absent")
check(dep.parent(FakeInstance(loaded=["unit"], unit=None)) is rd, "loaded, value None")
check(dep.parent(FakeInstance(loaded=["unit"], unit=Unit.a)) is ra, "unit a")
check(dep.parent(FakeInstance(loaded=["unit", "x"], unit=Unit.b)) is rb, "unit b")
check(dctl.instance_value_type(FakeInstance(loaded=["unit"], unit=Unit.b)) is rb,
      "controller resolves through parent")
check(dctl.instance_value_type(FakeInstance()) is rd, "controller resolves default")
try:
    dep.parent(FakeInstance(loaded=["unit"], unit=Unit.c))
    check(False, "unmapped unit should raise KeyError")
except KeyError as e:
    check(e.args == (Unit.c,), "KeyError args", e.args)
# a falsy-but-not-None unit value is still looked up
dep0 = DependentRange("unit", {0: ra, 1: rb}, rd)
check(dep0.parent(FakeInstance(loaded=["unit"], unit=0)) is ra, "unit value 0 is used")
# controllers_loaded may be any container (list) or empty/None-like
fi = FakeInstance(unit=Unit.a)
fi.controllers_loaded = ["unit"]
check(dep.parent(fi) is ra, "list container")
fi.controllers_loaded = None
check(dep.parent(fi) is rd, "None container")
fi.controllers_loaded = []
check(dep.parent(fi) is rd, "empty list container")

# --- 3. pattern_value on hand-made value types --------------------------------
check(Controller(bool, False).pattern_value(inst, True) is True, "bool passes through")
check(Controller(Colour, Colour.red).pattern_value(inst, Colour.green) is Colour.green,
      "enum passes through")
check(Controller(None, None).pattern_value(inst, 17) == 17, "None type passes through")
marker = object()
check(Controller(bool, False).pattern_value(inst, marker) is marker, "object passes")
for kind in (Range, WarnOnlyRange, NoOffsetRange):
    for lo, hi in [(0, 1), (0, 256), (1, 256), (-128, 128), (0, 32768), (-100, 100),
                   (0, 3), (1, 4000), (0, 44100), (-32768, 32767), (5, 6), (0, 65535)]:
        t = kind(lo, hi)
        c = Controller(t, lo)
        out = [c.pattern_value(inst, v) for v in range(lo, hi + 1)]
        check(out == [expected_pattern(t, v) for v in range(lo, hi + 1)],
              "pattern formula", kind.__name__, lo, hi)
        check(all(type(x) is int for x in out), "int results", kind.__name__, lo, hi)
        check(out[0] == 0 and out[-1] == 0x8000, "endpoints", kind.__name__, lo, hi)
        check(all(a <= b for a, b in zip(out, out[1:])), "monotone", kind.__name__, lo, hi)
        # values outside the range are not clipped
        check(c.pattern_value(inst, hi + 1) == expected_pattern(t, hi + 1), "above max")
        check(c.pattern_value(inst, lo - 1) == expected_pattern(t, lo - 1), "below min")
for lo, hi in [(-128, 128), (0, 10), (1, 1), (-3, -3), (-5, 0)]:
    t = CompactRange(lo, hi)
    c = Controller(t, lo)
    out = [c.pattern_value(inst, v) for v in range(lo - 2, hi + 3)]
    check(out == list(range(-2, hi - lo + 3)), "compact shift only", lo, hi)
    check(all(type(x) is int for x in out), "compact ints", lo, hi)
check(Controller(CompactRange(-128, 128), 0).pattern_value(inst, -2) == 126, "docstring")
# float inputs go through the same arithmetic
c = Controller(Range(0, 256), 0)
check(c.pattern_value(inst, 0.5) == 64 and c.pattern_value(inst, 255.999) == 32767, "float")
check(Controller(CompactRange(-1, 1), 0).pattern_value(inst, 0.5) == 1.5, "compact float")
# an empty (min == max) scaled range cannot be stretched
for kind in (Range, WarnOnlyRange, NoOffsetRange):
    try:
        Controller(kind(4, 4), 4).pattern_value(inst, 4)
        check(False, "zero span should raise", kind.__name__)
    except ZeroDivisionError:
        pass
# resolution of a dependent range happens inside pattern_value
fa = FakeInstance(loaded=["unit"], unit=Unit.a)
fb = FakeInstance(loaded=["unit"], unit=Unit.b)
check(dctl.pattern_value(fa, 256) == 0x8000 and dctl.pattern_value(fa, 1) == 0, "dep a")
check(dctl.pattern_value(fb, 4000) == 0x8000 and dctl.pattern_value(fb, 0) == 0, "dep b")
check(dctl.pattern_value(FakeInstance(), 2048) == 0x8000, "dep default")
check(dctl.pattern_value(fb, 1000) == expected_pattern(rb, 1000), "dep b mid")

# --- 4. every controller of every module type --------------------------------
seen_ranges = {}
count = 0
for mtype, cls in sorted(MODULE_CLASSES.items()):
    probe = cls()
    for name, ctl in probe.controllers.items():
        vt = ctl.value_type
        if isinstance(vt, DependentRange):
            fresh = cls.__new__(cls)  # nothing loaded yet
            fresh.controllers_loaded = set()
            fresh.controller_values = {}
            check(ctl.instance_value_type(fresh) is vt.default, mtype, name, "unloaded")
            variants = list(vt.range_map.items())
        else:
            variants = [(None, vt)]
        for unit, r in variants:
            mod = cls()
            if unit is not None:
                setattr(mod, vt.ctl_name, unit)
            t = ctl.instance_value_type(mod)
            if isinstance(vt, DependentRange):
                check(t is r, mtype, name, unit, "dependent selection")
            if isinstance(t, Range):
                key = (type(t), t.min, t.max)
                if key in seen_ranges:
                    # already enumerated completely; spot-check this controller
                    values = sorted({t.min, t.min + 1, (t.min + t.max) // 2, t.max - 1, t.max})
                else:
                    seen_ranges[key] = True
                    values = range(t.min, t.max + 1)
                prev = None
                for v in values:
                    p = ctl.pattern_value(mod, v)
                    if p != expected_pattern(t, v) or type(p) is not int:
                        check(False, mtype, name, unit, v, "pattern", p)
                    if prev is not None and p < prev:
                        check(False, mtype, name, unit, v, "not monotone")
                    prev = p
                    count += 1
                lo_p, hi_p = ctl.pattern_value(mod, t.min), ctl.pattern_value(mod, t.max)
                if isinstance(t, CompactRange):
                    check((lo_p, hi_p) == (0, t.max - t.min), mtype, name, "compact ends")
                else:
                    check((lo_p, hi_p) == (0, 0x8000), mtype, name, unit, "ends", lo_p, hi_p)
            elif isinstance(t, type) and issubclass(t, Enum):
                for member in t:
                    check(ctl.pattern_value(mod, member) is member, mtype, name, member)
                    count += 1
            elif t is bool:
                for b in (False, True):
                    check(ctl.pattern_value(mod, b) is b, mtype, name, b)
                    count += 1
            else:
                check(False, "unexpected value type", mtype, name, t)
check(count > 100000, "enumerated too little", count)
check(any(k[0] is CompactRange for k in seen_ranges), "compact range not seen")

# MetaModule proxies resolve to the user-defined controller's current type
mm = MODULE_CLASSES["MetaModule"]()
proxy = mm.controllers["user_defined_1"]
target = proxy.controller(mm)
check(proxy.instance_value_type(mm) is target.value_type, "proxy value type")
target_type_before = target.value_type
try:
    target.value_type = Range(-10, 10)
    check(proxy.pattern_value(mm, 10) == 0x8000 and proxy.pattern_value(mm, -10) == 0,
          "proxy pattern value follows retargeted type")
finally:
    target.value_type = target_type_before

report()
