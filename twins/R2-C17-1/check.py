"""Behaviour check for ArrayChunk / WaveformChunk (property C17: isolation)."""
import struct
import sys
from enum import Enum
from struct import pack

import rv.api  # noqa: F401  (loads all module classes)
from rv.chunks import ArrayChunk, DrawnWaveformChunk, WaveformChunk
from rv.modules import MODULE_CLASSES

failures = []


def check(cond, msg):
    if not cond:
        failures.append(msg)


def raises(exc, fn):
    try:
        fn()
    except exc as e:
        return type(e) is exc or isinstance(e, exc)
    except BaseException:
        return False
    return False


# ---------------------------------------------------------------- ArrayChunk
def array_chunk_classes():
    seen = []
    for cls in MODULE_CLASSES.values():
        for klass in cls.__mro__:
            for name, v in vars(klass).items():
                if isinstance(v, type) and issubclass(v, ArrayChunk) and v not in seen:
                    seen.append(v)
    return seen


def norm(values):
    """Comparable view of a values list (Mapping objects have no __eq__)."""
    return [dict(vars(v)) if hasattr(v, "__dict__") and not isinstance(v, Enum) else v for v in values]


classes = array_chunk_classes()
check(len(classes) >= 10, f"expected >=10 ArrayChunk subclasses, got {len(classes)}")

for cls in classes:
    a, b = cls(), cls()
    n = cls.__qualname__
    check(a.values is not b.values, f"{n}: two instances share values list")
    cls_default = vars(cls).get("default")
    if isinstance(cls_default, list):
        check(a.values is not cls_default, f"{n}: values aliases class default")
        check(a.values == cls_default, f"{n}: values != class default")
        before = list(cls_default)
    check(len(a.values) == cls.length, f"{n}: wrong length")
    snap_b = norm(b.values)
    if cls.type is not None:
        bytes_b = b.bytes
        check(len(bytes_b) == cls.length * cls.element_size, f"{n}: byte length")
        # mutate a in every element
        first = a.values[0]
        if isinstance(first, int) and not isinstance(first, Enum):
            for i in range(len(a.values)):
                a.values[i] = (i * 7) % 200
            check(a.bytes == pack("<" + cls.type * cls.length, *a.values), f"{n}: bytes")
        else:
            a.values.reverse()
            a.values.pop()
        check(norm(b.values) == snap_b, f"{n}: mutation of a leaked into b.values")
        check(b.bytes == bytes_b, f"{n}: mutation of a leaked into b.bytes")
        # roundtrip through the setter
        c = cls()
        c.bytes = bytes_b
        check(c.bytes == bytes_b, f"{n}: roundtrip")
        check(len(c.values) == cls.length, f"{n}: roundtrip length")
        # fresh list on load
        old = c.values
        c.bytes = bytes_b
        check(c.values is not old, f"{n}: _set_bytes must build a new list")
        check(c.chdt() == bytes_b, f"{n}: chdt")
        chunks = list(c.chunks())
        check(chunks[0] == (b"CHNM", pack("<I", cls.chnm)), f"{n}: CHNM")
        check(chunks[1] == (b"CHDT", bytes_b), f"{n}: CHDT")
    else:
        a.values[0] = "changed"
        check(norm(b.values) == snap_b, f"{n}: mutation leaked (untyped)")
        check(raises(TypeError, lambda: a.bytes), f"{n}: untyped bytes -> TypeError")

        def load():
            a.bytes = b"\0\0"

        a.values = ["sentinel"]
        check(raises(TypeError, load), f"{n}: untyped load -> TypeError")
        check(a.values == [], f"{n}: values emptied before the failure")
    a.reset()
    check(norm(a.values) == snap_b, f"{n}: reset")
    check(a.values is not b.values, f"{n}: reset aliasing")
    if isinstance(cls_default, list):
        check(cls_default == before, f"{n}: class default changed")
    new = cls()
    check(norm(new.values) == snap_b, f"{n}: new instance affected by history")


# custom subclasses covering every branch of reset / set_via_fn / _set_bytes
class Plain(ArrayChunk):
    chnm = 5
    length = 4
    type = "h"
    element_size = 2


class Scalar(Plain):
    default = 7
    min_value = 0  # falsy -> no lower clamp
    max_value = 10


class Fn(Plain):
    length = 6
    min_value = -3
    max_value = 3

    def default(self, x):
        return x * 2 - 5


class Pair(ArrayChunk):
    chnm = 9
    length = 3
    type = "Hb"
    element_size = 3
    python_type = tuple
    default = [(1, 2), (3, 4), (5, 6)]

    @property
    def encoded_values(self):
        return [f for v in self.values for f in v]


class Color(Enum):
    red = 1
    green = 2


class Enums(ArrayChunk):
    chnm = 2
    length = 3
    type = "B"
    element_size = 1
    python_type = Color
    default = [Color.red, Color.green, Color.red]

    @property
    def encoded_values(self):
        return [v.value for v in self.values]


class DictDefault(ArrayChunk):
    length = 2
    default = {"k": 1}


p = Plain()
check(p.values == [0, 0, 0, 0], "Plain default zeros")
check(p.bytes == b"\0" * 8, "Plain bytes")
s = Scalar()
check(s.values == [7, 7, 7, 7], "Scalar default fill")
s.set_via_fn(lambda x: (x - 2) * 9)
check(s.values == [-18, -9, 0, 9], "min_value=0 must not clamp; max clamps: %r" % s.values)
s.set_via_fn(lambda x: 10 + x)
check(s.values == [10, 10, 10, 10], "max clamp")
f = Fn()
check(f.values == [-3, -3, -1, 1, 3, 3], "callable default with clamps: %r" % f.values)
calls = []
f.set_via_fn(lambda x: calls.append(x) or 0)
check(calls == [0, 1, 2, 3, 4, 5], "fn call order")
keep = f.values


def boom(x):
    if x == 3:
        raise KeyError("boom")
    return x


check(raises(KeyError, lambda: f.set_via_fn(boom)), "fn error propagates")
check(f.values is keep, "values untouched when fn fails")
f.reset()
check(f.values == [-3, -3, -1, 1, 3, 3] and f.values is not keep, "Fn reset")

pr, pr2 = Pair(), Pair()
check(pr.values is not Pair.default and pr.values == Pair.default, "Pair copy")
check(pr.bytes == pack("<HbHbHb", 1, 2, 3, 4, 5, 6), "Pair bytes")
pr.bytes = pack("<HbHb", 100, -1, 200, -2) + b"\x01\x02"  # trailing partial element
check(pr.values == [(100, -1), (200, -2)], "Pair decode + trailing bytes: %r" % pr.values)
check(pr2.values == [(1, 2), (3, 4), (5, 6)], "Pair isolation")
check(Pair.default == [(1, 2), (3, 4), (5, 6)], "Pair class default intact")
pr.bytes = b""
check(pr.values == [], "empty load")
pr.bytes = b"\x01"
check(pr.values == [], "short load")
check(raises(struct.error, lambda: pr.bytes), "length mismatch -> struct.error")

e = Enums()
e.bytes = bytes([2, 2, 1, 1])
check(e.values == [Color.green, Color.green, Color.red, Color.red], "enum decode")


def bad_enum():
    e.bytes = bytes([1, 2, 3, 1])


check(raises(ValueError, bad_enum), "invalid enum -> ValueError")
check(e.values == [Color.red, Color.green], "partial values kept on failure: %r" % e.values)
e.reset()
check(e.values == Enums.default and e.values is not Enums.default, "enum reset")
check(e.bytes == bytes([1, 2, 1]), "enum bytes")

d = DictDefault()
check(d.values == [{"k": 1}, {"k": 1}] and d.values[0] is d.values[1], "dict default repeated")

pl = Plain()
pl.values = [1, 2, 3, 40000]
check(raises(struct.error, lambda: pl.bytes), "out of range -> struct.error")
pl.values = [1, 2, 3]
check(raises(struct.error, lambda: pl.bytes), "too few values -> struct.error")
pl.bytes = pack("<hhhh", -1, 2, -3, 4)
check(pl.values == [-1, 2, -3, 4] and all(type(v) is int for v in pl.values), "signed decode")

# metamodule / multictl mapping arrays (override _set_bytes / default as method)
from rv.modules.metamodule import MetaModule
from rv.modules.multictl import MultiCtl

m1, m2 = MetaModule.MappingArray(), MetaModule.MappingArray()
check(len(m1.values) == 96 and m1.values[0] is not m1.values[1], "mapping objects distinct")
check(m1.values[0] is not m2.values[0], "mapping objects not shared across arrays")
m1.values[0].module = 5
check(m2.values[0].module == 0 and m1.values[1].module == 0, "mapping isolation")
m2.bytes = pack("<HHHH", 1, 2, 3, 4)
check(len(m2.values) == 96, "mapping padded to 96")
check((m2.values[1].module, m2.values[1].controller) == (3, 4), "mapping decode")
check(m2.bytes[:8] == pack("<HHHH", 1, 2, 3, 4) and m2.bytes[8:] == b"\0" * (94 * 4), "mapping bytes")
c1, c2 = MultiCtl.MappingArray(), MultiCtl.MappingArray()
check(c1.bytes == c2.bytes and len(c1.bytes) == 16 * 32, "multictl mapping bytes")
c1.values[3].max = 5
check(c2.values[3].max == 0x8000, "multictl mapping isolation")

# ------------------------------------------------------------- WaveformChunk
w = WaveformChunk()
check(w.samples == [] and w.format is None and w.freq is None, "bare waveform")
check("format" not in vars(w) and "freq" not in vars(w), "unfixed attrs not set on instance")
check(w.bytes == b"", "bare bytes")
w.samples = [0, 1, -1, 127, -128, 255, 256, -129, 1000]
check(w.bytes == bytes([0, 1, 255, 127, 128, 255, 0, 127, 1000 & 255]), "masking")
check(WaveformChunk().samples == [], "fresh samples")
for fmt in WaveformChunk.Format:
    w.format = fmt
    if fmt is WaveformChunk.Format.mono_8bit:
        check(len(w.bytes) == 9, "mono_8bit ok")
    else:
        check(raises(NotImplementedError, lambda: w.bytes), f"{fmt} -> NotImplementedError")
    check(w.chff() == pack("<I", fmt.value), "chff")
w.format = None
check(raises(AttributeError, w.chff), "chff with None format -> AttributeError")
check(raises(struct.error, w.chfr), "chfr with None freq -> struct.error")
w.freq = 2 ** 32
check(raises(struct.error, w.chfr), "chfr overflow -> struct.error")
w.freq = 48000
check(w.chfr() == pack("<I", 48000), "chfr")

d1, d2 = DrawnWaveformChunk(), DrawnWaveformChunk()
default_copy = list(DrawnWaveformChunk.default)
check(d1.samples is not d2.samples and d1.samples is not DrawnWaveformChunk.default, "drawn aliasing")
check(vars(d1)["format"] is WaveformChunk.Format.mono_8bit and vars(d1)["freq"] == 44100, "fixed attrs pinned")
check(d1.is_default and list(d1.chunks()) == [], "default not written")
for i in range(32):
    d1.samples[i] = i - 16
check(d2.samples == default_copy and DrawnWaveformChunk.default == default_copy, "drawn isolation")
check(d2.is_default and not d1.is_default, "is_default")
d1.chnm = 0
check(
    list(d1.chunks())
    == [
        (b"CHNM", pack("<I", 0)),
        (b"CHDT", bytes((i - 16) & 255 for i in range(32))),
        (b"CHFR", pack("<I", 44100)),
    ],
    "drawn chunks",
)
check(DrawnWaveformChunk().samples == default_copy, "fresh drawn after history")


class TupleWave(WaveformChunk):
    default = (1, 2, 3)
    fixed_freq = 8000


t = TupleWave()
check(t.samples == (1, 2, 3) and type(t.samples) is tuple, "slice semantics kept for non-list default")
check(t.freq == 8000 and "format" not in vars(t), "only freq pinned")

# modules using the chunks
from rv.modules.analoggenerator import AnalogGenerator
from rv.modules.generator import Generator

for M in (AnalogGenerator, Generator):
    x, y = M(), M()
    x.drawn_waveform.samples[0] = 99
    check(y.drawn_waveform.samples[0] == 0, f"{M.__name__}: drawn waveform shared")
    check(M().drawn_waveform.samples == default_copy, f"{M.__name__}: fresh default")

if failures:
    print("FAIL")
    for f_ in failures:
        print(" -", f_)
    sys.exit(1)
print("PASS")
