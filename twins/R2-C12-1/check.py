"""Behaviour check for Note cell codec and packed sub-field properties (C12)."""
import struct
import sys
import itertools
import random

import rv.api  # noqa: F401  (resolves the package's circular imports)
from rv.note import NOTECMD, Note

failures = []


def expect(cond, msg):
    if not cond:
        failures.append(msg)


SUBFIELDS = [
    # name, word attribute, is_high, sibling
    ("controller", "ctl", True, "effect"),
    ("effect", "ctl", False, "controller"),
    ("val_xx", "val", True, "val_yy"),
    ("val_yy", "val", False, "val_xx"),
]

# --- the four sub-fields are plain properties on the class -----------------
for name, _, _, _ in SUBFIELDS:
    expect(isinstance(getattr(Note, name), property), f"{name} not a property")
expect(isinstance(Note.raw_data, property), "raw_data not a property")

# --- getters: every 16-bit word -------------------------------------------
n = Note()
for word in range(0x10000):
    n.ctl = word
    n.val = word ^ 0xA55A
    if (n.controller, n.effect) != (word >> 8, word & 0xFF):
        failures.append(f"ctl getter {word:#x}")
        break
    w2 = word ^ 0xA55A
    if (n.val_xx, n.val_yy) != (w2 >> 8, w2 & 0xFF):
        failures.append(f"val getter {word:#x}")
        break

# --- setters: every old word x a set of new values, every new byte x sample
new_samples = [0, 1, 0x7F, 0x80, 0xFE, 0xFF]
rng = random.Random(12)
old_samples = [0, 1, 0xFF, 0x100, 0x1234, 0x8000, 0xFF00, 0xFFFF, 0x00FF, 0xABCD]
old_samples += [rng.randrange(0x10000) for _ in range(20)]


def reference(old, is_high, new):
    if is_high:
        return (old & 0x00FF) | ((new & 0xFF) << 8)
    return (old & 0xFF00) | (new & 0xFF)


for name, word_attr, is_high, sibling in SUBFIELDS:
    other_word = "val" if word_attr == "ctl" else "ctl"
    bad = None
    pairs = itertools.chain(
        itertools.product(range(0x10000), new_samples),
        itertools.product(old_samples, range(-300, 600)),
    )
    for old, new in pairs:
        n = Note(note=NOTECMD.C4, vel=77, module=0x0203)
        setattr(n, word_attr, old)
        setattr(n, other_word, 0x5AA5)
        sib_before = getattr(n, sibling)
        setattr(n, name, new)
        want = reference(old, is_high, new)
        got = getattr(n, word_attr)
        if got != want or type(got) is not int:
            bad = f"{name}: old={old:#x} new={new} -> {got!r}, want {want:#x}"
            break
        if getattr(n, name) != new & 0xFF:
            bad = f"{name}: read-back {getattr(n, name)} != {new & 0xFF}"
            break
        if getattr(n, sibling) != sib_before:
            bad = f"{name}: sibling {sibling} changed (old={old:#x}, new={new})"
            break
        if (n.note, n.vel, n.module, getattr(n, other_word)) != (
            NOTECMD.C4,
            77,
            0x0203,
            0x5AA5,
        ):
            bad = f"{name}: unrelated attribute changed"
            break
    if bad:
        failures.append(bad)

# enum / bool values are accepted as new values
n = Note(ctl=0x1234, val=0x5678)
n.effect = NOTECMD.C1
expect(n.ctl == 0x1200 | int(NOTECMD.C1), "enum into effect")
n.val_xx = True
expect(n.val == 0x0178, "bool into val_xx")

# words wider than 16 bits (not valid, but behaviour is defined)
n = Note()
n.ctl = 0x12345
expect(n.controller == 0x123, "wide word high getter is unmasked")
expect(n.effect == 0x45, "wide word low getter")
n.controller = 1
expect(n.ctl == 0x0145, "wide word truncated by high setter")
n.val = 0x12345
n.val_yy = 0xAB
expect(n.val == 0x23AB, "wide word truncated by low setter")

# non-integers are rejected with TypeError, word untouched
for name, word_attr, _, _ in SUBFIELDS:
    n = Note(ctl=0x1122, val=0x3344)
    for badval in ("7", 1.5, None):
        try:
            setattr(n, name, badval)
        except TypeError:
            pass
        else:
            failures.append(f"{name}: no TypeError for {badval!r}")
    expect((n.ctl, n.val) == (0x1122, 0x3344), f"{name}: word changed on error")

# --- raw_data: pack / unpack ------------------------------------------------
word_samples = [0, 1, 0xFF, 0x100, 0x8000, 0xFFFE, 0xFFFF, 0x1234]
count = 0
for cmd in NOTECMD:
    for vel in range(130):
        m, c, v = (
            word_samples[(count + 1) % 8],
            word_samples[(count // 3) % 8],
            word_samples[(count // 7) % 8],
        )
        count += 1
        n = Note(note=cmd, vel=vel, module=m, ctl=c, val=v)
        raw = n.raw_data
        want = struct.pack("<BBHHH", int(cmd), vel, m, c, v)
        if raw != want or type(raw) is not bytes or len(raw) != 8:
            failures.append(f"pack {cmd!r} {vel}")
            break
        n2 = Note(note=NOTECMD.C5, vel=3, module=9, ctl=9, val=9)
        n2.raw_data = raw
        if (n2.note, n2.vel, n2.module, n2.ctl, n2.val) != (int(cmd), vel, m, c, v):
            failures.append(f"unpack {cmd!r} {vel}")
            break
        if n2 != n or n2.raw_data != raw:
            failures.append(f"roundtrip {cmd!r} {vel}")
            break
for m, c, v in itertools.product(word_samples, repeat=3):
    n = Note(module=m, ctl=c, val=v)
    n2 = Note()
    n2.raw_data = n.raw_data
    expect(n2 == n and n2.raw_data == n.raw_data, f"roundtrip words {m},{c},{v}")

# every possible first/second byte decodes, also non-NOTECMD note bytes
for b in range(256):
    raw = bytes([b, 255 - b, 1, 2, 3, 4, 5, 6])
    n = Note()
    n.raw_data = raw
    expect(
        (n.note, n.vel, n.module, n.ctl, n.val) == (b, 255 - b, 0x0201, 0x0403, 0x0605),
        f"decode byte {b}",
    )
    expect(n.raw_data == raw, f"re-encode byte {b}")

# accepted buffer types
for buf in (bytearray(b"\x01\x02\x03\x04\x05\x06\x07\x08"), memoryview(b"\x01\x02\x03\x04\x05\x06\x07\x08")):
    n = Note()
    n.raw_data = buf
    expect(n.raw_data == bytes(buf), f"buffer type {type(buf).__name__}")

# wrong length -> struct.error, and the note is left untouched
for bad in (b"", b"\x01" * 7, b"\x01" * 9, b"\x01" * 16):
    n = Note(note=NOTECMD.D2, vel=5, module=6, ctl=7, val=8)
    try:
        n.raw_data = bad
    except struct.error:
        pass
    else:
        failures.append(f"no struct.error for length {len(bad)}")
    expect((n.note, n.vel, n.module, n.ctl, n.val) == (NOTECMD.D2, 5, 6, 7, 8), "partial assignment")
try:
    Note().raw_data = "12345678"
except TypeError:
    pass
else:
    failures.append("str buffer accepted")

# out-of-domain attribute values -> struct.error on encode
for attr_name, value in (("vel", 256), ("module", 0x10000), ("ctl", -1), ("val", 0x10000), ("note", 256)):
    n = Note()
    setattr(n, attr_name, value)
    try:
        n.raw_data
    except struct.error:
        pass
    else:
        failures.append(f"no struct.error for {attr_name}={value}")

# clone copies the five cell fields and nothing else
p = object()
n = Note(note=NOTECMD.NOTE_OFF, vel=129, module=0xFFFF, ctl=0x1234, val=0xABCD, pattern=p)
c = n.clone()
expect(c is not n and type(c) is Note, "clone identity")
expect(c.raw_data == n.raw_data, "clone bytes")
expect(c.pattern is None, "clone pattern")
expect((c.controller, c.effect, c.val_xx, c.val_yy) == (0x12, 0x34, 0xAB, 0xCD), "clone subfields")

if failures:
    print("FAIL")
    for f in failures[:20]:
        print("  ", f)
    sys.exit(1)
print("PASS")
