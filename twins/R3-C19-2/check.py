"""Behaviour check for Note.project / Note.module_index / Note.mod, in
particular after bulk pattern edits (set_via_fn / set_via_gen).

Passes on the unchanged tree and with the refactoring applied.
"""
import sys

from rv.api import NOTE, NOTECMD, Note, Pattern, Project, m
from rv.errors import ModuleOwnershipError, PatternOwnershipError

CHECKS = 0


def ok(cond, msg):
    global CHECKS
    CHECKS += 1
    if not cond:
        print("FAIL:", msg)
        sys.exit(1)


def raises(exc, f, msg, text=None):
    try:
        f()
    except exc as e:
        ok(type(e) is exc, msg + " (exact type)")
        if text is not None:
            ok(str(e) == text, msg + " (message %r)" % str(e))
    else:
        ok(False, msg + " (no exception)")


NO_PROJECT = "Pattern not owned by a project"
NO_PARENT = "Module must be attached to a project"


def make_project():
    project = Project()
    gen = project.new_module(m.Generator)
    fm = project.new_module(m.Fm)
    amp = project.new_module(m.Amplifier)
    return project, [project.output, gen, fm, amp]


def check_module_index():
    for value, want in [(0, None), (1, 0), (2, 1), (0xFFFF, 0xFFFE)]:
        n = Note(module=value)
        ok(n.module_index == want, "module_index for %r" % value)
        ok(n.module_index is None or type(n.module_index) is int, "index type")
    n = Note()
    n.module = 5
    ok(n.module_index == 4, "module_index follows assignment")
    n.module = 0
    ok(n.module_index is None, "module_index reset")


def check_unowned_note():
    n = Note(module=1)
    ok(n.pattern is None, "standalone note has no pattern")
    raises(AttributeError, lambda: n.project, "project of orphan note")
    raises(AttributeError, lambda: n.mod, "mod of orphan note")
    # the setter does not need a pattern
    project, mods = make_project()
    n.mod = mods[2]
    ok(n.module == 3 and n.module_index == 2, "setter on orphan note")
    ok(n.pattern is None, "setter does not adopt")


def check_detached_pattern():
    p = Pattern(lines=2, tracks=2)
    for row in p.data:
        for n in row:
            ok(n.project is None, "detached: project is None")
            raises(PatternOwnershipError, lambda: n.mod, "detached mod", NO_PROJECT)
    # module 0 still complains first about ownership
    n = p.data[0][0]
    ok(n.module == 0, "module 0")
    raises(PatternOwnershipError, lambda: n.mod, "detached mod, module 0", NO_PROJECT)
    p.set_via_fn(lambda pat, l, t: Note(module=1))
    for row in p.data:
        for n in row:
            ok(n.pattern is p and n.project is None, "detached after bulk edit")
            raises(PatternOwnershipError, lambda: n.mod, "detached mod 2", NO_PROJECT)


def check_lookup():
    project, mods = make_project()
    p = Pattern(lines=3, tracks=2)
    project.attach_pattern(p)
    n = p.data[1][1]
    ok(n.project is project, "project via pattern")
    ok(n.mod is None, "module 0 -> None")
    for i, mod in enumerate(mods):
        n.module = i + 1
        ok(n.mod is mod, "lookup %d" % i)
        ok(n.module_index == mod.index, "index %d" % i)
    n.module = len(mods) + 1
    ok(n.mod is None, "one past the end -> None")
    n.module = 0xFFFF
    ok(n.mod is None, "far past the end -> None")
    # empty slot in the module list
    project.modules[2] = None
    n.module = 3
    ok(n.mod is None, "empty slot -> None")
    n.module = 4
    ok(n.mod is mods[3], "slot after the empty one")
    # project without any modules
    project.modules.clear()
    n.module = 1
    ok(n.mod is None, "no modules -> None")
    n.module = 0
    ok(n.mod is None, "no modules, module 0 -> None")


def check_setter():
    project, mods = make_project()
    p = Pattern(lines=2, tracks=2)
    project.attach_pattern(p)
    n = p.data[0][1]
    for mod in reversed(mods):
        n.mod = mod
        ok(n.module == mod.index + 1, "setter stores index+1")
        ok(type(n.module) is int, "stored as int")
        ok(n.mod is mod, "setter/getter roundtrip")
    loose = m.Generator()
    ok(loose.parent is None, "unattached module")
    before = n.module
    raises(ModuleOwnershipError, lambda: setattr(n, "mod", loose), "loose", NO_PARENT)
    ok(n.module == before, "failed setter leaves module")
    # module of another project is accepted by index
    other, other_mods = make_project()
    n.mod = other_mods[1]
    ok(n.module == 2 and n.mod is mods[1], "foreign module maps by index")


def check_after_bulk_edits():
    for lines in (1, 2, 4):
        for tracks in (1, 3):
            project, mods = make_project()
            p = Pattern(lines=lines, tracks=tracks)
            project.attach_pattern(p)

            def fn(pat, line, track):
                return Note(note=NOTE.C5, vel=100, module=(line + track) % 6)

            p.set_via_fn(fn)
            for line in range(lines):
                for track in range(tracks):
                    n = p.data[line][track]
                    k = (line + track) % 6
                    ok(n.pattern is p and n.project is project, "owned after fn")
                    want = mods[k - 1] if 1 <= k <= len(mods) else None
                    ok(n.mod is want, "mod after fn at %d,%d" % (line, track))

            shared = Note(note=NOTECMD.NOTE_OFF, module=2)

            def gen(pat, new):
                ok(new is not pat.data, "gen gets a scratch grid")
                yield 0, 0, shared
                yield lines - 1, tracks - 1, shared
                new_note = Note(module=4)
                yield 0, tracks - 1, new_note

            p.set_via_gen(gen)
            if (lines, tracks) != (1, 1):
                ok(shared.pattern is p and shared.project is project, "adopted")
            else:
                ok(shared.pattern is None, "overwritten note is not adopted")
            for row in p.data:
                for n in row:
                    ok(n.pattern is p and n.project is project, "owned after gen")
                    n.mod  # must not raise
            if tracks != 1:
                ok(p.data[0][0].mod is mods[1], "mod of yielded note")
            ok(p.data[lines - 1][tracks - 1].mod is (
                mods[3] if lines == 1 else mods[1]), "mod of second yielded note")
            ok(p.data[0][tracks - 1].mod is mods[3], "mod of last yielded note")
            # assignment through the accessor on a bulk-installed note
            p.data[lines - 1][0].mod = mods[2]
            ok(p.data[lines - 1][0].mod is mods[2], "setter on installed note")

            # failing edits leave lookups intact
            class Boom(Exception):
                pass

            snapshot = [[(id(n), n.raw_data) for n in row] for row in p.data]
            for fail_at in range(lines * tracks):
                def bad(pat, line, track):
                    if line * tracks + track == fail_at:
                        raise Boom
                    return Note(module=1)

                raises(Boom, lambda: p.set_via_fn(bad), "fn failure")

                def badgen(pat, new):
                    for i in range(lines * tracks):
                        if i == fail_at:
                            raise Boom
                        yield i // tracks, i % tracks, Note(module=1)

                raises(Boom, lambda: p.set_via_gen(badgen), "gen failure")
                now = [[(id(n), n.raw_data) for n in row] for row in p.data]
                ok(now == snapshot, "contents unchanged after failures")
                ok(all(n.project is project for r in p.data for n in r), "owned")


def check_moving_pattern():
    # ownership follows the pattern's current project
    project, mods = make_project()
    p = Pattern(lines=1, tracks=1)
    n = p.data[0][0]
    n.module = 2
    raises(PatternOwnershipError, lambda: n.mod, "before attach", NO_PROJECT)
    project.attach_pattern(p)
    ok(n.mod is mods[1], "after attach")
    p.project = None
    raises(PatternOwnershipError, lambda: n.mod, "after detach", NO_PROJECT)
    # re-homing a note by hand
    q = Pattern(lines=1, tracks=1)
    other, other_mods = make_project()
    other.attach_pattern(q)
    n.pattern = q
    ok(n.project is other and n.mod is other_mods[1], "re-homed note")


def check_loaded_file():
    from io import BytesIO

    from rv.api import read_sunvox_file

    project, mods = make_project()
    p = Pattern(lines=2, tracks=2)
    project.attach_pattern(p)
    p.set_via_fn(lambda pat, l, t: Note(note=NOTE.C4, module=1 + l * 2 + t))
    f = BytesIO()
    project.write_to(f)
    f.seek(0)
    again = read_sunvox_file(f)
    q = again.patterns[0]
    for line in range(2):
        for track in range(2):
            n = q.data[line][track]
            ok(n.project is again, "loaded note project")
            ok(n.mod is again.modules[line * 2 + track], "loaded note mod")


check_module_index()
check_unowned_note()
check_detached_pattern()
check_lookup()
check_setter()
check_after_bulk_edits()
check_moving_pattern()
check_loaded_file()
print("PASS (%d checks)" % CHECKS)
