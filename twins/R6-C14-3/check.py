"""Behaviour check for C14 (module/pattern ownership and indexing).

Run from the repository root:
    PYTHONPATH=<root>/src/python python check.py

Focus of this script: the decision order inside Project.attach_module
(None / base Module / foreign owner / already attached / gap or end),
attach_pattern (positions, placeholders, refusals), new_module, __iadd__,
and every outcome of Note.mod / Note.module_index (no owner, no module,
empty slot, past the end, unvalidated numbers), on top of the general
attach / gap-fill / refusal / save-load histories.
"""
import os
import random
import sys
from io import BytesIO
from struct import pack

from rv.api import NOTE, NOTECMD, Note, Pattern, PatternClone, Project, m, read_sunvox_file
from rv.errors import ModuleOwnershipError, PatternOwnershipError
from rv.modules.module import Module
from rv.modules.output import Output

CHECKS = 0


def ok(cond, msg):
    global CHECKS
    CHECKS += 1
    if not cond:
        print("FAIL:", msg)
        sys.exit(1)


def raises(exc, fn, *args, **kw):
    try:
        fn(*args, **kw)
    except exc as e:
        return e
    except BaseException as e:  # pragma: no cover
        print("FAIL: expected %s, got %r" % (exc.__name__, e))
        sys.exit(1)
    print("FAIL: expected %s, nothing raised" % exc.__name__)
    sys.exit(1)


def coherent(project):
    ok(isinstance(project.modules[0], Output), "slot 0 is the output")
    ok(project.output is project.modules[0], "project.output is slot 0")
    for i, mod in enumerate(project.modules):
        if mod is None:
            continue
        ok(mod.index == i, "index %r == position %r" % (mod.index, i))
        ok(mod.parent is project, "parent is project")
        ok(project.module_index(mod) == i, "module_index agrees")
        ok(int(mod) == i + 1, "int(module)")
    for pat in project.patterns:
        if pat is not None:
            ok(pat.project is project, "pattern owner")


def snapshot(project):
    return (
        [id(x) if x is not None else None for x in project.modules],
        [(x.index, id(x.parent)) for x in project.modules if x is not None],
        [id(x) if x is not None else None for x in project.patterns],
        id(project.output),
    )


def roundtrip(project):
    f = BytesIO(project.read())
    return read_sunvox_file(f)


def shape(project):
    result = [None if x is None else (x.mtype, x.name, x.index) for x in project.modules]
    while result and result[-1] is None:  # the reader trims trailing empty slots
        result.pop()
    return result


# ---------------------------------------------------------------- fresh project
p = Project()
ok(len(p.modules) == 1 and p.modules[0] is p.output, "fresh project has only output")
ok(p.output.index == 0 and p.output.parent is p, "output back references")
ok(p.patterns == [], "no patterns")
coherent(p)

# append at end, returns the same object
amp = m.Amplifier()
ok(amp.index is None and amp.parent is None, "detached module has no owner")
ret = p.attach_module(amp)
ok(ret is amp and amp.index == 1 and amp.parent is p, "append first module")
gen = p.new_module(m.Generator, name="g", x=3)
ok(type(gen) is m.Generator and gen.index == 2 and gen.name == "g" and gen.x == 3, "new_module")
ok(p.modules == [p.output, amp, gen], "module list")
coherent(p)

# attaching twice is a no-op
before = snapshot(p)
ok(p.attach_module(amp) is amp, "reattach returns module")
ok(p.attach_module(amp, loading=True) is amp, "reattach (loading) returns module")
ok(p.attach_module(p.output) is p.output, "reattach output")
ok(snapshot(p) == before, "reattach changes nothing")

# base Module refused
before = snapshot(p)
e = raises(RuntimeError, p.attach_module, Module())
ok(not isinstance(e, ModuleOwnershipError), "plain RuntimeError")
ok(snapshot(p) == before, "refusal leaves state")

# foreign module refused
q = Project()
qa = q.new_module(m.Echo)
before_q = snapshot(q)
raises(ModuleOwnershipError, p.attach_module, qa)
raises(ModuleOwnershipError, p.attach_module, qa, loading=True)
raises(ModuleOwnershipError, p.attach_module, q.output)
raises(ModuleOwnershipError, p.__iadd__, qa)
raises(ModuleOwnershipError, p.__iadd__, [m.Lfo(), qa])
ok(snapshot(q) == before_q, "foreign project untouched")
ok(qa.index == 1 and qa.parent is q, "foreign module untouched")
ok(len(p.modules) == 4 and p.modules[:3] == [p.output, amp, gen], "list partially applied")
ok(type(p.modules[3]) is m.Lfo and p.modules[3].index == 3, "item before refused one was attached")
coherent(p)
coherent(q)

# None appends an empty slot, regardless of loading flag
ok(p.attach_module(None) is None, "None returns None")
ok(p.modules[-1] is None and len(p.modules) == 5, "None appended")
ok(p.attach_module(None, loading=True) is None, "None returns None (loading)")
ok(p.modules[-2:] == [None, None] and len(p.modules) == 6, "second None appended")
d1 = p.new_module(m.Delay)
ok(d1.index == 4 and p.modules[4] is d1 and len(p.modules) == 6, "lowest gap filled")
d2 = m.Delay()
ok(p.attach_module(d2, loading=True) is d2, "loading attach")
ok(d2.index == 6 and p.modules[5] is None and len(p.modules) == 7, "loading appends despite gap")
d3 = p.new_module(m.Delay)
ok(d3.index == 5 and len(p.modules) == 7, "remaining gap filled")
d4 = p.new_module(m.Delay)
ok(d4.index == 7 and len(p.modules) == 8, "no gap -> end")
coherent(p)

# a module with explicit parent=self / stale index kwargs
r = Project()
pre = m.Amplifier(index=17, parent=r)
ok(pre.index == 17, "kw index kept")
ok(r.attach_module(pre) is pre and pre.index == 1 and pre.parent is r, "preparented module attached and reindexed")
coherent(r)

# a second Output is an ordinary module unless it lands in slot 0
r = Project()
o2 = Output()
r.attach_module(o2)
ok(o2.index == 1 and r.output is r.modules[0] and r.output is not o2, "second output not the output")
r2 = Project()
r2.modules[0].parent = None
r2.modules[0] = None
o3 = Output()
r2.attach_module(o3)
ok(o3.index == 0 and r2.output is o3 and r2.modules == [o3], "output placed in empty slot 0 becomes project.output")
r3 = Project()
r3.modules[0] = None
a3 = r3.new_module(m.Amplifier)
ok(a3.index == 0 and r3.output is not a3, "non-output in slot 0 does not replace project.output")

# ---------------------------------------------------------------- random histories
rng = random.Random(1414)
classes = [m.Amplifier, m.Generator, m.Echo, m.Lfo, m.Delay, m.Filter, m.Reverb]
for trial in range(30):
    proj = Project()
    other = Project()
    for step in range(rng.randrange(5, 40)):
        op = rng.randrange(8)
        before = snapshot(proj)
        if op == 0:
            proj.attach_module(None)
            ok(proj.modules[-1] is None and snapshot(proj)[0][:-1] == before[0], "None appended only")
        elif op in (1, 2, 3):
            expect = proj.modules.index(None) if None in proj.modules else len(proj.modules)
            if op == 1:
                mod = proj.new_module(rng.choice(classes))
            elif op == 2:
                mod = rng.choice(classes)()
                proj += mod
            else:
                mod = proj.attach_module(rng.choice(classes)())
            ok(mod.index == expect, "lowest gap or end")
            after = snapshot(proj)[0]
            ok(
                all(a == b for i, (a, b) in enumerate(zip(after, before[0])) if i != expect),
                "no other module moved",
            )
            ok(len(after) == max(len(before[0]), expect + 1), "length")
        elif op == 4:
            mod = rng.choice(classes)()
            proj.attach_module(mod, loading=True)
            ok(mod.index == len(before[0]) and proj.modules[-1] is mod, "loading appends")
        elif op == 5:
            foreign = other.new_module(rng.choice(classes))
            raises(ModuleOwnershipError, proj.attach_module, foreign)
            ok(snapshot(proj) == before, "refused: nothing changes")
        elif op == 6:
            present = [x for x in proj.modules if x is not None]
            proj.attach_module(rng.choice(present))
            ok(snapshot(proj) == before, "reattach no-op")
        else:
            proj = roundtrip(proj)
        coherent(proj)
        coherent(other)
    shape1 = shape(proj)
    proj2 = roundtrip(proj)
    ok(shape(proj2) == shape1, "save/load keeps positions and gaps")
    coherent(proj2)
    expect = proj2.modules.index(None) if None in proj2.modules else len(proj2.modules)
    ok(proj2.new_module(m.Amplifier).index == expect, "gap fill after load")

# loaded project with a gap (issue54)
path = os.path.join("tests", "files", "issue54", "test1.sunvox")
if os.path.exists(path):
    with open(path, "rb") as f:
        lp = read_sunvox_file(f)
    coherent(lp)
    ok(None in lp.modules, "issue54 file has a gap")
    gap = lp.modules.index(None)
    n = len(lp.modules)
    filler = lp.new_module(m.Amplifier)
    ok(filler.index == gap and len(lp.modules) == n, "gap in loaded file filled")
    coherent(lp)

# ---------------------------------------------------------------- Note.mod
np_ = Project()
na = np_.new_module(m.Amplifier)
np_.attach_module(None)
nb = np_.new_module(m.Generator, )
nc = np_.new_module(m.Echo)
ok([x if x is None else x.index for x in np_.modules] == [0, 1, 2, 3], "gap filled before notes")
np_.attach_module(None)
pat = Pattern(tracks=2, lines=4)
note = pat.data[0][0]
ok(note.module == 0 and note.module_index is None, "empty note has no module")
raises(PatternOwnershipError, lambda: note.mod)
idx = np_.attach_pattern(pat)
ok(idx == 0 and pat.project is np_ and note.project is np_, "pattern attached")
ok(note.mod is None, "module 0 -> None")
for number in range(0, 12):
    note.module = number
    ok(note.module_index == (None if number == 0 else number - 1), "module_index")
    if number == 0:
        expected = None
    elif number - 1 < len(np_.modules):
        expected = np_.modules[number - 1]
    else:
        expected = None
    ok(note.mod is expected, "note.mod resolves position %d" % number)
note.module = 0xFFFF
ok(note.mod is None and note.module_index == 0xFFFE, "max module number")
for target in (np_.output, na, nb, nc):
    note.mod = target
    ok(note.module == target.index + 1 == int(target), "mod setter")
    ok(note.mod is target, "mod getter after setter")
lonely = m.Amplifier()
note.module = 3
e = raises(ModuleOwnershipError, setattr, note, "mod", lonely)
ok(note.module == 3, "setter refusal leaves note")
other_proj = Project()
oa = other_proj.new_module(m.Amplifier)
other_proj.new_module(m.Amplifier)
ob = other_proj.new_module(m.Amplifier)
note.mod = ob  # owned by another project: only the number is taken
ok(note.module == 4 and note.mod is np_.modules[3], "setter uses the index only")
orphan = Note()
raises(AttributeError, lambda: orphan.mod)
raises(AttributeError, lambda: orphan.project)
raises(AttributeError, setattr, note, "mod", None)

# raw_data and clone keep the module reference
for number in (0, 1, 2, 255, 256, 0xFFFF):
    n1 = Note(note=NOTE.C4, vel=64, module=number, ctl=0x1234, val=0xABCD)
    raw = n1.raw_data
    ok(raw == pack("<BBHHH", int(NOTE.C4), 64, number, 0x1234, 0xABCD), "raw_data bytes")
    ok(isinstance(raw, bytes) and len(raw) == 8, "raw_data is 8 bytes")
    n2 = Note()
    n2.raw_data = raw
    ok((n2.note, n2.vel, n2.module, n2.ctl, n2.val) == (NOTECMD.C4, 64, number, 0x1234, 0xABCD), "raw_data setter")
    ok(type(n2.note) is int and type(n2.module) is int, "plain ints stored by the raw_data setter")
    n3 = n1.clone()
    ok(n3 == Note(note=NOTE.C4, vel=64, module=number, ctl=0x1234, val=0xABCD) and n3.pattern is None, "clone")
bad = Note()
raises(Exception, setattr, bad, "raw_data", b"\0" * 7)
raises(Exception, setattr, bad, "raw_data", b"\0" * 9)
n5 = Note()
n5.raw_data = bytearray(b"\x01\x02\x03\x00\x04\x00\x05\x00")
ok((n5.note, n5.vel, n5.module, n5.ctl, n5.val) == (1, 2, 3, 4, 5), "raw_data from bytearray")
n5.raw_data = memoryview(b"\x00\x00\xff\xff\x00\x00\x00\x00")
ok(n5.module == 0xFFFF, "raw_data from memoryview")

# notes survive save/load and still resolve
note.mod = nc
pat.data[1][1].mod = np_.output
loaded = roundtrip(np_)
coherent(loaded)
lpat = loaded.patterns[0]
ok(lpat.data[0][0].mod is loaded.modules[nc.index], "note resolves after load")
ok(lpat.data[1][1].mod is loaded.output, "output note resolves after load")
ok(lpat.data[2][0].mod is None, "empty note after load")
ok(loaded.modules[-1] is loaded.modules[nc.index], "trailing gap trimmed by the reader")

# ---------------------------------------------------------------- patterns
pp = Project()
pa = Pattern()
ok(pp.attach_pattern(pa) == 0 and pa.project is pp, "first pattern index 0")
ok(pp.attach_pattern(None) == 1 and pp.patterns == [pa, None], "None pattern slot")
clone = PatternClone(source=0)
ok(pp.attach_pattern(clone) == 2 and clone.project is pp, "clone attached")
before = snapshot(pp)
raises(PatternOwnershipError, pp.attach_pattern, pa)
raises(PatternOwnershipError, Project().attach_pattern, pa)
raises(PatternOwnershipError, Project().attach_pattern, clone)
ok(snapshot(pp) == before and pa.project is pp, "pattern refusal leaves state")
pp += [Pattern(), m.Amplifier(), PatternClone(source=0), [m.Lfo(), Pattern()]]
ok(len(pp.patterns) == 6 and len(pp.modules) == 3, "+= list dispatch")
same = pp
pp += "ignored"
pp += None
pp += 5
ok(pp is same and len(pp.patterns) == 6 and len(pp.modules) == 3, "+= ignores other types")
coherent(pp)
coherent(roundtrip(pp))

# ---------------------------------------------------------------- decision order in attach_module
op_ = Project()
foreign_owner = Project()
# a base Module is refused with RuntimeError even when it claims another owner
e = raises(RuntimeError, op_.attach_module, Module(parent=foreign_owner))
ok(type(e) is RuntimeError and str(e) == "Cannot attach base Module instance.", "base module error")
e = raises(ModuleOwnershipError, op_.attach_module, m.Amplifier(parent=foreign_owner))
ok(str(e) == "Module is already attached to another project.", "ownership error text")
ok(op_.modules == [op_.output], "nothing attached by refusals")
# parent check precedes the membership check
member = op_.new_module(m.Amplifier)
member.parent = foreign_owner
snap = snapshot(op_)
raises(ModuleOwnershipError, op_.attach_module, member)
ok(snapshot(op_) == snap and member.index == 1, "foreign-claimed member refused, untouched")
member.parent = None  # orphaned but still listed: a no-op, parent is not repaired
ok(op_.attach_module(member) is member and member.parent is None, "listed module is left as is")
member.parent = op_
coherent(op_)
# attaching resets stale back references and fills the first of several gaps
gp = Project()
for _ in range(3):
    gp.attach_module(None)
tail = gp.attach_module(m.Echo(), loading=True)
ok(tail.index == 4, "loading appends after gaps")
stale = m.Amplifier(index=99)
ok(gp.attach_module(stale) is stale and stale.index == 1 and gp.modules[1] is stale, "first gap")
ok(gp.modules[2] is None and gp.modules[3] is None and gp.modules[4] is tail and tail.index == 4, "others untouched")
ok(gp.new_module(m.Lfo).index == 2 and gp.new_module(m.Lfo).index == 3 and gp.new_module(m.Lfo).index == 5, "fill order")
ok(None not in gp.modules and len(gp.modules) == 6, "all gaps used, grew by one")
coherent(gp)
# loading flag is judged by truthiness
tp = Project()
tp.attach_module(None)
t1 = tp.attach_module(m.Lfo(), loading=1)
ok(t1.index == 2, "truthy loading appends")
t2 = tp.attach_module(m.Lfo(), loading=0)
ok(t2.index == 1, "falsy loading fills")
t3 = tp.attach_module(m.Lfo(), loading=[])
ok(t3.index == 3, "falsy loading without gap appends")
coherent(tp)
# new_module passes positional and keyword arguments through and refuses base Module
nm = Project()
raises(RuntimeError, nm.new_module, Module)
ok(nm.modules == [nm.output], "base Module not attached by new_module")
gen2 = nm.new_module(m.Generator, name="lead", volume=77)
ok(gen2.name == "lead" and gen2.volume == 77 and gen2.index == 1 and gen2.parent is nm, "new_module kwargs")
raises(TypeError, nm.new_module, m.Generator, 1)
ok(len(nm.modules) == 2, "constructor failure attaches nothing")
ok(nm.new_module(lambda: None) is None and nm.modules[-1] is None, "factory returning None appends an empty slot")
o_late = nm.new_module(Output)
ok(o_late.index == 2 and nm.output is nm.modules[0], "late Output fills the gap but is not the project output")

# ---------------------------------------------------------------- attach_pattern details
ap = Project()
ok(ap.attach_pattern(None) == 0 and ap.attach_pattern(None) == 1, "placeholders get positions")
pt = Pattern(tracks=1, lines=1)
ok(ap.attach_pattern(pt) == 2 and pt.project is ap, "position after placeholders")
e = raises(PatternOwnershipError, ap.attach_pattern, pt)
ok(str(e) == "Pattern already attached to a project", "pattern error text")
ok(ap.patterns == [None, None, pt], "refused pattern not appended twice")
ok(ap.attach_pattern(0) == 3 and ap.attach_pattern("") == 4, "falsy placeholders are stored as given")
ok(ap.patterns[3] == 0 and ap.patterns[4] == "", "placeholders kept")
raises(AttributeError, ap.attach_pattern, "text")
ok(len(ap.patterns) == 5, "object without project attribute refused before append")
pc = PatternClone(source=2, x=4)
ok(ap.attach_pattern(pc) == 5 and pc.project is ap and pc.source_pattern is pt, "clone resolves source")
given = Pattern(project=ap)
raises(PatternOwnershipError, ap.attach_pattern, given)
ok(len(ap.patterns) == 6, "pre-owned pattern refused")

# ---------------------------------------------------------------- every outcome of Note.mod
mp = Project()
a1 = mp.new_module(m.Amplifier)
mp.attach_module(None)
a3 = mp.attach_module(m.Amplifier(), loading=True)
ok([None if x is None else x.index for x in mp.modules] == [0, 1, None, 3], "layout with gap")
mpat = Pattern(tracks=1, lines=2)
cell = mpat.data[0][0]
e = raises(PatternOwnershipError, lambda: cell.mod)
ok(str(e) == "Pattern not owned by a project", "note error text")
cell.module = 2
raises(PatternOwnershipError, lambda: cell.mod)  # ownership is checked before the number
mp += mpat
expected = {0: None, 1: mp.output, 2: a1, 3: None, 4: a3, 5: None, 6: None, 0xFFFF: None}
for number, target in expected.items():
    cell.module = number
    ok(cell.mod is target, "note.mod for number %d" % number)
# unvalidated numbers written straight to the attribute keep list semantics
cell.module = -1  # module_index -2 -> modules[-2]
ok(cell.module_index == -2 and cell.mod is mp.modules[-2], "negative number indexes from the end")
cell.module = -3
ok(cell.mod is mp.modules[-4], "negative number indexes from the end (2)")
cell.module = -10
raises(IndexError, lambda: cell.mod)
raises(ValueError, Note, module=-1)
raises(ValueError, Note, module=0x10000)
# setter
e = raises(ModuleOwnershipError, setattr, cell, "mod", m.Amplifier(index=4))
ok(str(e) == "Module must be attached to a project" and cell.module == -10, "setter refusal")
cell.mod = a3
ok(cell.module == 4 and cell.mod is a3, "setter + getter")
half = m.Amplifier(parent=mp)  # claims a parent but was never attached: index is None
raises(TypeError, setattr, cell, "mod", half)
ok(cell.module == 4, "failed setter leaves the note")
# a filled gap makes the note resolve, without touching the note
cell.module = 3
ok(cell.mod is None, "empty slot -> None")
filler = mp.new_module(m.Echo)
ok(filler.index == 2 and cell.mod is filler and cell.module == 3, "gap filled under the note")
# pattern cloned data still refers to the owning pattern/project
twin = cell.clone()
ok(twin.module == 3 and twin.pattern is None, "clone is detached")
raises(AttributeError, lambda: twin.mod)

print("PASS (%d checks)" % CHECKS)
