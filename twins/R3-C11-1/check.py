"""Behaviour check for refactoring C11-1 (Module.options_chunks / specialized_iff_chunks).

Exercises option packing for every option-bearing module type, with an
independent reference packer, plus edge cases on hand-built Module subclasses.
Passes on the unchanged tree and with the patch applied.
"""
import io
import itertools
import random
import struct
import sys
from enum import IntEnum

from rv.api import Project, Synth, m, read_sunvox_file
from rv.modules.module import Chunk, Module
from rv.option import Option

CLASSES = [m.AnalogGenerator, m.MetaModule, m.MultiSynth, m.Sampler, m.Sound2Ctl]
EXPECTED_COUNTS = {
    "AnalogGenerator": 14,
    "MetaModule": 12,
    "MultiSynth": 13,
    "Sampler": 8,
    "Sound2Ctl": 2,
}
EXPECTED_CHNM = {
    "AnalogGenerator": 1,
    "MetaModule": 2,
    "MultiSynth": 1,
    "Sampler": 0x101,
    "Sound2Ctl": 0,
}

failures = []


def check(cond, msg):
    if not cond:
        failures.append(msg)
        if len(failures) < 30:
            print("FAIL:", msg)


def ref_store(option, value):
    """Reference model of what the descriptor stores for an assigned value."""
    if option.min is not None and option.max is not None:
        return max(option.min, min(option.max, value))
    if option.size == 1:
        value = bool(value)
        if option.inverted:
            value = not value
    return value


def ref_chdt(cls, stored):
    """Independent packer: build the CHDT payload bit by bit."""
    length = max(o.byte for o in cls.options.values()) + 1
    bits = [[0] * 8 for _ in range(length)]
    for o in cls.options.values():
        v = int(stored[o.name])
        for i in range(o.size):
            if (v >> i) & 1:
                check(bits[o.byte][o.bit + i] == 0, f"bit clash {cls.__name__}.{o.name}")
                bits[o.byte][o.bit + i] = 1
    return bytes(sum(b << i for i, b in enumerate(row)) for row in bits)


def chunks_of(mod):
    return list(Module.options_chunks(mod))


def assert_chunks(mod, label):
    cls = type(mod)
    got = chunks_of(mod)
    want = [
        (b"CHNM", struct.pack("<I", EXPECTED_CHNM[cls.__name__])),
        (b"CHDT", ref_chdt(cls, mod.option_values)),
    ]
    check(got == want, f"{label}: chunks {got!r} != {want!r}")
    # options-bearing modules emit the same thing through the generic entry point
    check(list(Module.specialized_iff_chunks(mod)) == want, f"{label}: specialized")
    return got


def reload_values(mod, chdt):
    """Feed the CHDT back through load_options of a fresh instance."""
    fresh = type(mod)()
    c = Chunk()
    c.chnm = type(mod).options_chnm
    c.chdt = chdt
    fresh.load_options(c)
    return fresh


def same_values(a, b):
    return {k: int(v) for k, v in a.option_values.items()} == {
        k: int(v) for k, v in b.option_values.items()
    }


def file_roundtrip(mod):
    f = io.BytesIO()
    Synth(mod).write_to(f)
    f.seek(0)
    return read_sunvox_file(f).module


rng = random.Random(1105)

for cls in CLASSES:
    name = cls.__name__
    opts = list(cls.options.values())
    check(len(opts) == EXPECTED_COUNTS[name], f"{name}: option count {len(opts)}")
    check(cls.options_chnm == EXPECTED_CHNM[name], f"{name}: chnm")

    # defaults
    mod = cls()
    assert_chunks(mod, f"{name} defaults")

    # every representable value of every option, on top of defaults
    for o in opts:
        for v in range(2**o.size):
            mod = cls()
            setattr(mod, o.name, v)
            want = ref_store(o, v)
            check(mod.option_values[o.name] == want, f"{name}.{o.name}={v}: stored")
            got = assert_chunks(mod, f"{name}.{o.name}={v}")
            back = reload_values(mod, got[1][1])
            check(same_values(mod, back), f"{name}.{o.name}={v}: reload")
            check(
                getattr(back, o.name) == getattr(mod, o.name),
                f"{name}.{o.name}={v}: getattr after reload",
            )
        # written record covers the option's byte
        check(len(chunks_of(cls())[1][1]) > o.byte, f"{name}.{o.name}: coverage")

    # all pairs, extreme values
    for a, b in itertools.permutations(opts, 2):
        for va, vb in ((2**a.size - 1, 2**b.size - 1), (2**a.size - 1, 0), (1, 1)):
            mod = cls()
            setattr(mod, a.name, va)
            setattr(mod, b.name, vb)
            got = assert_chunks(mod, f"{name}.{a.name}={va},{b.name}={vb}")
            back = reload_values(mod, got[1][1])
            check(same_values(mod, back), f"{name} pair {a.name},{b.name}: reload")
            if b.name in a.exclusive_of:
                check(
                    not (mod.option_values[a.name] and mod.option_values[b.name]),
                    f"{name} exclusive {a.name},{b.name}",
                )

    # random full assignments, some through a real file
    for trial in range(60):
        mod = cls()
        order = opts[:]
        rng.shuffle(order)
        for o in order:
            setattr(mod, o.name, rng.randrange(2**o.size))
        got = assert_chunks(mod, f"{name} random {trial}")
        back = reload_values(mod, got[1][1])
        check(same_values(mod, back), f"{name} random {trial}: reload")
        if trial < 6:
            again = file_roundtrip(mod)
            check(same_values(mod, again), f"{name} random {trial}: file")
            check(chunks_of(again) == got, f"{name} random {trial}: file chunks")

# a project holding all five types writes the same payloads
proj = Project()
mods = []
for cls in CLASSES:
    mod = cls()
    for o in cls.options.values():
        setattr(mod, o.name, rng.randrange(2**o.size))
    proj.attach_module(mod)
    mods.append(mod)
proj2 = proj.clone()
for mod in mods:
    other = proj2.modules[mod.index]
    check(same_values(mod, other), f"project {type(mod).__name__}")
    check(chunks_of(other) == chunks_of(mod), f"project chunks {type(mod).__name__}")

# MetaModule clamp [0, 96]
mm = m.MetaModule()
for v, want in ((-7, 0), (0, 0), (1, 1), (96, 96), (97, 96), (255, 96), (1000, 96)):
    mm.user_defined_controllers = v
    check(mm.user_defined_controllers == want, f"clamp {v}")
    check(chunks_of(mm)[1][1][0] == want, f"clamp {v} byte")

# modules with no options: placeholder pair, and nothing else
for cls in (m.Amplifier, m.Delay, m.Output):
    check(list(Module.specialized_iff_chunks(cls())) == [(None, None)], cls.__name__)


# ---- hand-built layouts -------------------------------------------------
class Mode(IntEnum):
    a = 0
    b = 1
    c = 2
    d = 3


class Fake(Module):
    name = mtype = "C11 fake"
    mgroup = "Misc"
    flags = default_flags = 0
    options_chnm = 0x1234

    low = Option(name="low", byte=0, bit=0, size=3, default=0)
    mid = Option(name="mid", byte=0, bit=3, size=4, default=0)
    top = Option(name="top", byte=0, bit=7, size=1, default=False)
    mode = Option(name="mode", byte=5, bit=2, size=2, default=Mode.a)
    last = Option(name="last", byte=63, bit=0, size=8, default=0)


fk = Fake()
check(chunks_of(fk) == [(b"CHNM", b"\x34\x12\0\0"), (b"CHDT", bytes(64))], "fake dflt")
fk.low, fk.mid, fk.top, fk.mode, fk.last = 5, 9, True, Mode.d, 0xA7
want = bytearray(64)
want[0] = 5 | (9 << 3) | 0x80
want[5] = 3 << 2
want[63] = 0xA7
check(chunks_of(fk)[1] == (b"CHDT", bytes(want)), "fake packed")
check(all(type(x) is bytes for _, x in chunks_of(fk)), "fake types")
# values wider than the slot are truncated, negatives wrap within the slot
fk.low, fk.mid, fk.mode, fk.last = 0xFD, -1, 6, 0x1FF
want[0] = 5 | (15 << 3) | 0x80
want[5] = 2 << 2
want[63] = 0xFF
check(chunks_of(fk)[1] == (b"CHDT", bytes(want)), "fake truncation")
check(fk.low == 0xFD and fk.mid == -1, "stored value untouched by packing")
# packing never mutates stored option values
before = dict(fk.option_values)
chunks_of(fk)
check(fk.option_values == before, "no mutation")
# the generator does its work lazily, on first next()
gen = fk.options_chunks()
fk.last = 1
want[63] = 1
check(list(gen)[1][1] == bytes(want), "lazy evaluation")

# a missing stored value is a TypeError on first next()
del fk.option_values["mid"]
gen = fk.options_chunks()
try:
    next(gen)
    check(False, "missing value: no error")
except TypeError:
    pass
fk.option_values["mid"] = 0


class Empty(Module):
    name = mtype = "C11 empty"
    mgroup = "Misc"
    flags = default_flags = 0
    options_chnm = 7


check(list(Empty().options_chunks()) == [(b"CHNM", b"\x07\0\0\0"), (b"CHDT", b"")], "empty")
check(list(Empty().specialized_iff_chunks()) == [(None, None)], "empty special")


class Overflow(Module):
    name = mtype = "C11 overflow"
    mgroup = "Misc"
    flags = default_flags = 0
    wide = Option(name="wide", byte=1, bit=4, size=8, default=0)


ov = Overflow()
ov.wide = 0x0F
check(list(ov.options_chunks())[1][1] == b"\0\xf0", "overflow fits")
ov.wide = 0x1F
gen = ov.options_chunks()
check(next(gen) == (b"CHNM", b"\0\0\0\0"), "overflow: CHNM first")
try:
    next(gen)
    check(False, "overflow: no error")
except struct.error:
    pass


class TooFar(Module):
    name = mtype = "C11 toofar"
    mgroup = "Misc"
    flags = default_flags = 0
    far = Option(name="far", byte=64, bit=0, size=1, default=False)


try:
    next(TooFar().options_chunks())
    check(False, "byte 64: no error")
except IndexError:
    pass

if failures:
    print(f"{len(failures)} failure(s)")
    sys.exit(1)
print("PASS")
