"""Behaviour check for Project.connect() and the >>, << and ~ link operators.

Runs the real library against a tiny independent model of the four link
tables and compares them entry by entry after every operation.
Prints PASS and exits 0 when everything matches.
"""
import itertools
import random
import sys

from rv.api import Project, m
from rv.errors import ModuleOwnershipError
from rv.modules.module import DisconnectingModule, Module, ModuleList


# --------------------------------------------------------------------------
# reference model
# --------------------------------------------------------------------------
class Model:
    def __init__(self, n):
        self.t = {i: dict(il=[], ils=[], ol=[], ols=[]) for i in range(n)}

    def op(self, src, dst, disconnect):
        to, fr = self.t[dst], self.t[src]
        if disconnect:
            if src not in to["il"]:
                return
            i = to["il"].index(src)
            o = fr["ol"].index(dst)
            to["il"][i] = -1
            fr["ol"][o] = -1
            to["ils"][i] = -1
            fr["ols"][o] = -1
        else:
            if src in to["il"]:
                return
            i = len(to["il"])
            to["il"].append(src)
            o = len(fr["ol"])
            fr["ol"].append(dst)
            to["ils"].append(o)
            fr["ols"].append(i)

    def pairs(self):
        return sorted(
            (src, dst) for dst, t in self.t.items() for src in t["il"] if src >= 0
        )


def tables(project):
    return {
        mod.index: dict(
            il=list(mod.in_links),
            ils=list(mod.in_link_slots),
            ol=list(mod.out_links),
            ols=list(mod.out_link_slots),
        )
        for mod in project.modules
        if mod is not None
    }


def assert_consistent(project):
    """Every live link is recorded on both ends at the slot the other names."""
    mods = project.modules
    seen = set()
    for mod in mods:
        assert len(mod.in_links) == len(mod.in_link_slots)
        assert len(mod.out_links) == len(mod.out_link_slots)
        for slot, (src, src_slot) in enumerate(zip(mod.in_links, mod.in_link_slots)):
            if src < 0:
                assert src_slot == -1
                continue
            assert (src, mod.index) not in seen, "pair connected twice"
            seen.add((src, mod.index))
            assert mods[src].out_links[src_slot] == mod.index
            assert mods[src].out_link_slots[src_slot] == slot
        for slot, (dst, dst_slot) in enumerate(zip(mod.out_links, mod.out_link_slots)):
            if dst < 0:
                assert dst_slot == -1
                continue
            assert mods[dst].in_links[dst_slot] == mod.index
            assert mods[dst].in_link_slots[dst_slot] == slot
    return seen


def new_project(n):
    project = Project()
    for _ in range(n - 1):
        project.new_module(m.Amplifier)
    assert [mod.index for mod in project.modules] == list(range(n))
    return project


def wrap(mod, dis):
    return ~mod if dis else mod


def build_operand(project, spec):
    """spec is ("one", (idx, dis)) or ("list"/"mlist"/"tuple", [(idx, dis)...])."""
    kind, body = spec
    if kind == "one":
        return wrap(project.modules[body[0]], body[1])
    items = [wrap(project.modules[i], d) for i, d in body]
    if kind == "list":
        return items
    if kind == "mlist":
        return ModuleList(project, items)
    return tuple(items)


def spec_items(spec):
    kind, body = spec
    return [body] if kind == "one" else list(body)


def apply_to_model(model, src_spec, dst_spec):
    for s, sd in spec_items(src_spec):
        for d, dd in spec_items(dst_spec):
            model.op(s, d, sd or dd)


def apply_to_project(project, how, src_spec, dst_spec):
    src = build_operand(project, src_spec)
    dst = build_operand(project, dst_spec)
    if how == "call":
        assert project.connect(src, dst) is None
        return
    if how == ">>":
        left, right, result = src, dst, None
        result = left >> right
    else:
        left, right = dst, src
        result = left << right
    # chaining result: the right operand, lists re-wrapped in a ModuleList
    if isinstance(right, list):
        assert type(result) is ModuleList
        assert result is not right
        assert list(result) == list(right)
        assert all(a is b for a, b in zip(result, right))
        assert result.parent is project
    else:
        assert result is right


def usable(how, src_spec, dst_spec):
    """Operators need a left operand that implements them."""
    if how == "call":
        return True
    left = src_spec if how == ">>" else dst_spec
    if left[0] in ("list", "tuple"):
        return False
    if left[0] == "one" and left[1][1]:
        return False  # the ~ wrapper has no operators of its own
    return True


# --------------------------------------------------------------------------
# 1. exhaustive short histories on a 3-module project, single operands
# --------------------------------------------------------------------------
def check_exhaustive_single():
    n = 3
    atoms = [
        (how, s, d, dis_s, dis_d)
        for how in ("call", ">>", "<<")
        for s in range(n)
        for d in range(n)
        for dis_s, dis_d in ((False, False), (True, False), (False, True), (True, True))
    ]
    atoms = [
        a for a in atoms if usable(a[0], ("one", (a[1], a[3])), ("one", (a[2], a[4])))
    ]
    count = 0
    for length in (1, 2):
        for history in itertools.product(atoms, repeat=length):
            project, model = new_project(n), Model(n)
            for how, s, d, dis_s, dis_d in history:
                src_spec, dst_spec = ("one", (s, dis_s)), ("one", (d, dis_d))
                apply_to_project(project, how, src_spec, dst_spec)
                apply_to_model(model, src_spec, dst_spec)
                assert tables(project) == model.t, (history, tables(project), model.t)
                assert sorted(assert_consistent(project)) == model.pairs()
            count += 1
    return count


# --------------------------------------------------------------------------
# 2. exhaustive single call-histories of length 3 over connect/disconnect
# --------------------------------------------------------------------------
def check_exhaustive_calls():
    n = 3
    atoms = [(s, d, dis) for s in range(n) for d in range(n) for dis in (False, True)]
    count = 0
    for history in itertools.product(atoms, repeat=3):
        project, model = new_project(n), Model(n)
        for s, d, dis in history:
            src_spec, dst_spec = ("one", (s, dis)), ("one", (d, False))
            apply_to_project(project, "call", src_spec, dst_spec)
            apply_to_model(model, src_spec, dst_spec)
        assert tables(project) == model.t, history
        assert sorted(assert_consistent(project)) == model.pairs()
        count += 1
    return count


# --------------------------------------------------------------------------
# 3. random long histories with list operands of every flavour
# --------------------------------------------------------------------------
def random_spec(rng, n):
    kind = rng.choice(["one", "one", "list", "mlist", "tuple"])
    if kind == "one":
        return ("one", (rng.randrange(n), rng.random() < 0.3))
    size = rng.randrange(0, 4)
    dis_all = rng.random() < 0.3
    body = [
        (rng.randrange(n), dis_all or rng.random() < 0.15) for _ in range(size)
    ]  # duplicates and overlaps on purpose
    return (kind, body)


def check_random(seed, rounds, steps):
    rng = random.Random(seed)
    count = 0
    for _ in range(rounds):
        n = rng.randrange(2, 7)
        project, model = new_project(n), Model(n)
        for _ in range(steps):
            how = rng.choice(["call", ">>", "<<"])
            src_spec, dst_spec = random_spec(rng, n), random_spec(rng, n)
            if not usable(how, src_spec, dst_spec):
                how = "call"
            apply_to_project(project, how, src_spec, dst_spec)
            apply_to_model(model, src_spec, dst_spec)
            assert tables(project) == model.t, (how, src_spec, dst_spec)
            assert sorted(assert_consistent(project)) == model.pairs()
            count += 1
    return count


# --------------------------------------------------------------------------
# 4. fixed scenarios: overlap, reconnect, chaining, errors, odd operands
# --------------------------------------------------------------------------
def check_scenarios():
    # overlapping list after a partial connection: the rest is still linked
    p = new_project(5)
    out, a, b, c, d = p.modules
    a >> b
    b << [a, c, d]
    assert b.in_links == [1, 3, 4] and b.in_link_slots == [0, 0, 0]
    assert a.out_links == [2] and c.out_links == [2] and d.out_links == [2]
    # overlapping list disconnect where the first pair is already gone
    a >> ~b
    assert b.in_links == [-1, 3, 4] and a.out_links == [-1]
    p.connect([~a, ~c, ~d], b)
    assert b.in_links == [-1, -1, -1] and b.in_link_slots == [-1, -1, -1]
    assert c.out_links == [-1] and d.out_link_slots == [-1]
    # reconnect after disconnect appends new slots, freed ones stay -1
    a >> b
    assert b.in_links == [-1, -1, -1, 1] and b.in_link_slots == [-1, -1, -1, 1]
    assert a.out_links == [-1, 2] and a.out_link_slots == [-1, 3]
    assert_consistent(p)

    # chaining through lists and single modules
    p = new_project(6)
    out, a, b, c, d, e = p.modules
    res = a >> [b, c] >> d >> [e] >> out
    assert res is out
    assert d.in_links == [2, 3] and e.in_links == [4] and out.in_links == [5]
    assert a.out_links == [2, 3] and a.out_link_slots == [0, 0]
    assert b.out_link_slots == [0] and c.out_link_slots == [1]
    res = out << [e] << d
    assert res is d  # nothing new: all already connected
    assert d.out_links == [5]
    assert_consistent(p)

    # a disconnecting wrapper on either side, or both, disconnects
    p = new_project(3)
    out, a, b = p.modules
    a >> b
    p.connect(~a, ~b)
    assert b.in_links == [-1] and a.out_links == [-1]
    a >> b
    res = b << ~a
    assert isinstance(res, DisconnectingModule) and res.orig is a
    assert b.in_links == [-1, -1] and a.out_links == [-1, -1]
    a >> b
    res = a >> ~b
    assert isinstance(res, DisconnectingModule) and res.orig is b
    assert b.in_links == [-1, -1, -1]
    for bad in (lambda: ~a >> b, lambda: ~b << a):
        try:
            bad()  # the wrapper itself has no operators
        except TypeError:
            pass
        else:
            raise AssertionError("expected TypeError")
    assert b.in_links == [-1, -1, -1]
    # wrapper delegates attributes, double inversion gives the module back
    w = ~a
    assert isinstance(w, DisconnectingModule) and not isinstance(w, Module)
    assert w.orig is a and ~w is a and w.index == a.index and w.parent is p
    w.name = "renamed"
    assert a.name == "renamed"
    res = w.__rshift__(b)  # explicit lookup is delegated to the module: connects
    assert res is b and b.in_links == [-1, -1, -1, 1]
    # disconnecting a pair that was never connected is a no-op
    p.connect(~out, a)
    assert a.in_links == [] and out.out_links == []
    # self loop
    a >> a
    assert a.in_links[-1] == a.index and a.out_links[-1] == a.index
    assert_consistent(p)

    # empty lists are fine and do nothing
    p = new_project(2)
    out, a = p.modules
    p.connect([], a)
    p.connect(a, [])
    assert (a >> []) == [] and tables(p) == Model(2).t

    # generators: the inner one is consumed by the first outer element
    p = new_project(4)
    out, a, b, c = p.modules
    p.connect((x for x in [a, b]), (y for y in [c, out]))
    assert c.in_links == [1] and out.in_links == [1] and b.out_links == []

    # foreign modules are refused, before or after partial work
    p, q = new_project(3), new_project(3)
    out, a, b = p.modules
    qa = q.modules[1]
    for args in ((a, qa), (qa, a), (~a, qa), (qa, ~a), (qa, qa), (a, m.Amplifier())):
        try:
            p.connect(*args)
        except ModuleOwnershipError as e:
            assert str(e) == (
                "Modules must have same parent to be connected or disconnected"
            )
            assert isinstance(e.__context__, ValueError)
            assert e.__cause__ is None and not e.__suppress_context__
        else:
            raise AssertionError("foreign module accepted")
    assert tables(p) == Model(3).t and tables(q) == Model(3).t
    try:
        p.connect(a, [b, qa, out])
    except ModuleOwnershipError:
        pass
    else:
        raise AssertionError("foreign module accepted")
    assert b.in_links == [1] and out.in_links == [] and qa.in_links == []
    try:
        a >> qa
    except ModuleOwnershipError:
        pass
    else:
        raise AssertionError("foreign module accepted")
    # unattached left operand: no project to ask
    try:
        m.Amplifier() >> a
    except AttributeError:
        pass
    else:
        raise AssertionError("unattached module connected")

    # inconsistent tables (hand edited): the ValueError is not swallowed
    p = new_project(3)
    out, a, b = p.modules
    a >> b
    a.out_links[0] = 0
    try:
        p.connect(~a, b)
    except ValueError as e:
        assert not isinstance(e, ModuleOwnershipError)
    else:
        raise AssertionError("expected ValueError")
    assert b.in_links == [1] and b.in_link_slots == [0]

    # ModuleList keeps list behaviour and its parent
    p = new_project(3)
    out, a, b = p.modules
    ml = ModuleList(p, [a, b])
    assert ml == [a, b] and ml.parent is p and len(ModuleList(p)) == 0
    res = ml >> out
    assert res is out and out.in_links == [1, 2]
    res = ml << [out]
    assert type(res) is ModuleList and res == [out]
    assert a.in_links == [0] and b.in_links == [0] and out.out_links == [1, 2]
    res2 = ml >> res
    assert type(res2) is ModuleList and res2 is not res
    assert_consistent(p)

    # fresh modules start with four distinct empty tables
    x = m.Amplifier()
    lists = [x.in_links, x.in_link_slots, x.out_links, x.out_link_slots]
    assert lists == [[], [], [], []]
    assert len({id(l) for l in lists}) == 4


def main():
    n1 = check_exhaustive_single()
    n2 = check_exhaustive_calls()
    n3 = check_random(20240707, rounds=60, steps=40)
    check_scenarios()
    print(f"histories: {n1} + {n2} exhaustive, {n3} random steps")
    print("PASS")
    return 0


if __name__ == "__main__":
    sys.exit(main())
