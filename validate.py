#!/usr/bin/env python3
"""Validate MANIFEST.json and evidence/*.json against the schemas (run with python3-vt)."""
import json, sys, glob, jsonschema
m = json.load(open('/verif/MANIFEST.json'))
jsonschema.validate(m, json.load(open('/root/.vp/MANIFEST.schema.json')))
es = json.load(open('/root/.vp/EVIDENCE.schema.json'))
for c in m["checks"]:
    p = '/verif/' + c["evidence_file"]
    try:
        e = json.load(open(p))
    except FileNotFoundError:
        print("missing", p); continue
    jsonschema.validate(e, es)
    assert e["level"] == c["level_claimed"]["category"], (p, e["level"])
print("ok", len(m["checks"]), "checks")
