"""Source model of /repo: parsed files, class index, MRO, constant folding.

Nothing from ``rv`` or ``genrv`` is imported or executed; everything here works on
``ast`` trees of the files in the current working tree.
"""

from __future__ import annotations

import ast
import hashlib
import os
import struct
from dataclasses import dataclass, field
from pathlib import Path
from typing import Any, Dict, Iterable, List, Optional, Tuple


def repo_root() -> Path:
    return Path(os.environ.get("RV_VERIF_REPO", "/repo"))


PY_ROOT = "src/python"


class AnchorMissing(Exception):
    """An anchor (class, function, handler, file) the rule needs is not in the tree."""


class NotConst(Exception):
    pass


@dataclass
class SourceFile:
    rel: str
    path: Path
    text: str
    tree: ast.Module
    sha256: str
    modname: str

    _imports: Optional[Dict[str, Tuple[str, Optional[str]]]] = None

    @property
    def imports(self) -> Dict[str, Tuple[str, Optional[str]]]:
        """local name -> (module, attribute or None)."""
        if self._imports is None:
            imp: Dict[str, Tuple[str, Optional[str]]] = {}
            for node in ast.walk(self.tree):
                if isinstance(node, ast.Import):
                    for a in node.names:
                        imp[a.asname or a.name.split(".")[0]] = (a.name, None)
                elif isinstance(node, ast.ImportFrom):
                    mod = node.module or ""
                    if node.level:
                        parts = self.modname.split(".")
                        # a module file: package is everything but the last part
                        is_pkg = self.rel.endswith("__init__.py")
                        base = parts if is_pkg else parts[:-1]
                        base = base[: len(base) - (node.level - 1)]
                        mod = ".".join(base + ([mod] if mod else []))
                    for a in node.names:
                        imp[a.asname or a.name] = (mod, a.name)
            self._imports = imp
        return self._imports


@dataclass
class ClassInfo:
    name: str
    qualname: str  # e.g. "Sampler.Envelope"
    file: SourceFile
    node: ast.ClassDef
    outer: Optional["ClassInfo"] = None
    methods: Dict[str, ast.FunctionDef] = field(default_factory=dict)
    getters: Dict[str, ast.FunctionDef] = field(default_factory=dict)
    setters: Dict[str, ast.FunctionDef] = field(default_factory=dict)
    assigns: Dict[str, ast.expr] = field(default_factory=dict)
    assign_stmts: Dict[str, ast.stmt] = field(default_factory=dict)
    nested: Dict[str, "ClassInfo"] = field(default_factory=dict)
    order: List[str] = field(default_factory=list)  # assignment order of names

    @property
    def fq(self) -> str:
        return f"{self.file.modname}.{self.qualname}"

    def __repr__(self):
        return f"<Class {self.fq}>"


def _decorator_names(fn: ast.FunctionDef) -> List[str]:
    out = []
    for d in fn.decorator_list:
        try:
            out.append(ast.unparse(d))
        except Exception:
            out.append("?")
    return out


NORMAL_FORM_BY_DEFAULT = True


class NFDict(dict):
    """name -> FunctionDef; reads give the function in normal form (see Repo.own_method), `.raw` the definitions as written.
    A function that is being normalised is handed out as written to whoever asks for it meanwhile (mutual references)."""

    def __init__(self, repo, ci):
        super().__init__()
        self._repo, self._ci = repo, ci
        self._nf = {}
        self._busy = set()

    @property
    def raw(self):
        return {k: dict.__getitem__(self, k) for k in dict.keys(self)}

    def _norm(self, k, v):
        if not NORMAL_FORM_BY_DEFAULT or k in self._busy:
            return v
        if k not in self._nf or self._nf[k][0] is not v:
            self._busy.add(k)
            try:
                from . import inline
                try:
                    self._nf[k] = (v, inline.normalize(self._repo, self._ci, v))
                except Exception:
                    self._nf[k] = (v, v)
            finally:
                self._busy.discard(k)
        return self._nf[k][1]

    def __getitem__(self, k):
        return self._norm(k, dict.__getitem__(self, k))

    def get(self, k, default=None):
        return self._norm(k, dict.__getitem__(self, k)) if dict.__contains__(self, k) else default

    def items(self):
        return [(k, self[k]) for k in dict.keys(self)]

    def values(self):
        return [self[k] for k in dict.keys(self)]


def _strip_local_annotations(tree: ast.AST) -> None:
    """Inside function bodies `x: T = v` is read as `x = v`, and a bare `x: T` as nothing (annotations of locals have no run-time
    effect).  Class-level and module-level annotated assignments stay (record fields, typed constants are read from them)."""
    class F(ast.NodeTransformer):
        def __init__(self):
            self.depth = 0

        def visit_FunctionDef(self, node):
            self.depth += 1
            self.generic_visit(node)
            self.depth -= 1
            return node
        visit_AsyncFunctionDef = visit_FunctionDef

        def visit_ClassDef(self, node):
            saved, self.depth = self.depth, 0
            self.generic_visit(node)
            self.depth = saved
            return node

        def visit_AnnAssign(self, node):
            if self.depth == 0:
                return node
            if node.value is None:
                return ast.copy_location(ast.Pass(), node)
            new = ast.Assign(targets=[node.target], value=node.value)
            ast.copy_location(new, node)
            return new
    F().visit(tree)
    ast.fix_missing_locations(tree)


class Repo:
    def __init__(self, root: Optional[Path] = None):
        self.root = Path(root) if root else repo_root()
        self.files: Dict[str, SourceFile] = {}
        self.by_mod: Dict[str, SourceFile] = {}
        self.classes: Dict[str, List[ClassInfo]] = {}  # simple qualname -> infos
        self.consulted: Dict[str, str] = {}
        self._load()

    # ------------------------------------------------------------------ loading
    def _load(self):
        base = self.root / PY_ROOT
        if not base.is_dir():
            raise AnchorMissing(f"{base} is not a directory")
        for p in sorted(base.rglob("*.py")):
            rel = str(p.relative_to(self.root))
            text = p.read_text(encoding="utf8")
            try:
                tree = ast.parse(text, filename=rel)
            except SyntaxError as e:
                raise AnchorMissing(f"{rel} does not parse: {e}")
            _strip_local_annotations(tree)
            modparts = list(p.relative_to(base).with_suffix("").parts)
            if modparts[-1] == "__init__":
                modparts = modparts[:-1]
            sf = SourceFile(
                rel=rel,
                path=p,
                text=text,
                tree=tree,
                sha256=hashlib.sha256(text.encode("utf8")).hexdigest(),
                modname=".".join(modparts),
            )
            self.files[rel] = sf
            self.by_mod[sf.modname] = sf
            for node in tree.body:
                if isinstance(node, ast.ClassDef):
                    self._index_class(sf, node, None)
                elif isinstance(node, (ast.If, ast.Try)):
                    for sub in ast.walk(node):
                        if isinstance(sub, ast.ClassDef):
                            self._index_class(sf, sub, None)
        # members installed by code (factory products, partialmethod, setattr loops over constant tables)
        from . import synth
        self.synthesized = synth.synthesize(self)
        # property getters / setters are read in normal form wherever a rule takes them from the class model
        for cs in list(self.classes.values()):
            for c in cs:
                if not isinstance(c.getters, NFDict):
                    g, st = NFDict(self, c), NFDict(self, c)
                    for k, v in c.getters.items():
                        dict.__setitem__(g, k, v)
                    for k, v in c.setters.items():
                        dict.__setitem__(st, k, v)
                    c.getters, c.setters = g, st

    def _index_class(self, sf: SourceFile, node: ast.ClassDef, outer: Optional[ClassInfo]):
        qual = f"{outer.qualname}.{node.name}" if outer else node.name
        ci = ClassInfo(name=node.name, qualname=qual, file=sf, node=node, outer=outer)
        for st in node.body:
            if isinstance(st, (ast.FunctionDef, ast.AsyncFunctionDef)):
                decos = _decorator_names(st)
                if "property" in decos:
                    ci.getters[st.name] = st
                elif any(d.endswith(".setter") for d in decos):
                    ci.setters[st.name] = st
                else:
                    ci.methods[st.name] = st
            elif isinstance(st, ast.ClassDef):
                self._index_class(sf, st, ci)
            elif isinstance(st, ast.Assign):
                for t in st.targets:
                    for name, val in _unpack_targets(t, st.value):
                        ci.assigns[name] = val
                        ci.assign_stmts[name] = st
                        if name in ci.order:
                            ci.order.remove(name)
                        ci.order.append(name)
            elif isinstance(st, ast.AnnAssign) and isinstance(st.target, ast.Name):
                if st.value is not None:
                    ci.assigns[st.target.id] = st.value
                    ci.assign_stmts[st.target.id] = st
                    ci.order.append(st.target.id)
        if outer:
            outer.nested[node.name] = ci
        self.classes.setdefault(qual, []).append(ci)
        if outer:
            self.classes.setdefault(node.name, []).append(ci)

    # --------------------------------------------------------------- accessors
    def file(self, rel: str) -> SourceFile:
        sf = self.files.get(rel)
        if sf is None:
            raise AnchorMissing(f"file {rel} not found")
        self.consulted[rel] = sf.sha256
        return sf

    def module(self, modname: str) -> SourceFile:
        sf = self.by_mod.get(modname)
        if sf is None:
            raise AnchorMissing(f"module {modname} not found")
        self.consulted[sf.rel] = sf.sha256
        return sf

    def text_file(self, rel: str) -> str:
        p = self.root / rel
        if not p.is_file():
            raise AnchorMissing(f"file {rel} not found")
        text = p.read_text(encoding="utf8")
        self.consulted[rel] = hashlib.sha256(text.encode("utf8")).hexdigest()
        return text

    def consult_all(self, prefix: str = "rv", exclude: Tuple[str, ...] = ("rv.tools", "rv._vendor")) -> int:
        """Record every module under `prefix` as consulted (for rules that scan the whole package)."""
        n = 0
        for rel, sf in self.files.items():
            if sf.modname.startswith(prefix) and not sf.modname.startswith(exclude):
                self.consulted[rel] = sf.sha256
                n += 1
        return n

    def cls(self, name: str, module: Optional[str] = None) -> ClassInfo:
        """Class by (qualified) name; `module` (dotted) disambiguates."""
        cands = self.classes.get(name, [])
        if module:
            cands = [c for c in cands if c.file.modname == module]
        # prefer exact qualname matches over nested simple-name matches
        exact = [c for c in cands if c.qualname == name]
        if exact:
            cands = exact
        if not cands:
            raise AnchorMissing(f"class {name} not found" + (f" in {module}" if module else ""))
        if len(cands) > 1:
            # prefer rv.* over others
            rv = [c for c in cands if c.file.modname.startswith("rv.")]
            if len(rv) == 1:
                cands = rv
            else:
                raise AnchorMissing(
                    f"class {name} ambiguous: {[c.fq for c in cands]}"
                )
        ci = cands[0]
        self.consulted[ci.file.rel] = ci.file.sha256
        return ci

    def has_cls(self, name: str, module: Optional[str] = None) -> bool:
        try:
            self.cls(name, module)
            return True
        except AnchorMissing:
            return False

    def all_classes(self) -> Iterable[ClassInfo]:
        seen = set()
        for lst in self.classes.values():
            for c in lst:
                if id(c) not in seen:
                    seen.add(id(c))
                    yield c

    def func(self, modname: str, name: str) -> ast.FunctionDef:
        sf = self.module(modname)
        for node in sf.tree.body:
            if isinstance(node, ast.FunctionDef) and node.name == name:
                return node
        raise AnchorMissing(f"function {modname}.{name} not found")

    def module_assign(self, modname: str, name: str) -> ast.expr:
        sf = self.module(modname)
        found = None
        for node in sf.tree.body:
            if isinstance(node, ast.Assign):
                for t in node.targets:
                    for n, v in _unpack_targets(t, node.value):
                        if n == name:
                            found = v
            elif isinstance(node, ast.AnnAssign) and isinstance(node.target, ast.Name):
                if node.target.id == name and node.value is not None:
                    found = node.value
        if found is None:
            raise AnchorMissing(f"{modname}.{name} not assigned at module level")
        return found

    # -------------------------------------------------------------------- MRO
    def resolve_base(self, ci: ClassInfo, expr: ast.expr) -> Optional[ClassInfo]:
        """Resolve a base-class expression of `ci` to a ClassInfo (or None if external)."""
        try:
            dotted = ast.unparse(expr)
        except Exception:
            return None
        head = dotted.split(".")[0]
        # nested / same-file
        sf = ci.file
        # same outer class scope
        scope = ci.outer
        while scope is not None:
            if head in scope.nested and dotted == head:
                return scope.nested[head]
            scope = scope.outer
        # same module top-level
        for c in self.classes.get(dotted, []):
            if c.file is sf and c.qualname == dotted:
                return c
        # imported
        imp = sf.imports.get(head)
        if imp:
            mod, attr = imp
            rest = dotted.split(".")[1:]
            if attr is None:
                # `import x.y` then x.y.Z
                target_mod, qual = None, None
                parts = dotted.split(".")
                for i in range(len(parts) - 1, 0, -1):
                    m = ".".join(parts[:i])
                    if m in self.by_mod:
                        target_mod, qual = m, ".".join(parts[i:])
                        break
                if target_mod:
                    return self._class_in_module(target_mod, qual)
                return None
            qual = ".".join([attr] + rest)
            got = self._class_in_module(mod, qual)
            if got:
                return got
            # imported a module object: from rv import modules
            sub = f"{mod}.{attr}"
            if sub in self.by_mod and rest:
                return self._class_in_module(sub, ".".join(rest))
            return None
        return None

    def _class_in_module(self, mod: str, qual: str, depth: int = 0) -> Optional[ClassInfo]:
        if depth > 4:
            return None
        for c in self.classes.get(qual, []):
            if c.file.modname == mod and c.qualname == qual:
                return c
        # re-export through the module's own imports (rv.modules -> rv.modules.module)
        sf = self.by_mod.get(mod)
        if sf is not None:
            head = qual.split(".")[0]
            imp = sf.imports.get(head)
            if imp and imp[1] is not None:
                rest = qual.split(".")[1:]
                return self._class_in_module(imp[0], ".".join([imp[1]] + rest), depth + 1)
        return None

    def bases(self, ci: ClassInfo) -> List[ClassInfo]:
        out = []
        for b in ci.node.bases:
            r = self.resolve_base(ci, b)
            if r is not None:
                out.append(r)
        return out

    def base_names(self, ci: ClassInfo) -> List[str]:
        return [ast.unparse(b) for b in ci.node.bases]

    def mro(self, ci: ClassInfo) -> List[ClassInfo]:
        """C3 linearisation over the classes known to the model."""
        def merge(seqs):
            res = []
            seqs = [list(s) for s in seqs if s]
            while seqs:
                for s in seqs:
                    head = s[0]
                    if not any(head in t[1:] for t in seqs):
                        break
                else:
                    raise AnchorMissing(f"inconsistent MRO for {ci.fq}")
                res.append(head)
                for s in seqs:
                    if s and s[0] is head:
                        del s[0]
                seqs = [s for s in seqs if s]
            return res

        def lin(c, depth=0):
            if depth > 20:
                raise AnchorMissing("MRO too deep")
            bs = self.bases(c)
            return [c] + merge([lin(b, depth + 1) for b in bs] + [bs])

        return lin(ci)

    def is_subclass(self, ci: ClassInfo, base_name: str) -> bool:
        return any(c.name == base_name for c in self.mro(ci))

    def subclasses(self, base_name: str) -> List[ClassInfo]:
        return [c for c in self.all_classes() if c.name != base_name and self.is_subclass(c, base_name)]

    def lookup(self, ci: ClassInfo, attr: str):
        """First definition of `attr` along the MRO: (owner, kind, node).

        kind in {"method", "property", "assign", "class"}; for properties node is
        (getter, setter-or-None) searched on the same owner.
        """
        for c in self.mro(ci):
            if attr in c.getters or attr in c.setters:
                return c, "property", (c.getters.get(attr), c.setters.get(attr))
            if attr in c.methods:
                return c, "method", c.methods[attr]
            if attr in c.assigns:
                return c, "assign", c.assigns[attr]
            if attr in c.nested:
                return c, "class", c.nested[attr]
        return None

    def method(self, ci: ClassInfo, name: str) -> Tuple[ClassInfo, ast.FunctionDef]:
        r = self.lookup(ci, name)
        if r is None or r[1] != "method":
            raise AnchorMissing(f"method {ci.qualname}.{name} not found")
        self.consulted[r[0].file.rel] = r[0].file.sha256
        return r[0], r[2]

    def own_method(self, ci: ClassInfo, name: str, raw: bool = False) -> ast.FunctionDef:
        """The method as the rules read it: in normal form (private helpers inlined, constant tables unrolled, struct objects and
        named integer constants written out — see sa/inline.py).  `raw=True` gives the definition as written."""
        if name not in ci.methods:
            raise AnchorMissing(f"method {ci.qualname}.{name} not defined on the class")
        if raw or not NORMAL_FORM_BY_DEFAULT:
            return ci.methods[name]
        cache = self.__dict__.setdefault("_nf_cache", {})
        key = (id(ci), name)
        if key not in cache:
            from . import inline
            try:
                cache[key] = inline.normalize(self, ci, ci.methods[name])
            except Exception:
                cache[key] = ci.methods[name]
        return cache[key]

    def getter(self, ci: ClassInfo, name: str) -> Tuple[ClassInfo, ast.FunctionDef]:
        r = self.lookup(ci, name)
        if r is None or r[1] != "property" or r[2][0] is None:
            raise AnchorMissing(f"property getter {ci.qualname}.{name} not found")
        return r[0], r[2][0]

    def setter(self, ci: ClassInfo, name: str) -> Tuple[ClassInfo, ast.FunctionDef]:
        r = self.lookup(ci, name)
        if r is None or r[1] != "property" or r[2][1] is None:
            raise AnchorMissing(f"property setter {ci.qualname}.{name} not found")
        return r[0], r[2][1]

    # --------------------------------------------------------- constant folding
    def fold(self, expr: ast.expr, ci: Optional[ClassInfo] = None, sf: Optional[SourceFile] = None,
             env: Optional[Dict[str, Any]] = None, depth: int = 0) -> Any:
        """Fold `expr` to a Python constant or raise NotConst.

        `ci` gives the class scope (for ``self.X``/``cls.X``/bare class-level names),
        `sf` the module scope, `env` local bindings.
        """
        if depth > 40:
            raise NotConst("too deep")
        env = env or {}
        if sf is None and ci is not None:
            sf = ci.file
        f = lambda e, **kw: self.fold(e, ci=ci, sf=sf, env=kw.get("env", env), depth=depth + 1)
        if isinstance(expr, ast.Constant):
            return expr.value
        if isinstance(expr, ast.Tuple):
            return tuple(f(e) for e in expr.elts)
        if isinstance(expr, ast.List):
            return [f(e) for e in expr.elts]
        if isinstance(expr, ast.Set):
            return set(f(e) for e in expr.elts)
        if isinstance(expr, ast.Dict):
            return {f(k): f(v) for k, v in zip(expr.keys, expr.values) if k is not None}
        if isinstance(expr, ast.UnaryOp):
            v = f(expr.operand)
            if isinstance(expr.op, ast.USub):
                return -v
            if isinstance(expr.op, ast.UAdd):
                return +v
            if isinstance(expr.op, ast.Invert):
                return ~v
            if isinstance(expr.op, ast.Not):
                return not v
        if isinstance(expr, ast.BinOp):
            a, b = f(expr.left), f(expr.right)
            try:
                return _BINOPS[type(expr.op)](a, b)
            except KeyError:
                raise NotConst(ast.dump(expr.op))
            except Exception as e:
                raise NotConst(str(e))
        if isinstance(expr, ast.BoolOp):
            vals = [f(v) for v in expr.values]
            if isinstance(expr.op, ast.And):
                r = True
                for v in vals:
                    r = v
                    if not v:
                        break
                return r
            r = False
            for v in vals:
                r = v
                if v:
                    break
            return r
        if isinstance(expr, ast.Compare) and len(expr.ops) == 1:
            a, b = f(expr.left), f(expr.comparators[0])
            op = type(expr.ops[0])
            if op in _CMPOPS:
                try:
                    return _CMPOPS[op](a, b)
                except Exception as e:
                    raise NotConst(str(e))
        if isinstance(expr, ast.Compare) and len(expr.ops) > 1:
            left = f(expr.left)
            for op, comp in zip(expr.ops, expr.comparators):
                right = f(comp)
                if type(op) not in _CMPOPS:
                    raise NotConst("compare op")
                try:
                    if not _CMPOPS[type(op)](left, right):
                        return False
                except Exception as e:
                    raise NotConst(str(e))
                left = right
            return True
        if isinstance(expr, ast.IfExp):
            return f(expr.body) if f(expr.test) else f(expr.orelse)
        if isinstance(expr, ast.Name):
            if expr.id in env:
                return env[expr.id]
            if expr.id in ("True", "False", "None"):
                return {"True": True, "False": False, "None": None}[expr.id]
            # class scope, outward
            scope = ci
            while scope is not None:
                if expr.id in scope.assigns:
                    return self.fold(scope.assigns[expr.id], ci=scope, sf=scope.file, depth=depth + 1)
                scope = scope.outer
            if sf is not None:
                return self._fold_module_name(sf, expr.id, depth)
            raise NotConst(expr.id)
        if isinstance(expr, ast.Attribute) and expr.attr == "size" and isinstance(expr.value, (ast.Name, ast.Attribute, ast.Call)):
            # CODEC.size with CODEC = Struct(F) (a module / class constant, or written in place): the record size of F
            d = expr.value
            if isinstance(d, (ast.Name, ast.Attribute)):
                try:
                    from . import inline as _inl
                    d = _inl.definition_of(self, ci, sf, d) or d
                except Exception:
                    pass
            if isinstance(d, ast.Call) and norm(d.func).split(".")[-1] == "Struct" and len(d.args) == 1:
                import struct as _struct
                fmt_ = f(d.args[0])
                if isinstance(fmt_, str):
                    try:
                        return _struct.calcsize(fmt_)
                    except _struct.error as e:
                        raise NotConst(str(e))
        if isinstance(expr, ast.Attribute):
            return self._fold_attribute(expr, ci, sf, env, depth)
        if isinstance(expr, ast.Subscript):
            base = f(expr.value)
            if isinstance(expr.slice, ast.Slice):
                lo = f(expr.slice.lower) if expr.slice.lower else None
                hi = f(expr.slice.upper) if expr.slice.upper else None
                st = f(expr.slice.step) if expr.slice.step else None
                try:
                    return base[lo:hi:st]
                except Exception as e:
                    raise NotConst(str(e))
            try:
                return base[f(expr.slice)]
            except Exception as e:
                raise NotConst(str(e))
        if isinstance(expr, ast.Call):
            return self._fold_call(expr, ci, sf, env, depth)
        if isinstance(expr, ast.JoinedStr):
            parts = []
            for v in expr.values:
                if isinstance(v, ast.Constant):
                    parts.append(str(v.value))
                elif isinstance(v, ast.FormattedValue) and v.format_spec is None and v.conversion == -1:
                    parts.append(str(f(v.value)))
                else:
                    raise NotConst("f-string")
            return "".join(parts)
        if isinstance(expr, (ast.ListComp, ast.GeneratorExp, ast.SetComp)):
            return self._fold_comp(expr, ci, sf, env, depth)
        raise NotConst(type(expr).__name__)

    def _fold_comp(self, expr, ci, sf, env, depth):
        if len(expr.generators) != 1:
            raise NotConst("nested comprehension")
        gen = expr.generators[0]
        it = self.fold(gen.iter, ci=ci, sf=sf, env=env, depth=depth + 1)
        out = []
        n = 0
        for item in it:
            n += 1
            if n > 100000:
                raise NotConst("too long")
            e2 = dict(env)
            _bind(gen.target, item, e2)
            if all(self.fold(c, ci=ci, sf=sf, env=e2, depth=depth + 1) for c in gen.ifs):
                out.append(self.fold(expr.elt, ci=ci, sf=sf, env=e2, depth=depth + 1))
        if isinstance(expr, ast.SetComp):
            return set(out)
        return out

    def _fold_module_name(self, sf: SourceFile, name: str, depth: int):
        # module-level assignment
        for node in sf.tree.body:
            if isinstance(node, ast.Assign):
                for t in node.targets:
                    for n, v in _unpack_targets(t, node.value):
                        if n == name:
                            return self.fold(v, sf=sf, depth=depth + 1)
            elif isinstance(node, ast.AnnAssign) and isinstance(node.target, ast.Name):
                if node.target.id == name and node.value is not None:
                    return self.fold(node.value, sf=sf, depth=depth + 1)
        imp = sf.imports.get(name)
        if imp and imp[1] is not None and imp[0] in self.by_mod:
            return self._fold_module_name(self.by_mod[imp[0]], imp[1], depth + 1)
        raise NotConst(name)

    def class_of_expr(self, expr: ast.expr, ci: Optional[ClassInfo], sf: Optional[SourceFile]) -> Optional[ClassInfo]:
        """Resolve an expression that names a class (Name / dotted Attribute)."""
        try:
            dotted = ast.unparse(expr)
        except Exception:
            return None
        parts = dotted.split(".")
        if parts[0] in ("self", "cls") and ci is not None:
            cur = ci
            # self.X where X is a nested class through the MRO
            for p in parts[1:]:
                r = self.lookup(cur, p)
                if r is None or r[1] != "class":
                    return None
                cur = r[2]
            return cur if cur is not ci or len(parts) == 1 else cur
        # walk scopes
        cur: Optional[ClassInfo] = None
        scope = ci
        while scope is not None and cur is None:
            if scope.name == parts[0]:
                cur = scope
            elif parts[0] in scope.nested:
                cur = scope.nested[parts[0]]
            scope = scope.outer
        if cur is None and sf is not None:
            cur = self._class_in_module(sf.modname, parts[0])
        if cur is None:
            return None
        for p in parts[1:]:
            r = self.lookup(cur, p)
            if r is None or r[1] != "class":
                return None
            cur = r[2]
        return cur

    def enum_members(self, ci: ClassInfo) -> Dict[str, Any]:
        """Members of an Enum/IntEnum class body, folded."""
        out: Dict[str, Any] = {}
        for name in ci.order:
            if name.startswith("__"):
                continue
            try:
                out[name] = self.fold(ci.assigns[name], ci=ci, sf=ci.file)
            except NotConst:
                raise NotConst(f"enum member {ci.qualname}.{name}")
        return out

    def is_enum(self, ci: ClassInfo) -> bool:
        names = self.base_names(ci)
        return any(n.split(".")[-1] in ("Enum", "IntEnum", "IntFlag", "Flag") for n in names)

    def _fold_attribute(self, expr: ast.Attribute, ci, sf, env, depth):
        # self.X / cls.X -> class attribute through the MRO
        if isinstance(expr.value, ast.Name) and expr.value.id in ("self", "cls") and ci is not None \
                and expr.value.id not in env:
            r = self.lookup(ci, expr.attr)
            if r and r[1] == "assign":
                return self.fold(r[2], ci=r[0], sf=r[0].file, depth=depth + 1)
            if r and r[1] == "property" and r[2][0] is not None:
                ret = _single_return(r[2][0])
                if ret is not None:
                    return self.fold(ret, ci=ci, sf=r[0].file, depth=depth + 1)
            raise NotConst(ast.unparse(expr))
        # Enum member / class constant: Class.X, Outer.Class.X, X.value
        if expr.attr in ("value",):
            v = self.fold(expr.value, ci=ci, sf=sf, env=env, depth=depth + 1)
            return v  # IntEnum members fold to their int
        owner = self.class_of_expr(expr.value, ci, sf)
        if owner is not None:
            r = self.lookup(owner, expr.attr)
            if r and r[1] == "assign":
                return self.fold(r[2], ci=r[0], sf=r[0].file, depth=depth + 1)
            raise NotConst(ast.unparse(expr))
        # module attribute: mod.X
        if isinstance(expr.value, ast.Name) and sf is not None:
            imp = sf.imports.get(expr.value.id)
            if imp:
                modname = imp[0] if imp[1] is None else f"{imp[0]}.{imp[1]}"
                if modname in self.by_mod:
                    return self._fold_module_name(self.by_mod[modname], expr.attr, depth + 1)
        # folded value attribute (e.g. tuple.count) unsupported
        raise NotConst(ast.unparse(expr))

    def _fold_call(self, expr: ast.Call, ci, sf, env, depth):
        f = lambda e: self.fold(e, ci=ci, sf=sf, env=env, depth=depth + 1)
        fn = expr.func
        name = ast.unparse(fn)
        if expr.keywords and name not in ("dict",):
            raise NotConst("keywords")
        args = expr.args
        simple = {
            "len": len, "max": max, "min": min, "int": int, "bool": bool, "abs": abs,
            "tuple": tuple, "list": list, "bytes": bytes, "sum": sum, "sorted": sorted,
            "hex": hex, "str": str, "set": set, "reversed": lambda x: list(reversed(x)),
            "range": lambda *a: range(*a), "enumerate": lambda *a: list(enumerate(*a)),
            "zip": lambda *a: list(zip(*a)), "float": float,
        }
        if name in simple:
            try:
                return simple[name](*[f(a) for a in args])
            except NotConst:
                raise
            except Exception as e:
                raise NotConst(str(e))
        if name in ("calcsize", "struct.calcsize") and len(args) == 1:
            fmt = f(args[0])
            try:
                return struct.calcsize(fmt)
            except Exception as e:
                raise NotConst(str(e))
        # Enum(value) -> value
        owner = self.class_of_expr(fn, ci, sf)
        if owner is not None and self.is_enum(owner) and len(args) == 1:
            return f(args[0])
        if isinstance(fn, ast.Attribute):
            if fn.attr in ("encode",) and len(args) <= 1:
                s = f(fn.value)
                if isinstance(s, str):
                    return s.encode(*(f(a) for a in args)) if args else s.encode()
            if fn.attr in ("copy",) and not args:
                v = f(fn.value)
                return v.copy() if hasattr(v, "copy") else v
            if fn.attr in ("lower", "upper", "strip") and not args:
                return getattr(f(fn.value), fn.attr)()
            if fn.attr == "format":
                try:
                    return f(fn.value).format(*[f(a) for a in args])
                except NotConst:
                    raise
                except Exception as e:
                    raise NotConst(str(e))
            if fn.attr in ("keys", "values", "items") and not args:
                return list(getattr(f(fn.value), fn.attr)())
            if fn.attr in ("ljust", "rjust") and len(args) == 2:
                return getattr(f(fn.value), fn.attr)(f(args[0]), f(args[1]))
        raise NotConst(name)


def _bind(target: ast.expr, value: Any, env: Dict[str, Any]):
    if isinstance(target, ast.Name):
        env[target.id] = value
    elif isinstance(target, (ast.Tuple, ast.List)):
        vals = list(value)
        if len(vals) != len(target.elts):
            raise NotConst("unpack length")
        for t, v in zip(target.elts, vals):
            _bind(t, v, env)
    else:
        raise NotConst("bind target")


def _single_return(fn: ast.FunctionDef) -> Optional[ast.expr]:
    body = [s for s in fn.body if not (isinstance(s, ast.Expr) and isinstance(s.value, ast.Constant))]
    if len(body) == 1 and isinstance(body[0], ast.Return):
        return body[0].value
    return None


def _unpack_targets(target: ast.expr, value: ast.expr):
    """Yield (name, value-expr) for simple and tuple-unpacking class/module assignments.

    For ``(A, B, C) = range(1, 4)`` the value of each name is synthesised as a constant.
    For ``(a, b) = [f(i) for i in range(N)]`` each name is bound to the element expression
    with the loop variable left symbolic (value = the comprehension node tagged with index).
    """
    if isinstance(target, ast.Name):
        yield target.id, value
    elif isinstance(target, (ast.Tuple, ast.List)):
        names = [t.id for t in target.elts if isinstance(t, ast.Name)]
        if len(names) != len(target.elts):
            return
        if isinstance(value, (ast.Tuple, ast.List)) and len(value.elts) == len(names):
            for n, v in zip(names, value.elts):
                yield n, v
        elif isinstance(value, ast.Call) and ast.unparse(value.func) == "range":
            try:
                args = [ast.literal_eval(a) for a in value.args]
                vals = list(range(*args))
            except Exception:
                return
            if len(vals) == len(names):
                for n, v in zip(names, vals):
                    yield n, ast.copy_location(ast.Constant(value=v), value)
        else:
            for i, n in enumerate(names):
                yield n, IndexedElement(value, i, len(names))


class IndexedElement(ast.expr):
    """Synthetic node: the i-th element of an unpacked iterable expression."""

    _fields = ("source", "index", "count")

    def __init__(self, source, index, count):
        super().__init__()
        self.source = source
        self.index = index
        self.count = count
        ast.copy_location(self, source)


_BINOPS = {
    ast.Add: lambda a, b: a + b,
    ast.Sub: lambda a, b: a - b,
    ast.Mult: lambda a, b: _guard_mult(a, b),
    ast.FloorDiv: lambda a, b: a // b,
    ast.Div: lambda a, b: a / b,
    ast.Mod: lambda a, b: a % b,
    ast.Pow: lambda a, b: _guard_pow(a, b),
    ast.LShift: lambda a, b: _guard_shift(a, b),
    ast.RShift: lambda a, b: a >> b,
    ast.BitOr: lambda a, b: a | b,
    ast.BitAnd: lambda a, b: a & b,
    ast.BitXor: lambda a, b: a ^ b,
}

_CMPOPS = {
    ast.Eq: lambda a, b: a == b,
    ast.NotEq: lambda a, b: a != b,
    ast.Lt: lambda a, b: a < b,
    ast.LtE: lambda a, b: a <= b,
    ast.Gt: lambda a, b: a > b,
    ast.GtE: lambda a, b: a >= b,
    ast.In: lambda a, b: a in b,
    ast.NotIn: lambda a, b: a not in b,
    ast.Is: lambda a, b: a is b,
    ast.IsNot: lambda a, b: a is not b,
}


def _guard_mult(a, b):
    for x, y in ((a, b), (b, a)):
        if isinstance(x, (str, bytes, list, tuple)) and isinstance(y, int) and y > 1_000_000:
            raise NotConst("huge repeat")
    return a * b


def _guard_pow(a, b):
    if isinstance(b, int) and abs(b) > 4096:
        raise NotConst("huge pow")
    return a**b


def _guard_shift(a, b):
    if isinstance(b, int) and b > 4096:
        raise NotConst("huge shift")
    return a << b


# ------------------------------------------------------------------ AST helpers
def norm(node: ast.AST) -> str:
    """Normalised source text of a node (stable under reformatting)."""
    try:
        return ast.unparse(node)
    except Exception:
        return type(node).__name__


def loc(sf: SourceFile, node: ast.AST) -> str:
    return f"{sf.rel}:{getattr(node, 'lineno', 0)}"


def walk_no_nested(node: ast.AST):
    """ast.walk that does not descend into nested function/class/lambda definitions."""
    todo = list(ast.iter_child_nodes(node))
    while todo:
        n = todo.pop(0)
        yield n
        if isinstance(n, (ast.FunctionDef, ast.AsyncFunctionDef, ast.ClassDef, ast.Lambda)):
            continue
        todo.extend(ast.iter_child_nodes(n))


def stmts_of(fn: ast.FunctionDef) -> List[ast.stmt]:
    """Function body without the docstring."""
    body = list(fn.body)
    if body and isinstance(body[0], ast.Expr) and isinstance(body[0].value, ast.Constant) \
            and isinstance(body[0].value.value, str):
        body = body[1:]
    return body


def calls_in(node: ast.AST) -> List[ast.Call]:
    return [n for n in walk_no_nested(node) if isinstance(n, ast.Call)] + (
        [node] if isinstance(node, ast.Call) else [])


def attr_chain(expr: ast.AST) -> Optional[List[str]]:
    """['self','object','x'] for self.object.x; None if not a pure chain."""
    parts = []
    while isinstance(expr, ast.Attribute):
        parts.append(expr.attr)
        expr = expr.value
    if isinstance(expr, ast.Name):
        parts.append(expr.id)
        return list(reversed(parts))
    return None
