"""Statement-level control-flow graph with exception edges, dominators and dataflow.

Node kinds
  entry, exit (normal return / fall off the end), raise (exception leaves the function)
  stmt        simple statement (Assign, Expr, Return, Raise, Pass, ...)
  test        condition of if / while
  for         loop head (evaluates/advances the iterator, binds the target)
  with_enter  evaluation of the with-items (acquire);  with_exit  the matching release
  except      dispatch point of a try statement's handlers
  handler     entry of one `except X as e:` clause
  join        structural no-op

Edge labels: next, true, false, iter, done, exc, return, break, continue, reraise, nomatch.

An `exc` edge leaves every node that may raise (see `may_raise`): the node's own effect is
considered NOT to have happened on that edge.  `finally` bodies are instantiated once per
continuation kind (normal, exception, return, break, continue) so that paths stay precise.
"""

from __future__ import annotations

import ast
from dataclasses import dataclass, field
from typing import Any, Callable, Dict, Iterable, List, Optional, Set, Tuple

from .model import norm


@dataclass
class Node:
    id: int
    kind: str
    ast: Optional[ast.AST] = None
    tag: str = ""          # e.g. "finally:exc" for instantiated finally copies

    def text(self) -> str:
        if self.ast is None:
            return self.kind
        if self.kind == "test":
            return "test " + norm(self.ast)
        if self.kind == "for":
            return f"for {norm(self.ast.target)} in {norm(self.ast.iter)}"
        if self.kind == "with_enter":
            return "with " + ", ".join(norm(i) for i in self.ast.items)
        if self.kind == "with_exit":
            return "end-with " + ", ".join(norm(i.context_expr) for i in self.ast.items)
        if self.kind == "handler":
            return "except " + (norm(self.ast.type) if self.ast.type else "")
        if self.kind == "except":
            return "except-dispatch"
        return norm(self.ast)

    @property
    def lineno(self) -> int:
        return getattr(self.ast, "lineno", 0) if self.ast is not None else 0


def may_raise(st: ast.AST) -> bool:
    """Conservative: only constant/local-name moves, pass, global/nonlocal cannot raise."""
    if isinstance(st, (ast.Pass, ast.Global, ast.Nonlocal, ast.Break, ast.Continue)):
        return False
    if isinstance(st, ast.Assign):
        if all(isinstance(t, ast.Name) for t in st.targets) and isinstance(st.value, (ast.Constant, ast.Name)):
            return False
        # a, b = x, y  (names / constants only): builds and unpacks a tuple of the right length
        if len(st.targets) == 1 and isinstance(st.targets[0], ast.Tuple) and isinstance(st.value, ast.Tuple) \
                and len(st.targets[0].elts) == len(st.value.elts) and all(isinstance(t, ast.Name) for t in st.targets[0].elts) \
                and all(isinstance(v, (ast.Constant, ast.Name)) for v in st.value.elts):
            return False
        return True
    if isinstance(st, ast.Return):
        return not (st.value is None or isinstance(st.value, (ast.Constant, ast.Name)))
    if isinstance(st, ast.Expr) and isinstance(st.value, (ast.Constant, ast.Name)):
        return False
    return True


def expr_may_raise(e: Optional[ast.AST]) -> bool:
    if e is None or isinstance(e, (ast.Constant, ast.Name)):
        return False
    if isinstance(e, ast.UnaryOp) and isinstance(e.op, ast.Not):
        return expr_may_raise(e.operand)
    if isinstance(e, ast.Compare) and all(isinstance(o, (ast.Is, ast.IsNot)) for o in e.ops):
        return any(expr_may_raise(x) for x in [e.left] + list(e.comparators))
    if isinstance(e, ast.BoolOp):
        return any(expr_may_raise(v) for v in e.values)
    return True


class CFG:
    def __init__(self, fn: ast.AST, loop_body: bool = False):
        """`loop_body=True`: `fn.body` is the body of one loop iteration; continue/break leave it."""
        self.loop_body = loop_body
        self.fn = fn
        self.nodes: List[Node] = []
        self.succ: Dict[int, List[Tuple[int, str]]] = {}
        self.pred: Dict[int, List[Tuple[int, str]]] = {}
        self.entry = self._new("entry").id
        self.exit = self._new("exit").id
        self.raise_exit = self._new("raise").id
        self._build()

    # ----------------------------------------------------------------- building
    def _new(self, kind, node=None, tag="") -> Node:
        n = Node(len(self.nodes), kind, node, tag)
        self.nodes.append(n)
        self.succ[n.id] = []
        self.pred[n.id] = []
        return n

    def _edge(self, a: int, b: int, label: str = "next"):
        if (b, label) not in self.succ[a]:
            self.succ[a].append((b, label))
            self.pred[b].append((a, label))

    def _build(self):
        ctx = _Ctx(exc=self.raise_exit, ret=self.exit, brk=None, cont=None)
        if self.loop_body:
            self.ret_exit = self._new("exit", None, "return").id
            self.break_exit = self._new("exit", None, "break").id
            ctx = _Ctx(exc=self.raise_exit, ret=self.ret_exit, brk=self.break_exit, cont=self.exit)
        body = self.fn.body if hasattr(self.fn, "body") else []
        outs = self._seq(body, [(self.entry, "next")], ctx, "")
        for o, lab in outs:
            self._edge(o, self.exit, lab)

    def _seq(self, stmts, ins: List[Tuple[int, str]], ctx: "_Ctx", tag: str) -> List[Tuple[int, str]]:
        cur = ins
        for st in stmts:
            if not cur:
                break  # unreachable code
            cur = self._stmt(st, cur, ctx, tag)
        return cur

    def _connect(self, ins, nid):
        for a, lab in ins:
            self._edge(a, nid, lab)

    def _stmt(self, st, ins, ctx: "_Ctx", tag) -> List[Tuple[int, str]]:
        if isinstance(st, ast.If):
            t = self._new("test", st.test, tag)
            t.owner = st
            self._connect(ins, t.id)
            if expr_may_raise(st.test):
                self._edge(t.id, ctx.exc, "exc")
            outs = self._seq(st.body, [(t.id, "true")], ctx, tag)
            if st.orelse:
                outs += self._seq(st.orelse, [(t.id, "false")], ctx, tag)
            else:
                outs.append((t.id, "false"))
            return outs
        if isinstance(st, (ast.For, ast.AsyncFor)):
            h = self._new("for", st, tag)
            self._connect(ins, h.id)
            self._edge(h.id, ctx.exc, "exc")
            after: List[Tuple[int, str]] = []
            brk = self._new("join", None, tag + "|break")
            c2 = ctx.replace(brk=brk.id, cont=h.id)
            outs = self._seq(st.body, [(h.id, "iter")], c2, tag)
            for o, lab in outs:
                self._edge(o, h.id, lab if lab != "next" else "next")
            done: List[Tuple[int, str]] = [(h.id, "done")]
            if st.orelse:
                done = self._seq(st.orelse, done, ctx, tag)
            res = done
            if self.pred[brk.id]:
                res = res + [(brk.id, "next")]
            return res
        if isinstance(st, ast.While):
            t = self._new("test", st.test, tag)
            t.owner = st
            self._connect(ins, t.id)
            if expr_may_raise(st.test):
                self._edge(t.id, ctx.exc, "exc")
            brk = self._new("join", None, tag + "|break")
            c2 = ctx.replace(brk=brk.id, cont=t.id)
            outs = self._seq(st.body, [(t.id, "true")], c2, tag)
            for o, lab in outs:
                self._edge(o, t.id, lab)
            const_true = isinstance(st.test, ast.Constant) and bool(st.test.value)
            done: List[Tuple[int, str]] = [] if const_true else [(t.id, "false")]
            if st.orelse and done:
                done = self._seq(st.orelse, done, ctx, tag)
            if self.pred[brk.id]:
                done = done + [(brk.id, "next")]
            return done
        if isinstance(st, (ast.With, ast.AsyncWith)):
            enter = self._new("with_enter", st, tag)
            self._connect(ins, enter.id)
            self._edge(enter.id, ctx.exc, "exc")
            # release on every way out of the body
            def exit_copy(kind, target, label):
                x = self._new("with_exit", st, tag + "|" + kind)
                self._edge(x.id, target, label)
                return x.id
            x_exc = exit_copy("exc", ctx.exc, "exc")
            x_ret = exit_copy("return", ctx.ret, "return")
            c2 = ctx.replace(exc=x_exc, ret=x_ret)
            if ctx.brk is not None:
                c2.brk = exit_copy("break", ctx.brk, "break")
            if ctx.cont is not None:
                c2.cont = exit_copy("continue", ctx.cont, "continue")
            outs = self._seq(st.body, [(enter.id, "next")], c2, tag)
            x_norm = self._new("with_exit", st, tag + "|normal")
            self._connect(outs, x_norm.id)
            return [(x_norm.id, "next")] if outs else []
        if isinstance(st, ast.Try) or (hasattr(ast, "TryStar") and isinstance(st, getattr(ast, "TryStar"))):
            return self._try(st, ins, ctx, tag)
        if isinstance(st, ast.Match):
            t = self._new("test", st.subject, tag)
            self._connect(ins, t.id)
            self._edge(t.id, ctx.exc, "exc")
            outs = []
            for case in st.cases:
                outs += self._seq(case.body, [(t.id, "true")], ctx, tag)
            outs.append((t.id, "false"))
            return outs
        if isinstance(st, (ast.FunctionDef, ast.AsyncFunctionDef, ast.ClassDef)):
            n = self._new("stmt", st, tag)
            self._connect(ins, n.id)
            return [(n.id, "next")]
        # simple statements
        n = self._new("stmt", st, tag)
        self._connect(ins, n.id)
        if isinstance(st, ast.Return):
            if may_raise(st):
                self._edge(n.id, ctx.exc, "exc")
            self._edge(n.id, ctx.ret, "return")
            return []
        if isinstance(st, ast.Raise):
            self._edge(n.id, ctx.exc, "exc")
            return []
        if isinstance(st, ast.Break):
            if ctx.brk is not None:
                self._edge(n.id, ctx.brk, "break")
            return []
        if isinstance(st, ast.Continue):
            if ctx.cont is not None:
                self._edge(n.id, ctx.cont, "continue")
            return []
        if may_raise(st):
            self._edge(n.id, ctx.exc, "exc")
        return [(n.id, "next")]

    def _try(self, st, ins, ctx: "_Ctx", tag):
        has_finally = bool(st.finalbody)

        def fin(kind: str, target: Optional[int], label: str) -> Optional[int]:
            """Instantiate the finally body for one continuation; returns its entry node id."""
            if target is None:
                return None
            if not has_finally:
                return target
            j = self._new("join", None, tag + f"|finally:{kind}")
            outs = self._seq(st.finalbody, [(j.id, "next")], ctx, tag + f"|finally:{kind}")
            if outs:
                # keep the branch labels (true/false) of the last statements: go through a join
                k = self._new("join", None, tag + f"|finally:{kind}:end")
                self._connect(outs, k.id)
                self._edge(k.id, target, label)
            return j.id

        f_exc = fin("exc", ctx.exc, "reraise")
        f_ret = fin("return", ctx.ret, "return")
        f_brk = fin("break", ctx.brk, "break")
        f_cont = fin("continue", ctx.cont, "continue")
        # handlers
        if st.handlers:
            disp = self._new("except", st, tag)
            body_exc = disp.id
        else:
            disp = None
            body_exc = f_exc
        c_body = ctx.replace(exc=body_exc, ret=f_ret, brk=f_brk, cont=f_cont)
        outs = self._seq(st.body, ins, c_body, tag)
        c_after = ctx.replace(exc=f_exc, ret=f_ret, brk=f_brk, cont=f_cont)
        if st.orelse:
            outs = self._seq(st.orelse, outs, c_after, tag)
        all_outs = list(outs)
        if disp is not None:
            catches_all = False
            for h in st.handlers:
                hn = self._new("handler", h, tag)
                self._edge(disp.id, hn.id, "caught")
                all_outs += self._seq(h.body, [(hn.id, "next")], c_after, tag)
                if h.type is None or norm(h.type) in ("BaseException",):
                    catches_all = True
            if not catches_all:
                self._edge(disp.id, f_exc, "nomatch")
        if has_finally:
            j = self._new("join", None, tag + "|finally:normal")
            self._connect(all_outs, j.id)
            return self._seq(st.finalbody, [(j.id, "next")], ctx, tag + "|finally:normal")
        return all_outs

    # ----------------------------------------------------------------- queries
    def stmt_nodes(self, pred: Callable[[Node], bool]) -> List[Node]:
        return [n for n in self.nodes if pred(n)]

    def reachable(self, start: Optional[int] = None, avoid: Iterable[int] = (), labels_excluded: Iterable[str] = ()) -> Set[int]:
        start = self.entry if start is None else start
        avoid = set(avoid)
        excl = set(labels_excluded)
        seen = set()
        todo = [start]
        while todo:
            n = todo.pop()
            if n in seen or n in avoid:
                continue
            seen.add(n)
            for m, lab in self.succ[n]:
                if lab not in excl:
                    todo.append(m)
        return seen

    def reachable_from_successors(self, start: int, avoid: Iterable[int] = (), labels_excluded: Iterable[str] = ()) -> Set[int]:
        """Nodes reachable by at least one edge from `start` (start itself only if on a cycle)."""
        avoid = set(avoid)
        excl = set(labels_excluded)
        seen: Set[int] = set()
        todo = [m for m, lab in self.succ[start] if lab not in excl]
        while todo:
            n = todo.pop()
            if n in seen or n in avoid:
                continue
            seen.add(n)
            for m, lab in self.succ[n]:
                if lab not in excl:
                    todo.append(m)
        return seen

    def dominators(self, labels_excluded: Iterable[str] = ()) -> Dict[int, Set[int]]:
        excl = set(labels_excluded)
        reach = self.reachable(labels_excluded=excl)
        dom = {n: set(reach) for n in reach}
        dom[self.entry] = {self.entry}
        changed = True
        order = sorted(reach)
        while changed:
            changed = False
            for n in order:
                if n == self.entry:
                    continue
                preds = [p for p, lab in self.pred[n] if p in reach and lab not in excl]
                if not preds:
                    new = {n}
                else:
                    new = set.intersection(*(dom[p] for p in preds)) | {n}
                if new != dom[n]:
                    dom[n] = new
                    changed = True
        return dom

    def postdominators(self, exits: Iterable[int], labels_excluded: Iterable[str] = ()) -> Dict[int, Set[int]]:
        """Post-dominators w.r.t. a virtual sink joining `exits` (paths over non-excluded edges)."""
        excl = set(labels_excluded)
        exits = set(exits)
        # nodes that can reach an exit
        can = set()
        todo = list(exits)
        while todo:
            n = todo.pop()
            if n in can:
                continue
            can.add(n)
            for p, lab in self.pred[n]:
                if lab not in excl:
                    todo.append(p)
        pdom = {n: set(can) for n in can}
        for e in exits:
            pdom[e] = {e}
        changed = True
        while changed:
            changed = False
            for n in sorted(can, reverse=True):
                if n in exits:
                    continue
                succs = [s for s, lab in self.succ[n] if s in can and lab not in excl]
                if not succs:
                    new = {n}
                else:
                    new = set.intersection(*(pdom[s] for s in succs)) | {n}
                if new != pdom[n]:
                    pdom[n] = new
                    changed = True
        return pdom

    def paths(self, start: int, ends: Iterable[int], max_visits: int = 1, limit: int = 20000,
              labels_excluded: Iterable[str] = ()) -> Optional[List[List[Tuple[int, str]]]]:
        """All paths start→(any end) visiting each node at most `max_visits` times.

        Returns None when more than `limit` paths exist. A path is a list of (node, label-taken-to-leave).
        """
        ends = set(ends)
        excl = set(labels_excluded)
        out: List[List[Tuple[int, str]]] = []
        counts: Dict[int, int] = {}
        path: List[Tuple[int, str]] = []

        def dfs(n: int) -> bool:
            if n in ends:
                out.append(path + [(n, "")])
                return len(out) <= limit
            c = counts.get(n, 0)
            if c >= max_visits:
                return True
            counts[n] = c + 1
            for m, lab in self.succ[n]:
                if lab in excl:
                    continue
                path.append((n, lab))
                ok = dfs(m)
                path.pop()
                if not ok:
                    counts[n] = c
                    return False
            counts[n] = c
            return True

        if not dfs(start):
            return None
        return out

    def feasible(self, path: List[Tuple[int, str]]) -> bool:
        """False when the path answers one test over unchanged local names both ways (`if k != -1` taken, later `if k != -1` not taken).

        Only tests built from local names and constants are remembered (no calls, attributes or subscripts: those may change under
        any statement); a fact is forgotten when one of its names is stored.  Sound for pruning: a path is dropped only on a plain contradiction."""
        from . import guards
        known: Dict[str, Set[str]] = {}
        for nid, lab in path:
            n = self.nodes[nid]
            a = n.ast
            if a is None:
                continue
            if n.kind == "test" and lab in ("true", "false"):
                if any(isinstance(x, (ast.Call, ast.Attribute, ast.Subscript, ast.NamedExpr, ast.Await, ast.Yield)) for x in ast.walk(a)):
                    continue
                names = {x.id for x in ast.walk(a) if isinstance(x, ast.Name)}
                try:
                    lits = guards.facts(a, lab == "true")
                except Exception:
                    continue
                for lit in lits:
                    try:
                        neg = guards.nnf(ast.parse(lit, mode="eval").body, True)
                    except Exception:
                        continue
                    if neg in known:
                        return False
                for lit in lits:
                    known[lit] = names
                continue
            stored = {x.id for x in ast.walk(a) if isinstance(x, ast.Name) and isinstance(x.ctx, (ast.Store, ast.Del))} if n.kind in ("stmt", "for", "with_enter", "handler") else set()
            copied: Set[str] = set()
            if n.kind == "stmt" and isinstance(a, ast.Assign) and len(a.targets) == 1 and isinstance(a.targets[0], ast.Name) and lab != "exc" \
                    and isinstance(a.value, ast.Name):
                # x = y: what is known about y alone is known about x
                src, dst = a.value.id, a.targets[0].id
                for lit, nms in list(known.items()):
                    if nms == {src} and src != dst:
                        try:
                            e2 = ast.parse(lit, mode="eval").body
                        except Exception:
                            continue
                        for x in ast.walk(e2):
                            if isinstance(x, ast.Name) and x.id == src:
                                x.id = dst
                        try:
                            copied |= set(guards.facts(e2, True))
                        except Exception:
                            pass
            if stored:
                for lit in [k for k, v in known.items() if v & stored]:
                    del known[lit]
            if n.kind == "stmt" and isinstance(a, ast.Assign) and len(a.targets) == 1 and isinstance(a.targets[0], ast.Name) and lab != "exc":
                # x = None / x = <something that is never None> establishes a fact about x (an assignment that raised binds nothing)
                v, dst = a.value, a.targets[0].id
                fact = None
                if isinstance(v, ast.Constant) and v.value is None:
                    fact = f"{dst} is None"
                elif (isinstance(v, ast.Constant) and v.value is not None) or isinstance(v, (ast.List, ast.Tuple, ast.Dict, ast.Set, ast.JoinedStr)) or \
                        (isinstance(v, ast.Call) and ((isinstance(v.func, ast.Name) and v.func.id in ("len", "int", "list", "tuple", "bool", "str", "bytes"))
                                                      or (isinstance(v.func, ast.Attribute) and v.func.attr in ("index", "find", "count")))):
                    fact = f"{dst} is not None"
                if fact is not None:
                    try:
                        for lit in guards.facts(ast.parse(fact, mode="eval").body, True):
                            known[lit] = {dst}
                    except Exception:
                        pass
                for lit in copied:
                    known[lit] = {dst}
        return True

    # ------------------------------------------------------------------ dataflow
    def solve(self, init: Any, transfer: Callable[[Node, Any, str], Any], join: Callable[[Any, Any], Any],
              bottom: Any = None) -> Dict[int, Any]:
        """Forward dataflow: state[n] = state at entry of n. transfer(node, state_in, edge_label) -> state_out."""
        state: Dict[int, Any] = {self.entry: init}
        work = [self.entry]
        iters = 0
        while work:
            iters += 1
            if iters > 200000:
                raise RuntimeError("dataflow did not converge")
            n = work.pop(0)
            s_in = state[n]
            for m, lab in self.succ[n]:
                s_out = transfer(self.nodes[n], s_in, lab)
                if s_out is None:
                    continue
                if m in state:
                    new = join(state[m], s_out)
                    if new != state[m]:
                        state[m] = new
                        if m not in work:
                            work.append(m)
                else:
                    state[m] = s_out
                    work.append(m)
        return state

    def dump(self) -> str:
        lines = []
        for n in self.nodes:
            succ = ", ".join(f"{m}:{lab}" for m, lab in self.succ[n.id])
            lines.append(f"{n.id:3d} {n.kind:10s} {n.tag:18s} {n.text()[:70]:70s} -> {succ}")
        return "\n".join(lines)


@dataclass
class _Ctx:
    exc: int
    ret: int
    brk: Optional[int]
    cont: Optional[int]

    def replace(self, **kw) -> "_Ctx":
        d = dict(exc=self.exc, ret=self.ret, brk=self.brk, cont=self.cont)
        d.update(kw)
        return _Ctx(**d)


def enclosing_loops(fn: ast.AST) -> Dict[int, List[ast.AST]]:
    """id(stmt) -> list of enclosing For/While statements (outermost first), not crossing defs."""
    out: Dict[int, List[ast.AST]] = {}

    def rec(stmts, stack):
        for st in stmts:
            out[id(st)] = list(stack)
            if isinstance(st, (ast.FunctionDef, ast.AsyncFunctionDef, ast.ClassDef)):
                continue
            if isinstance(st, (ast.For, ast.While, ast.AsyncFor)):
                rec(st.body, stack + [st])
                rec(st.orelse, stack)
            elif isinstance(st, ast.If):
                rec(st.body, stack)
                rec(st.orelse, stack)
            elif isinstance(st, (ast.With, ast.AsyncWith)):
                rec(st.body, stack)
            elif isinstance(st, ast.Try):
                rec(st.body, stack)
                for h in st.handlers:
                    rec(h.body, stack)
                rec(st.orelse, stack)
                rec(st.finalbody, stack)
    rec(getattr(fn, "body", []), [])
    return out



# ------------------------------------------------------------------------------------------ ExitStack desugaring
def desugar_exitstack(fn: ast.FunctionDef) -> ast.FunctionDef:
    """Copy of `fn` in which `with ExitStack() as S:` is spelled with ordinary statements:

        S.enter_context(CM)            ->  with CM:            <rest of the block>
        x = S.enter_context(CM)        ->  with CM as x:       <rest of the block>
        S.callback(f.close) / S.push(f)->  try: <rest> finally: f.close()
        (the same under an `if`)       ->  flag = False; if …: …; flag = True;  try: <rest> finally: if flag: f.close()

    Registration itself is taken not to fail.  Cleanups run in reverse order of registration, which is what the nesting gives."""
    import copy
    new = copy.deepcopy(fn)
    counter = [0]
    # `with a, b as s:` is `with a: with b as s:`; a with-item that is a local bound once to a call and used nowhere else
    # (`guard = override(...)` … `with guard:`) is that call (a context-manager object does nothing until it is entered)
    stores_: Dict[str, List[ast.Assign]] = {}
    loads_: Dict[str, int] = {}
    for n in ast.walk(new):
        if isinstance(n, ast.Assign) and len(n.targets) == 1 and isinstance(n.targets[0], ast.Name):
            stores_.setdefault(n.targets[0].id, []).append(n)
        elif isinstance(n, ast.Name) and isinstance(n.ctx, ast.Load):
            loads_[n.id] = loads_.get(n.id, 0) + 1
    dropped: List[ast.Assign] = []

    class W(ast.NodeTransformer):
        def visit_With(self, node):
            node = self.generic_visit(node)
            for it in node.items:
                e = it.context_expr
                if isinstance(e, ast.Name) and len(stores_.get(e.id, [])) == 1 and loads_.get(e.id) == 1 and isinstance(stores_[e.id][0].value, ast.Call):
                    it.context_expr = stores_[e.id][0].value
                    dropped.append(stores_[e.id][0])
            if len(node.items) > 1:
                inner = node
                body = node.body
                for it in reversed(node.items[1:]):
                    body = [ast.copy_location(ast.With(items=[it], body=body), node)]
                return ast.copy_location(ast.With(items=[node.items[0]], body=body), node)
            return node
    new = W().visit(new)
    if dropped:
        class D(ast.NodeTransformer):
            def visit_Assign(self, node):
                return None if any(node is d for d in dropped) else node
        new = D().visit(new)
    ast.fix_missing_locations(new)

    def registration(st: ast.stmt, S: str):
        """('enter', cm, target) | ('close', expr) | None"""
        call = None
        target = None
        if isinstance(st, ast.Expr) and isinstance(st.value, ast.Call):
            call = st.value
        elif isinstance(st, ast.Assign) and len(st.targets) == 1 and isinstance(st.value, ast.Call):
            call, target = st.value, st.targets[0]
        if call is None or not (isinstance(call.func, ast.Attribute) and isinstance(call.func.value, ast.Name) and call.func.value.id == S):
            return None
        m = call.func.attr
        if m == "enter_context" and len(call.args) == 1:
            return ("enter", call.args[0], target)
        if m == "callback" and call.args and isinstance(call.args[0], ast.Attribute) and call.args[0].attr == "close" and len(call.args) == 1:
            return ("close", call.args[0].value)
        if m == "push" and len(call.args) == 1:
            return ("close", call.args[0])
        if m == "callback" and call.args and isinstance(call.args[0], (ast.Name, ast.Attribute)) and not any(isinstance(a, ast.Starred) for a in call.args) \
                and all(isinstance(a, (ast.Name, ast.Constant, ast.Attribute)) for a in call.args[1:]) \
                and all(k.arg is not None and isinstance(k.value, (ast.Name, ast.Constant, ast.Attribute)) for k in call.keywords):
            # S.callback(f, a, b): f(a, b) runs when the block is left (the arguments are names / constants: same values then)
            return ("call", ast.Call(func=call.args[0], args=list(call.args[1:]), keywords=list(call.keywords)))
        return None

    def close_stmt(obj: ast.expr) -> ast.stmt:
        return ast.Expr(value=ast.Call(func=ast.Attribute(value=copy.deepcopy(obj), attr="close", ctx=ast.Load()), args=[], keywords=[]))

    def wrap(stmts, S):
        out = []
        for i, st in enumerate(stmts):
            r = registration(st, S)
            rest = stmts[i + 1:]
            if r is not None and r[0] == "enter":
                item = ast.withitem(context_expr=r[1], optional_vars=r[2])
                out.append(ast.copy_location(ast.With(items=[item], body=wrap(rest, S) or [ast.Pass()]), st))
                return out
            if r is not None and r[0] == "close":
                out.append(ast.copy_location(ast.Try(body=wrap(rest, S) or [ast.Pass()], handlers=[], orelse=[], finalbody=[close_stmt(r[1])]), st))
                return out
            if r is not None and r[0] == "call":
                fin = ast.copy_location(ast.Expr(value=r[1]), st)
                out.append(ast.copy_location(ast.Try(body=wrap(rest, S) or [ast.Pass()], handlers=[], orelse=[], finalbody=[fin]), st))
                return out
            if isinstance(st, ast.If):
                regs = [(blk, j, registration(x, S)) for blk in (st.body, st.orelse) for j, x in enumerate(blk) if registration(x, S) is not None]
                regs = [x for x in regs if x[2][0] == "close" or (x[2][0] == "enter" and x[2][2] is not None)]
                if regs:
                    finals = []
                    for blk, j, r2 in regs:
                        counter[0] += 1
                        flag = f"__registered{counter[0]}"
                        out.append(ast.copy_location(ast.Assign(targets=[ast.Name(id=flag, ctx=ast.Store())], value=ast.Constant(value=False)), st))
                        setflag = ast.copy_location(ast.Assign(targets=[ast.Name(id=flag, ctx=ast.Store())], value=ast.Constant(value=True)), blk[j])
                        if r2[0] == "enter":
                            # x = S.enter_context(CM)  under a condition:  x = CM; flag = True  …  finally: if flag: x.close()
                            bind = ast.copy_location(ast.Assign(targets=[copy.deepcopy(r2[2])], value=r2[1]), blk[j])
                            blk[j:j + 1] = [bind, setflag]
                            obj = copy.deepcopy(r2[2])
                            for n in ast.walk(obj):
                                if hasattr(n, "ctx"):
                                    n.ctx = ast.Load()
                            finals.append(ast.If(test=ast.Name(id=flag, ctx=ast.Load()), body=[close_stmt(obj)], orelse=[]))
                            continue
                        blk[j] = setflag
                        finals.append(ast.If(test=ast.Name(id=flag, ctx=ast.Load()), body=[close_stmt(r2[1])], orelse=[]))
                    out.append(st)
                    out.append(ast.copy_location(ast.Try(body=wrap(rest, S) or [ast.Pass()], handlers=[], orelse=[], finalbody=list(reversed(finals))), st))
                    return out
            out.append(st)
        return out

    def rec(stmts):
        res = []
        for st in stmts:
            for fld in ("body", "orelse", "finalbody"):
                if hasattr(st, fld) and isinstance(getattr(st, fld), list) and not isinstance(st, (ast.FunctionDef, ast.ClassDef)):
                    setattr(st, fld, rec(getattr(st, fld)))
            if isinstance(st, ast.Try):
                for h in st.handlers:
                    h.body = rec(h.body)
            if isinstance(st, ast.With) and len(st.items) == 1 and isinstance(st.items[0].context_expr, ast.Call) \
                    and norm_name(st.items[0].context_expr.func) == "ExitStack" and isinstance(st.items[0].optional_vars, ast.Name):
                res.extend(wrap(st.body, st.items[0].optional_vars.id))
            else:
                res.append(st)
        return res

    new.body = rec(new.body)

    # `if c: cm = A  else: cm = B` directly followed by `with cm as f: BODY` (cm bound nowhere else): the with goes into both branches
    def distribute(stmts):
        out = []
        i = 0
        while i < len(stmts):
            st = stmts[i]
            nxt = stmts[i + 1] if i + 1 < len(stmts) else None
            if isinstance(st, ast.If) and isinstance(nxt, ast.With) and len(nxt.items) == 1 and isinstance(nxt.items[0].context_expr, ast.Name) \
                    and len(st.body) >= 1 and len(st.orelse) >= 1:
                cm = nxt.items[0].context_expr.id
                last_a, last_b = st.body[-1], st.orelse[-1]
                stores = [n for n in ast.walk(new) if isinstance(n, ast.Name) and n.id == cm and isinstance(n.ctx, ast.Store)]
                loads = [n for n in ast.walk(new) if isinstance(n, ast.Name) and n.id == cm and isinstance(n.ctx, ast.Load)]
                if all(isinstance(x, ast.Assign) and len(x.targets) == 1 and isinstance(x.targets[0], ast.Name) and x.targets[0].id == cm for x in (last_a, last_b)) \
                        and len(stores) == 2 and len(loads) == 1:
                    def arm(prefix, value):
                        w = ast.With(items=[ast.withitem(context_expr=value, optional_vars=copy.deepcopy(nxt.items[0].optional_vars))], body=copy.deepcopy(nxt.body))
                        return prefix + [ast.copy_location(w, nxt)]
                    new_if = ast.If(test=st.test, body=arm(st.body[:-1], last_a.value), orelse=arm(st.orelse[:-1], last_b.value))
                    out.append(ast.copy_location(new_if, st))
                    i += 2
                    continue
            for fld in ("body", "orelse", "finalbody"):
                if hasattr(st, fld) and isinstance(getattr(st, fld), list) and getattr(st, fld) and isinstance(getattr(st, fld)[0], ast.stmt) \
                        and not isinstance(st, (ast.FunctionDef, ast.ClassDef)):
                    setattr(st, fld, distribute(getattr(st, fld)))
            out.append(st)
            i += 1
        return out
    new.body = distribute(new.body)

    # `with closing(E) as f: BODY`  is  f = E; try: BODY finally: f.close();     `with nullcontext(E) as f: BODY`  is  f = E; BODY
    def plain_cms(stmts):
        out = []
        for st in stmts:
            for fld in ("body", "orelse", "finalbody"):
                if hasattr(st, fld) and isinstance(getattr(st, fld), list) and getattr(st, fld) and isinstance(getattr(st, fld)[0], ast.stmt) \
                        and not isinstance(st, (ast.FunctionDef, ast.ClassDef)):
                    setattr(st, fld, plain_cms(getattr(st, fld)))
            if isinstance(st, ast.Try):
                for h in st.handlers:
                    h.body = plain_cms(h.body)
            if isinstance(st, ast.With) and len(st.items) == 1 and isinstance(st.items[0].context_expr, ast.Call) \
                    and norm_name(st.items[0].context_expr.func) in ("closing", "nullcontext") and len(st.items[0].context_expr.args) == 1 \
                    and not st.items[0].context_expr.keywords:
                kind = norm_name(st.items[0].context_expr.func)
                inner = st.items[0].context_expr.args[0]
                tgt = st.items[0].optional_vars
                if tgt is None:
                    counter[0] += 1
                    tgt = ast.Name(id=f"__cm{counter[0]}", ctx=ast.Store())
                if isinstance(tgt, ast.Name):
                    bind = ast.copy_location(ast.Assign(targets=[ast.Name(id=tgt.id, ctx=ast.Store())], value=inner), st)
                    out.append(bind)
                    if kind == "closing":
                        out.append(ast.copy_location(ast.Try(body=st.body, handlers=[], orelse=[],
                                                             finalbody=[close_stmt(ast.Name(id=tgt.id, ctx=ast.Load()))]), st))
                    else:
                        out.extend(st.body)
                    continue
            out.append(st)
        return out
    new.body = plain_cms(new.body)
    ast.fix_missing_locations(new)
    return new


def norm_name(e: ast.AST) -> str:
    try:
        return ast.unparse(e).split(".")[-1]
    except Exception:
        return ""
