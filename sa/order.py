"""How ModuleReader applies the collected CVALs: in which order, and paired with which controller name.

An abstract evaluation of the iterable of the loop around `set_raw(name, raw)`: sequence expressions denote a direction
(+1 first-to-last, −1 last-to-first) and whether element j is still base[j] (prefix slices, list()/tuple()/iter() copies,
reversed(), enumerate(), zip() of aligned operands, index ranges).  The rule is independent of how the loop is spelled.
"""

from __future__ import annotations

import ast
from dataclasses import dataclass
from typing import Dict, List, Optional, Tuple

from . import inline
from .model import AnchorMissing, Repo, norm, walk_no_nested
from .packed import subst_locals

KEYS = "self._controller_keys"
CVALS = "self._cvals"


@dataclass
class Seq:
    kind: str                 # "elems" | "index" | "enum" | "pairs"
    bases: Tuple[str, ...]    # underlying lists (KEYS / CVALS), per component
    direction: int            # +1 / -1
    aligned: bool = True      # component j corresponds to base[j]
    bound: str = ""           # text of a prefix bound, "" = whole list


def _strip_copies(e: ast.expr) -> ast.expr:
    while isinstance(e, ast.Call) and norm(e.func) in ("list", "tuple", "iter") and len(e.args) == 1:
        e = e.args[0]
    return e


def seq_of(e: ast.expr) -> Optional[Seq]:
    e = _strip_copies(e)
    t = norm(e)
    if t in (KEYS, CVALS):
        return Seq("elems", (t,), +1)
    if isinstance(e, ast.Subscript) and isinstance(e.slice, ast.Slice) and e.slice.lower is None and e.slice.step is None:
        inner = seq_of(e.value)
        if inner is not None and inner.kind in ("elems", "enum") and inner.direction == +1:
            return Seq(inner.kind, inner.bases, +1, True, norm(e.slice.upper) if e.slice.upper is not None else inner.bound)
    if isinstance(e, ast.Subscript) and isinstance(e.slice, ast.Slice) and e.slice.lower is None and e.slice.upper is None \
            and e.slice.step is not None and norm(e.slice.step) == "-1":
        inner = seq_of(e.value)
        if inner is not None:
            return Seq(inner.kind, inner.bases, -inner.direction, inner.aligned, inner.bound)
    if isinstance(e, ast.Call):
        f = norm(e.func)
        if f == "reversed" and len(e.args) == 1:
            inner = seq_of(e.args[0])
            if inner is not None:
                return Seq(inner.kind, inner.bases, -inner.direction, inner.aligned, inner.bound)
        if f == "enumerate" and len(e.args) == 1:
            inner = seq_of(e.args[0])
            if inner is not None and inner.kind == "elems" and inner.direction == +1:
                return Seq("enum", inner.bases, +1, True, inner.bound)
        if f == "zip" and len(e.args) == 2:
            a, b = seq_of(e.args[0]), seq_of(e.args[1])
            if a is not None and b is not None and a.kind == b.kind == "elems" and a.direction == b.direction:
                # aligned only if both are whole lists or the same prefix, when reversed; forward zips are always aligned
                aligned = a.direction == +1 or a.bound == b.bound
                if a.direction == -1 and a.bound == "" and b.bound == "":
                    aligned = False        # reversed whole lists of different length pair the wrong elements
                return Seq("pairs", a.bases + b.bases, a.direction, aligned, a.bound)
            # zip(keys, enumerate(cvals)[:n]): name paired with (index, value), both from the start
            if a is not None and b is not None and a.kind == "elems" and b.kind == "enum" and a.direction == b.direction == +1:
                return Seq("pairs_enum", a.bases + b.bases, +1, True, b.bound)
        if f == "range":
            args = e.args
            if len(args) == 1:
                return Seq("index", (), +1)
            if len(args) == 2:
                return Seq("index", (), +1)
            if len(args) == 3:
                st = norm(args[2])
                if st in ("1", "+1"):
                    return Seq("index", (), +1)
                if st == "-1":
                    return Seq("index", (), -1)
    return None


@dataclass
class Application:
    direction: Optional[int]      # +1 / -1 / None = not recognised
    positional: Optional[bool]    # name is the key at the value's own position
    bounded: Optional[bool]       # values beyond the key list are not applied
    text: str
    where: int


def cval_application(repo: Repo) -> Application:
    mr = repo.cls("ModuleReader", module="rv.readers.module")
    send = mr.methods.get("process_SEND")
    if send is None:
        raise AnchorMissing("ModuleReader.process_SEND")
    fn = inline.flatten(repo, mr, send)
    # the set_raw call and its enclosing loops
    parents: Dict[int, ast.AST] = {}
    for n in ast.walk(fn):
        for c in ast.iter_child_nodes(n):
            parents[id(c)] = n
    calls = [c for c in walk_no_nested(fn) if isinstance(c, ast.Call) and isinstance(c.func, ast.Attribute) and c.func.attr == "set_raw"
             and len(c.args) == 2]
    if not calls:
        return Application(None, None, None, "no set_raw call", send.lineno)
    call = calls[0]
    loops: List[ast.For] = []
    guards: List[ast.expr] = []
    cur: ast.AST = call
    while id(cur) in parents:
        par = parents[id(cur)]
        if isinstance(par, ast.For):
            loops.append(par)
        if isinstance(par, ast.If):
            inbody = any(cur is x or any(cur is y for y in ast.walk(x)) for x in par.body)
            guards.append(par.test if inbody else ast.UnaryOp(op=ast.Not(), operand=par.test))
        cur = par
    if not loops:
        return Application(None, None, None, "set_raw is not inside a loop", call.lineno)
    lp = loops[0]
    it = subst_locals(fn, lp.iter)
    sq = seq_of(it)
    text = f"for {norm(lp.target)} in {norm(it)}: … {norm(call)}"
    if sq is None:
        return Application(None, None, None, text, lp.lineno)
    name_e, raw_e = subst_locals(fn, call.args[0]), subst_locals(fn, call.args[1])
    tg = lp.target
    positional: Optional[bool] = None
    bounded: Optional[bool] = None
    if sq.kind == "enum" and isinstance(tg, ast.Tuple) and len(tg.elts) == 2 and sq.bases == (CVALS,):
        i, v = norm(tg.elts[0]), norm(tg.elts[1])
        positional = norm(name_e) == f"{KEYS}[{i}]" and norm(raw_e) == v
    elif sq.kind == "index" and isinstance(tg, ast.Name):
        i = tg.id
        positional = norm(name_e) == f"{KEYS}[{i}]" and norm(_strip_sub(raw_e)) == f"{CVALS}[{i}]"
    elif sq.kind == "pairs" and isinstance(tg, ast.Tuple) and len(tg.elts) == 2 and set(sq.bases) == {KEYS, CVALS}:
        a, b = norm(tg.elts[0]), norm(tg.elts[1])
        order_ok = (sq.bases == (KEYS, CVALS) and norm(name_e) == a and norm(raw_e) == b) or \
                   (sq.bases == (CVALS, KEYS) and norm(name_e) == b and norm(raw_e) == a)
        positional = order_ok and sq.aligned
        bounded = True                     # zip stops at the shorter list / the common prefix
    elif sq.kind == "pairs_enum" and isinstance(tg, ast.Tuple) and len(tg.elts) == 2 and isinstance(tg.elts[1], ast.Tuple) and len(tg.elts[1].elts) == 2 \
            and sq.bases == (KEYS, CVALS):
        positional = norm(name_e) == norm(tg.elts[0]) and norm(raw_e) == norm(tg.elts[1].elts[1]) and sq.aligned
        bounded = True
    # bound: on the way to the call the index is known to be < len(keys)
    if bounded is None and sq.kind in ("enum", "index"):
        ivar = norm(tg.elts[0]) if isinstance(tg, ast.Tuple) else norm(tg)
        conds: List[ast.expr] = list(guards)
        # earlier siblings that leave the iteration: `if i >= len(keys): …; continue`
        cur2: ast.AST = call
        while id(cur2) in parents and cur2 is not lp:
            par = parents[id(cur2)]
            for fld in ("body", "orelse"):
                block = getattr(par, fld, None)
                if isinstance(block, list) and any(cur2 is x for x in block):
                    for sib in block:
                        if sib is cur2:
                            break
                        if isinstance(sib, ast.If) and not sib.orelse and sib.body and isinstance(sib.body[-1], (ast.Continue, ast.Return, ast.Break, ast.Raise)):
                            conds.append(ast.UnaryOp(op=ast.Not(), operand=sib.test))
            cur2 = par
        bounded = any(_implies_below_len(subst_locals(fn, g), ivar) for g in conds)
        if not bounded and sq.kind == "index":
            rng0 = _strip_copies(it)
            # descending index loop: range(start, stop, -1) with start <= len(keys) - 1
            if isinstance(rng0, ast.Call) and norm(rng0.func) == "range" and len(rng0.args) == 3 and sq.direction == -1:
                from . import alg

                def bleaf(e):
                    t = norm(e).replace(" ", "")
                    if t == f"len({KEYS})":
                        return alg.Poly.sym("n")
                    if t in (f"min(len({CVALS}),len({KEYS}))", f"min(len({KEYS}),len({CVALS}))"):
                        return alg.Poly.sym("n")          # an upper bound of it: min(a, n) <= n
                    return None
                try:
                    d = alg.to_poly(subst_locals(fn, rng0.args[0]), bleaf) - (alg.Poly.sym("n") - 1)
                    if d.is_const() and d.const_value() <= 0:
                        bounded = True
                except alg.NotAlgebraic:
                    pass
        if not bounded and sq.kind == "index":
            rng = _strip_copies(it)
            if isinstance(rng, ast.Call) and len(rng.args) in (1, 2) and sq.direction == +1:
                stop = rng.args[-1]
                t = norm(stop).replace(" ", "")
                if t in (f"len({KEYS})", f"min(len({CVALS}),len({KEYS}))", f"min(len({KEYS}),len({CVALS}))"):
                    bounded = True
    if bounded is None:
        bounded = False
    return Application(sq.direction, positional, bounded, text, lp.lineno)


def _implies_below_len(g: ast.expr, ivar: str) -> bool:
    """Does the condition `g` imply  ivar <= len(KEYS) - 1 ?  (affine comparison of ivar with len(KEYS) + c)"""
    from . import alg
    neg = False
    while isinstance(g, ast.UnaryOp) and isinstance(g.op, ast.Not):
        g, neg = g.operand, not neg
    if isinstance(g, ast.BoolOp) and isinstance(g.op, ast.And) and not neg:
        return any(_implies_below_len(v, ivar) for v in g.values)
    if not (isinstance(g, ast.Compare) and len(g.ops) == 1):
        return False

    def leaf(e):
        if norm(e) == ivar:
            return alg.Poly.sym("i")
        if isinstance(e, ast.Call) and norm(e.func) == "len" and len(e.args) == 1 and norm(e.args[0]) == KEYS:
            return alg.Poly.sym("n")
        return None
    try:
        d = alg.to_poly(g.left, leaf) - alg.to_poly(g.comparators[0], leaf)      # left - right
    except alg.NotAlgebraic:
        return False
    op = type(g.ops[0])
    if neg:
        op = {ast.Lt: ast.GtE, ast.LtE: ast.Gt, ast.Gt: ast.LtE, ast.GtE: ast.Lt}.get(op)
    if op is None:
        return False
    base = alg.Poly.sym("i") - alg.Poly.sym("n")
    # want: i - n <= -1
    for sign, o in ((1, op), (-1, {ast.Lt: ast.Gt, ast.LtE: ast.GtE, ast.Gt: ast.Lt, ast.GtE: ast.LtE}[op])):
        dd = d if sign == 1 else -d
        c = dd - base
        if c.is_const():
            k = c.const_value()
            # (i - n) + k  o  0
            if o is ast.Lt and k >= 0:
                return True          # i - n < -k <= 0
            if o is ast.LtE and k >= 1:
                return True          # i - n <= -k <= -1
    return False


def _strip_sub(e: ast.expr) -> ast.expr:
    # tuple(self._cvals)[i] -> self._cvals[i]
    if isinstance(e, ast.Subscript):
        base = _strip_copies(e.value)
        if base is not e.value:
            new = ast.Subscript(value=base, slice=e.slice, ctx=ast.Load())
            return ast.copy_location(new, e)
    return e


# --------------------------------------------------------------------------------------------- the key list built at STYP
@dataclass
class KeyList:
    attached_first: Optional[bool]        # the list starts with the names of the attached controllers, in definition order
    extra: Optional[List[str]]            # constant names appended afterwards (None = not constant / not recognised)
    extra_cond: str                       # condition under which they are appended
    text: str
    where: int
    problems: List[str]


def _is_attached_comp(e: ast.expr) -> Optional[str]:
    """`[n for n, c in M.controllers.items() if c.attached(M)]` -> text of M."""
    e = _strip_copies(e)
    if isinstance(e, (ast.ListComp, ast.GeneratorExp)) and len(e.generators) == 1:
        g = e.generators[0]
        if isinstance(g.target, ast.Tuple) and len(g.target.elts) == 2 and all(isinstance(x, ast.Name) for x in g.target.elts) \
                and isinstance(g.iter, ast.Call) and norm(g.iter.func).endswith(".controllers.items") and len(g.ifs) <= 1:
            n, c = g.target.elts[0].id, g.target.elts[1].id
            m = norm(g.iter.func)[: -len(".controllers.items")]
            if norm(e.elt) == n and not g.ifs:
                return "*" + m          # every controller, attached or not
            if norm(e.elt) == n and norm(g.ifs[0]) == f"{c}.attached({m})":
                return m
    return None


def reader_key_list(repo: Repo) -> KeyList:
    mr = repo.cls("ModuleReader", module="rv.readers.module")
    styp = mr.methods.get("process_STYP")
    if styp is None:
        raise AnchorMissing("ModuleReader.process_STYP")
    fn = inline.flatten(repo, mr, styp)
    try:
        fn = inline.propagate_int_constants(inline.split_tuple_assigns(fn))       # first, last = 1, MAX … range(first, last + 1)
    except Exception:
        pass
    sf = mr.file
    problems: List[str] = []
    # symbolic value of list-valued names: list of segments
    val: Dict[str, List[Tuple[str, object, str]]] = {}

    def ev(e: ast.expr, cond: str):
        e0 = _strip_copies(e)
        m = _is_attached_comp(e0)
        if m is not None and m.startswith("*"):
            return [("all", m[1:], cond)]
        if m is not None:
            return [("attached", m, cond)]
        if isinstance(e0, (ast.List, ast.Tuple)) and not e0.elts:
            return []
        k = norm(e0)
        if k in val:
            return list(val[k])
        if isinstance(e0, ast.BinOp) and isinstance(e0.op, ast.Add):
            a, b = ev(e0.left, cond), ev(e0.right, cond)
            if a is not None and b is not None:
                return a + b
            return None
        try:
            c = repo.fold(e0, ci=mr, sf=sf)
            if isinstance(c, (list, tuple)) and all(isinstance(x, str) for x in c):
                return [("const", list(c), cond)]
        except Exception:
            pass
        return None

    def run(stmts, cond: str):
        for st in stmts:
            if isinstance(st, ast.Assign) and len(st.targets) == 1:
                t = norm(st.targets[0])
                v = ev(st.value, cond)
                if v is not None:
                    val[t] = v
                elif t in val or t == KEYS:
                    problems.append(f"unrecognised value {norm(st)[:80]}")
                    val.pop(t, None)
            elif isinstance(st, ast.AugAssign) and isinstance(st.op, ast.Add):
                t = norm(st.target)
                v = ev(st.value, cond)
                if t in val and v is not None:
                    val[t] = val[t] + [(k, x, cond) for k, x, _ in v]
                elif t in val or t == KEYS:
                    problems.append(f"unrecognised value {norm(st)[:80]}")
                    val.pop(t, None)
            elif isinstance(st, ast.Expr) and isinstance(st.value, ast.Call) and isinstance(st.value.func, ast.Attribute) \
                    and st.value.func.attr in ("extend", "append") and norm(st.value.func.value) in val and len(st.value.args) == 1:
                t = norm(st.value.func.value)
                if st.value.func.attr == "extend":
                    v = ev(st.value.args[0], cond)
                    if v is None:
                        problems.append(f"unrecognised value {norm(st)[:80]}")
                        val.pop(t, None)
                    else:
                        val[t] = val[t] + [(k, x, cond) for k, x, _ in v]
                else:
                    problems.append(f"append outside the recognised loop {norm(st)[:60]}")
            elif isinstance(st, ast.If):
                ct = norm(st.test)
                run(st.body, ct if not cond else f"{cond} and {ct}")
                run(st.orelse, f"not ({ct})" if not cond else f"{cond} and not ({ct})")
            elif isinstance(st, ast.For):
                # for name, c in M.controllers.items(): if c.attached(M): T.append(name)
                ok = False
                if isinstance(st.target, ast.Tuple) and len(st.target.elts) == 2 and isinstance(st.iter, ast.Call) \
                        and norm(st.iter.func).endswith(".controllers.items") and len(st.body) == 1 and isinstance(st.body[0], ast.If) \
                        and not st.body[0].orelse and len(st.body[0].body) == 1:
                    n, c = norm(st.target.elts[0]), norm(st.target.elts[1])
                    m = norm(st.iter.func)[: -len(".controllers.items")]
                    inner = st.body[0].body[0]
                    if norm(st.body[0].test) == f"{c}.attached({m})" and isinstance(inner, ast.Expr) and isinstance(inner.value, ast.Call) \
                            and isinstance(inner.value.func, ast.Attribute) and inner.value.func.attr == "append" \
                            and [norm(a) for a in inner.value.args] == [n] and norm(inner.value.func.value) in val:
                        t = norm(inner.value.func.value)
                        val[t] = val[t] + [("attached", m, cond)]
                        ok = True
                # for n in <constant iterable>: T.append(<expression of n>)    is    T.extend([… for n in …])
                if not ok and len(st.body) == 1 and isinstance(st.body[0], ast.Expr) and isinstance(st.body[0].value, ast.Call) \
                        and isinstance(st.body[0].value.func, ast.Attribute) and st.body[0].value.func.attr == "append" and len(st.body[0].value.args) == 1 \
                        and norm(st.body[0].value.func.value) in val and not st.orelse:
                    t = norm(st.body[0].value.func.value)
                    comp = ast.ListComp(elt=st.body[0].value.args[0], generators=[ast.comprehension(target=st.target, iter=st.iter, ifs=[], is_async=0)])
                    ast.copy_location(comp, st)
                    ast.fix_missing_locations(comp)
                    v = ev(comp, cond)
                    if v is not None:
                        val[t] = val[t] + [(k, x, cond) for k, x, _ in v]
                        ok = True
                tracked_touched = any((isinstance(x, ast.Attribute) and x.attr == "_controller_keys") or (isinstance(x, ast.Name) and x.id in val)
                                      for x in ast.walk(st))
                if not ok and tracked_touched:
                    problems.append(f"loop over controllers not recognised {norm(st)[:80]}")
    run(fn.body, "")
    got = val.get(KEYS)
    text = "; ".join(f"{k}:{(x if k == 'attached' else str(len(x)) + ' names')}[{c}]" for k, x, c in (got or []))
    if got is None:
        return KeyList(None, None, "", text or "self._controller_keys not assigned a recognised value", styp.lineno, problems)
    attached_first = bool(got) and got[0][0] == "attached" and got[0][2] == ""
    consts = [(x, c) for k, x, c in got[1:] if k == "const"]
    extra_attached = [1 for k, x, c in got[1:] if k == "attached"]
    if extra_attached:
        problems.append("attached controllers added twice")
    extra: Optional[List[str]] = []
    cond = ""
    for x, c in consts:
        extra = (extra or []) + list(x)
        cond = c
    return KeyList(attached_first, extra, cond, text, styp.lineno, problems)
