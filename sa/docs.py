"""RST simple-table extraction from docs/sunvox-file-format.rst and YAML chunk specs."""

from __future__ import annotations

import re
from dataclasses import dataclass, field
from typing import Any, Dict, List, Optional, Tuple

import yaml

from .model import AnchorMissing, Repo

DOC = "docs/sunvox-file-format.rst"
SPEC = "specs/fileformat.yaml"
UNDERLINE = set("=-.~^\"'`#*+")


@dataclass
class Table:
    section: str
    header: List[str]
    rows: List[List[str]]
    line: int


def parse_rst(text: str) -> List[Table]:
    lines = text.splitlines()
    tables: List[Table] = []
    section = ""
    i = 0
    border = re.compile(r"^\s*=+(\s+=+)+\s*$")
    while i < len(lines):
        ln = lines[i]
        # section title: a text line followed by an underline of the same punctuation char
        if i + 1 < len(lines) and ln.strip() and not border.match(ln):
            ul = lines[i + 1].rstrip()
            if ul and len(set(ul)) == 1 and ul[0] in UNDERLINE and len(ul) >= max(3, len(ln.rstrip()) - 1) and not ln.startswith(" "):
                section = ln.strip()
                i += 2
                continue
        if border.match(ln):
            # column spans
            spans = [(m.start(), m.end()) for m in re.finditer(r"=+", ln)]
            start = i
            j = i + 1
            body: List[str] = []
            borders = 1
            while j < len(lines):
                if border.match(lines[j]):
                    borders += 1
                    if borders == 3:
                        break
                    body.append(None)   # header separator
                elif lines[j].strip() == "" and borders >= 2 and j + 1 < len(lines) and not lines[j + 1].strip():
                    break
                else:
                    body.append(lines[j])
                j += 1
            def cells(row: str) -> List[str]:
                out = []
                for k, (a, b) in enumerate(spans):
                    end = spans[k + 1][0] if k + 1 < len(spans) else len(row) + 1
                    out.append(row[a:end].strip() if k + 1 < len(spans) else row[a:].strip())
                return out
            header: List[str] = []
            rows: List[List[str]] = []
            seen_sep = False
            for b in body:
                if b is None:
                    seen_sep = True
                    continue
                if not b.strip():
                    continue
                if not seen_sep:
                    header = cells(b)
                else:
                    rows.append(cells(b))
            tables.append(Table(section, header, rows, start + 1))
            i = j + 1
            continue
        i += 1
    return tables


def load_tables(repo: Repo) -> List[Table]:
    return parse_rst(repo.text_file(DOC))


def tables_in(tables: List[Table], section: str) -> List[Table]:
    return [t for t in tables if t.section == section]


DOC_FORMATS = {
    "unsigned int32": ("I", 4), "signed int32": ("i", 4), "unsigned int16": ("H", 2), "unsigned int8": ("B", 1),
    "signed int8": ("b", 1), "byte": ("B", 1), "bitmap (4 bytes)": ("I", 4), "unsigned int8[3]": ("BBB", 3),
    "bytes[3]": ("BBB", 3), "cstring": ("cstring", None), "string[32]": ("fixedstring", 32), "bitmap (32 bytes)": ("raw", 32),
    "bytes[8]": ("raw", 8), "signed int32[n]": ("i*n", None), "note[lines][tracks]": ("raw", None),
    "zero byte": ("x", 1),
}


def chunk_doc_rows(tables: List[Table], section: str) -> List[Tuple[str, str, str]]:
    """(chunk id, format text, purpose) rows of the 'Type ID / Format / Purpose' tables of a section."""
    out = []
    for t in tables_in(tables, section):
        if [h.lower() for h in t.header[:2]] != ["type id", "format"]:
            continue
        for r in t.rows:
            m = re.match(r"^``(.{4})``$", r[0])
            if m:
                out.append((m.group(1).strip(), r[1], r[2] if len(r) > 2 else ""))
    return out


def offset_rows(tables: List[Table], section: str) -> List[Tuple[int, str, str]]:
    out = []
    for t in tables_in(tables, section):
        if not t.header or t.header[0].lower() != "offset":
            continue
        for r in t.rows:
            try:
                off = int(r[0], 16)
            except ValueError:
                continue
            out.append((off, r[1], r[2] if len(r) > 2 else ""))
    return out


# ------------------------------------------------------------------------------------ YAML
def load_spec(repo: Repo) -> Dict[str, Any]:
    return yaml.safe_load(repo.text_file(SPEC))


SCALARS = {"signed int32": ("i", 4, True), "unsigned int32": ("I", 4, False), "unsigned int16": ("H", 2, False),
           "unsigned int8": ("B", 1, False)}


def resolve_type(spec: Dict[str, Any], tname: str, depth: int = 0) -> Dict[str, Any]:
    """Resolve a chunk type to {code, size, signed, min, max, kind}."""
    types = spec.get("chunk_types", {})
    if tname in SCALARS:
        c, s, sg = SCALARS[tname]
        return {"kind": "scalar", "code": c, "size": s, "signed": sg}
    if tname in ("cstring", "fixedstring"):
        return {"kind": tname}
    t = types.get(tname)
    if depth > 6 or t is None:
        return {"kind": "unknown", "name": tname}
    if isinstance(t, str):
        return {"kind": t, "name": tname}
    parent = t.get("parent_type")
    base = resolve_type(spec, parent, depth + 1) if parent else {"kind": "unknown"}
    out = dict(base)
    for k in ("min", "max", "length", "storage_bytes", "width", "element_type", "members", "termination_value"):
        if k in t:
            out[k] = t[k]
    if parent in ("Struct", "Bitmap", "Flags", "Array", "List", "Enum", "Waveform", "Data"):
        out["kind"] = parent
    out["name"] = tname
    return out


def spec_chunks(spec: Dict[str, Any]) -> Dict[str, List[Dict[str, Any]]]:
    """chunk id -> list of {name, type(resolved), optional, default} (ids may repeat in the spec)."""
    out: Dict[str, List[Dict[str, Any]]] = {}
    for name, c in (spec.get("chunks") or {}).items():
        cid = c.get("id")
        if not cid:
            continue
        d = {"name": name, "type_name": c.get("type"), "type": resolve_type(spec, c.get("type")) if c.get("type") else {},
             "optional": bool(c.get("optional")), "default": c.get("default"), "multiple": bool(c.get("multiple"))}
        out.setdefault(cid.strip(), []).append(d)
    return out
