"""Controller / option / array-chunk descriptors read off class bodies (AST only)."""

from __future__ import annotations

import ast
from dataclasses import dataclass, field
from typing import Any, Dict, List, Optional, Tuple

from .model import AnchorMissing, ClassInfo, NotConst, Repo, norm


@dataclass
class CtlDesc:
    name: str
    kind: str                    # range | compact | nooffset | enum | bool | dependent | other
    min: Optional[int] = None
    max: Optional[int] = None
    enum: Optional[str] = None   # enum class name (as written)
    default: Any = None          # int/bool or ("enum", class, member) or ("expr", text)
    attached: bool = True
    dep_ctl: Optional[str] = None
    dep_map: List[Tuple[str, str, int, int]] = field(default_factory=list)  # (enum, member, min, max)
    dep_default: Optional[Tuple[int, int]] = None
    dep_range_class: Optional[str] = None
    node: Optional[ast.AST] = None
    owner: Optional[ClassInfo] = None
    ctor: str = "Controller"

    def canon(self) -> Dict[str, Any]:
        d: Dict[str, Any] = {"kind": self.kind, "default": self.default, "attached": self.attached}
        if self.kind in ("range", "compact", "nooffset"):
            d["min"], d["max"] = self.min, self.max
        if self.kind == "enum":
            d["enum"] = self.enum
        if self.kind == "dependent":
            d["depends_on"] = self.dep_ctl
            d["ranges"] = [list(x) for x in self.dep_map]
            d["default_range"] = list(self.dep_default) if self.dep_default else None
            d["range_class"] = self.dep_range_class
        return d


def _enum_ref(expr: ast.expr) -> Optional[Tuple[str, str]]:
    """`Enum.member` / `Base.Enum.member` -> (Enum, member)."""
    if isinstance(expr, ast.Attribute) and isinstance(expr.value, (ast.Name, ast.Attribute)):
        cls = norm(expr.value).split(".")[-1]
        return cls, expr.attr
    return None


def _range_call(repo: Repo, expr: ast.expr, ci: ClassInfo) -> Optional[Tuple[str, int, int]]:
    """Range-like constructor call -> (class name, min, max)."""
    if isinstance(expr, ast.Call) and isinstance(expr.func, (ast.Name, ast.Attribute)) and len(expr.args) == 2 \
            and not expr.keywords:
        cname = norm(expr.func).split(".")[-1]
        if cname.endswith("Range"):
            try:
                return cname, repo.fold(expr.args[0], ci=ci), repo.fold(expr.args[1], ci=ci)
            except NotConst:
                return None
    return None


def parse_controller(repo: Repo, ci: ClassInfo, name: str, call: ast.Call) -> CtlDesc:
    d = CtlDesc(name=name, kind="other", node=call, owner=ci, ctor=norm(call.func).split(".")[-1])
    args = list(call.args)
    kws = {k.arg: k.value for k in call.keywords if k.arg}
    vt = args[0] if args else kws.get("value_type")
    dflt = args[1] if len(args) > 1 else kws.get("default")
    att = args[2] if len(args) > 2 else kws.get("attached")
    if att is not None:
        try:
            d.attached = bool(repo.fold(att, ci=ci))
        except NotConst:
            d.attached = None
    if vt is None:
        return d
    if isinstance(vt, ast.Tuple) and len(vt.elts) == 2:
        try:
            d.min, d.max = repo.fold(vt.elts[0], ci=ci), repo.fold(vt.elts[1], ci=ci)
            d.kind = "range"
        except NotConst:
            pass
    elif isinstance(vt, ast.Name) and vt.id == "bool":
        d.kind = "bool"
    elif isinstance(vt, ast.Call):
        rc = _range_call(repo, vt, ci)
        fname = norm(vt.func).split(".")[-1]
        if rc is not None:
            cname, d.min, d.max = rc
            d.kind = {"Range": "range", "CompactRange": "compact", "NoOffsetRange": "nooffset",
                      "WarnOnlyRange": "warnonly"}.get(cname, "other")
        elif fname == "DependentRange" and len(vt.args) == 3:
            d.kind = "dependent"
            try:
                d.dep_ctl = repo.fold(vt.args[0], ci=ci)
            except NotConst:
                d.dep_ctl = None
            if isinstance(vt.args[1], ast.Dict):
                classes = set()
                for k, v in zip(vt.args[1].keys, vt.args[1].values):
                    er = _enum_ref(k) if k is not None else None
                    rc2 = _range_call(repo, v, ci)
                    if er is None or rc2 is None:
                        d.dep_map.append(("?", norm(k) if k else "?", None, None))
                        continue
                    classes.add(rc2[0])
                    d.dep_map.append((er[0], er[1], rc2[1], rc2[2]))
                rc3 = _range_call(repo, vt.args[2], ci)
                if rc3:
                    classes.add(rc3[0])
                    d.dep_default = (rc3[1], rc3[2])
                d.dep_range_class = ",".join(sorted(classes))
    elif isinstance(vt, (ast.Name, ast.Attribute)):
        target = repo.class_of_expr(vt, ci, ci.file)
        if target is not None and repo.is_enum(target):
            d.kind = "enum"
            d.enum = target.name
        else:
            d.kind = "other"
            d.enum = norm(vt)
    if dflt is not None:
        er = _enum_ref(dflt)
        if d.kind == "enum" and er is not None:
            d.default = ("enum", er[0], er[1])
        else:
            try:
                d.default = repo.fold(dflt, ci=ci)
            except NotConst:
                d.default = ("expr", norm(dflt))
    return d


CONTROLLER_CTORS = ("Controller",)


def is_controller_call(repo: Repo, expr: ast.AST) -> bool:
    if not isinstance(expr, ast.Call):
        return False
    fname = norm(expr.func).split(".")[-1]
    if fname == "Controller":
        return True
    # subclasses of Controller defined in the repo
    for c in repo.classes.get(fname, []):
        try:
            if repo.is_subclass(c, "Controller"):
                return True
        except AnchorMissing:
            pass
    return False


def own_controllers(repo: Repo, ci: ClassInfo) -> List[CtlDesc]:
    out = []
    from .model import IndexedElement
    for name in ci.order:
        val = ci.assigns[name]
        if is_controller_call(repo, val):
            out.append(parse_controller(repo, ci, name, val))
        elif isinstance(val, IndexedElement):
            src = val.source
            if isinstance(src, (ast.ListComp, ast.GeneratorExp)) and is_controller_call(repo, src.elt):
                d = CtlDesc(name=name, kind="proxy", node=src.elt, owner=ci,
                            ctor=norm(src.elt.func).split(".")[-1])
                d.default = ("index", val.index)
                out.append(d)
    return out


def all_controllers(repo: Repo, ci: ClassInfo) -> List[CtlDesc]:
    """Controllers of a module class in numbering order (bases first, definition order)."""
    out: List[CtlDesc] = []
    seen = set()
    for c in reversed(repo.mro(ci)):
        for d in own_controllers(repo, c):
            if d.name in seen:
                out = [x for x in out if x.name != d.name]
            seen.add(d.name)
            out.append(d)
    return out


@dataclass
class OptDesc:
    name: str
    kwargs: Dict[str, Any]
    node: ast.Call
    owner: ClassInfo

    def get(self, k, default=None):
        return self.kwargs.get(k, default)


def own_options(repo: Repo, ci: ClassInfo) -> List[OptDesc]:
    out = []
    for name in ci.order:
        val = ci.assigns[name]
        if isinstance(val, ast.Call) and norm(val.func).split(".")[-1] == "Option":
            kw: Dict[str, Any] = {}
            pos = ["name", "byte", "bit", "size", "default", "number", "min", "max", "inverted", "exclusive_of"]
            for i, a in enumerate(val.args):
                kw[pos[i]] = a
            for k in val.keywords:
                if k.arg:
                    kw[k.arg] = k.value
            folded: Dict[str, Any] = {}
            for k, v in kw.items():
                er = _enum_ref(v)
                if k == "default" and er is not None and isinstance(v, ast.Attribute):
                    try:
                        folded[k] = ("enum", er[0], er[1], repo.fold(v, ci=ci))
                    except NotConst:
                        folded[k] = ("enum", er[0], er[1], None)
                    continue
                try:
                    folded[k] = repo.fold(v, ci=ci)
                except NotConst:
                    folded[k] = ("expr", norm(v))
            out.append(OptDesc(name=name, kwargs=folded, node=val, owner=ci))
    return out


def all_options(repo: Repo, ci: ClassInfo) -> List[OptDesc]:
    out: List[OptDesc] = []
    seen = set()
    for c in reversed(repo.mro(ci)):
        for d in own_options(repo, c):
            if d.name in seen:
                out = [x for x in out if x.name != d.name]
            seen.add(d.name)
            out.append(d)
    return out


def module_classes(repo: Repo) -> List[ClassInfo]:
    """Concrete module classes: subclasses of rv.modules.module.Module in rv.modules.*"""
    out = []
    for c in repo.all_classes():
        if c.outer is not None or not c.file.modname.startswith("rv.modules"):
            continue
        if c.name == "Module":
            continue
        try:
            if repo.is_subclass(c, "Module"):
                out.append(c)
        except AnchorMissing:
            continue
    return sorted(out, key=lambda c: c.fq)


def class_const(repo: Repo, ci: ClassInfo, attr: str):
    r = repo.lookup(ci, attr)
    if r is None:
        raise AnchorMissing(f"{ci.qualname}.{attr} not defined")
    owner, kind, node = r
    if kind == "assign":
        return repo.fold(node, ci=owner)
    if kind == "property" and node[0] is not None:
        from .model import _single_return
        ret = _single_return(node[0])
        if ret is not None:
            return repo.fold(ret, ci=ci, sf=owner.file)
    raise NotConst(f"{ci.qualname}.{attr}")
