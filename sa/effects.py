"""Call graph by class-hierarchy analysis and per-function store effects."""

from __future__ import annotations

import ast
from dataclasses import dataclass, field
from typing import Dict, Iterable, List, Optional, Set, Tuple

from .idioms import MUTATING_METHODS, copy_depth
from .model import AnchorMissing, ClassInfo, Repo, attr_chain, norm, walk_no_nested


@dataclass
class Fn:
    key: str                      # rel:Class.method  or rel:function
    node: ast.AST
    cls: Optional[ClassInfo]
    rel: str
    kind: str = "method"          # method | getter | setter | function


class CallGraph:
    def __init__(self, repo: Repo, packages: Tuple[str, ...] = ("rv",), exclude: Tuple[str, ...] = ("rv.tools", "rv._vendor")):
        self.repo = repo
        self.fns: Dict[str, Fn] = {}
        self.by_method: Dict[str, List[Fn]] = {}
        self.by_getter: Dict[str, List[Fn]] = {}
        self.by_setter: Dict[str, List[Fn]] = {}
        self.by_function: Dict[str, List[Fn]] = {}
        self.class_of_ctor: Dict[str, ClassInfo] = {}
        for c in repo.all_classes():
            mn = c.file.modname
            if not mn.startswith(packages) or mn.startswith(exclude):
                continue
            for name, fn in c.methods.items():
                f = Fn(f"{c.file.rel}:{c.qualname}.{name}", fn, c, c.file.rel, "method")
                self.fns[f.key] = f
                self.by_method.setdefault(name, []).append(f)
            for name, fn in c.getters.items():
                f = Fn(f"{c.file.rel}:{c.qualname}.{name}<get>", fn, c, c.file.rel, "getter")
                self.fns[f.key] = f
                self.by_getter.setdefault(name, []).append(f)
            for name, fn in c.setters.items():
                f = Fn(f"{c.file.rel}:{c.qualname}.{name}<set>", fn, c, c.file.rel, "setter")
                self.fns[f.key] = f
                self.by_setter.setdefault(name, []).append(f)
            self.class_of_ctor.setdefault(c.name, c)
        for rel, sf in repo.files.items():
            mn = sf.modname
            if not mn.startswith(packages) or mn.startswith(exclude):
                continue
            for node in sf.tree.body:
                if isinstance(node, (ast.FunctionDef, ast.AsyncFunctionDef)):
                    f = Fn(f"{rel}:{node.name}", node, None, rel, "function")
                    self.fns[f.key] = f
                    self.by_function.setdefault(node.name, []).append(f)

    def fn(self, cls: str, name: str, kind: str = "method") -> Fn:
        suffix = {"method": "", "getter": "<get>", "setter": "<set>"}[kind]
        for f in self.fns.values():
            if f.cls is not None and f.cls.qualname == cls and f.key.endswith(f".{name}{suffix}") and f.kind == kind:
                return f
        raise AnchorMissing(f"{cls}.{name} ({kind})")

    def callees(self, f: Fn, follow_setters: bool = True) -> List[Fn]:
        out: List[Fn] = []
        seen = set()

        def add(lst: Iterable[Fn]):
            for g in lst:
                if g.key not in seen:
                    seen.add(g.key)
                    out.append(g)
        local_names = {a.arg for a in getattr(f.node, "args", ast.arguments(posonlyargs=[], args=[], kwonlyargs=[], kw_defaults=[], defaults=[])).args}
        # local aliases of getattr(x, "name", default)
        getattr_alias: Dict[str, str] = {}
        for n in walk_no_nested(f.node):
            if isinstance(n, ast.Assign) and len(n.targets) == 1 and isinstance(n.targets[0], ast.Name) \
                    and isinstance(n.value, ast.Call) and norm(n.value.func) == "getattr" and len(n.value.args) >= 2 \
                    and isinstance(n.value.args[1], ast.Constant) and isinstance(n.value.args[1].value, str):
                getattr_alias[n.targets[0].id] = n.value.args[1].value
        # names that range over a literal tuple/list of strings: `for hook in ("a", "b"): getattr(x, hook)()`
        str_sets: Dict[str, List[str]] = {}
        for n in walk_no_nested(f.node):
            it = tg = None
            if isinstance(n, (ast.For, ast.comprehension)):
                it, tg = n.iter, n.target
            if isinstance(tg, ast.Name) and isinstance(it, (ast.Tuple, ast.List, ast.Set)) \
                    and it.elts and all(isinstance(x, ast.Constant) and isinstance(x.value, str) for x in it.elts):
                str_sets[tg.id] = [x.value for x in it.elts]
        for n in walk_no_nested(f.node):
            if isinstance(n, ast.Call) and norm(n.func) == "getattr" and len(n.args) >= 2 and isinstance(n.args[1], ast.Name) \
                    and n.args[1].id in str_sets:
                for nm in str_sets[n.args[1].id]:
                    add(self.by_getter.get(nm, []))
                    add(self.by_method.get(nm, []))
        for n in walk_no_nested(f.node):
            if isinstance(n, ast.Call):
                fx = n.func
                if isinstance(fx, ast.Attribute):
                    name = fx.attr
                    recv = fx.value
                    if isinstance(recv, ast.Name) and recv.id == "self" and f.cls is not None:
                        r = self.repo.lookup(f.cls, name)
                        if r and r[1] == "method":
                            # virtual dispatch: the resolved method and every override in subclasses
                            add([g for g in self.by_method.get(name, [])
                                 if g.cls is r[0] or self._related(g.cls, f.cls)])
                            continue
                    if isinstance(recv, ast.Call) and norm(recv.func) == "super" and f.cls is not None:
                        # super().m(): any class defining m (mixins make the static MRO ambiguous)
                        add([g for g in self.by_method.get(name, []) if g.cls is not f.cls])
                        continue
                    add(self.by_method.get(name, []))
                elif isinstance(fx, ast.Name):
                    if fx.id in getattr_alias:
                        add(self.by_method.get(getattr_alias[fx.id], []))
                    if fx.id in self.class_of_ctor and fx.id not in local_names:
                        c = self.class_of_ctor[fx.id]
                        r = self.repo.lookup(c, "__init__")
                        if r and r[1] == "method":
                            add([g for g in self.by_method.get("__init__", []) if g.cls is r[0]])
                    add(self.by_function.get(fx.id, []))
                    if fx.id == "getattr" and len(n.args) >= 2 and isinstance(n.args[1], ast.Constant) and isinstance(n.args[1].value, str):
                        add(self.by_getter.get(n.args[1].value, []))
                        add(self.by_method.get(n.args[1].value, []))
            elif isinstance(n, ast.Attribute):
                if isinstance(n.ctx, ast.Load):
                    add(self.by_getter.get(n.attr, []))
                elif follow_setters and isinstance(n.ctx, ast.Store):
                    add(self.by_setter.get(n.attr, []))
        return out

    def _related(self, a: Optional[ClassInfo], b: Optional[ClassInfo]) -> bool:
        if a is None or b is None:
            return False
        try:
            return a in self.repo.mro(b) or b in self.repo.mro(a)
        except AnchorMissing:
            return True

    def closure(self, roots: List[Fn], stop: Optional[Set[str]] = None) -> Dict[str, Tuple[Fn, Optional[str]]]:
        """key -> (fn, parent key) for everything reachable from roots."""
        stop = stop or set()
        seen: Dict[str, Tuple[Fn, Optional[str]]] = {}
        todo: List[Tuple[Fn, Optional[str]]] = [(r, None) for r in roots]
        while todo:
            f, parent = todo.pop(0)
            if f.key in seen or f.key in stop:
                continue
            seen[f.key] = (f, parent)
            for g in self.callees(f):
                if g.key not in seen:
                    todo.append((g, f.key))
        return seen

    def chain(self, closure: Dict[str, Tuple[Fn, Optional[str]]], key: str) -> List[str]:
        out = []
        cur: Optional[str] = key
        while cur is not None and len(out) < 12:
            out.append(cur.split(":")[-1])
            cur = closure[cur][1]
        return list(reversed(out))


@dataclass
class Effect:
    kind: str            # store | mutate
    target: str          # text
    public: bool
    node: ast.AST
    fresh: bool = False


def effects(fn: Fn) -> List[Effect]:
    """Stores to attributes and in-place mutations in one function, with local freshness."""
    out: List[Effect] = []
    defs: Dict[str, ast.expr] = {}
    params = [a.arg for a in fn.node.args.args] if hasattr(fn.node, "args") else []
    for n in walk_no_nested(fn.node):
        if isinstance(n, ast.Assign) and len(n.targets) == 1 and isinstance(n.targets[0], ast.Name):
            defs.setdefault(n.targets[0].id, n.value)
        elif isinstance(n, ast.AnnAssign) and isinstance(n.target, ast.Name) and n.value is not None:
            defs.setdefault(n.target.id, n.value)          # `line: List[Note] = []` binds like `line = []`
        elif isinstance(n, ast.Assign) and len(n.targets) > 1:
            for t in n.targets:          # a = self.b = <value>: every name denotes the same (new or old) object
                if isinstance(t, ast.Name):
                    defs.setdefault(t.id, n.value)
        elif isinstance(n, (ast.For, ast.comprehension)):
            tgt = n.target
            for x in ast.walk(tgt):
                if isinstance(x, ast.Name):
                    defs.setdefault(x.id, ast.Name(id="<loop>", ctx=ast.Load()))
        elif isinstance(n, ast.With):
            for it in n.items:
                if it.optional_vars is not None and isinstance(it.optional_vars, ast.Name):
                    defs.setdefault(it.optional_vars.id, it.context_expr)

    def fresh_local(name: str, depth_needed: int = 1) -> bool:
        if name in params:
            return False
        e = defs.get(name)
        if e is None:
            return False
        if isinstance(e, ast.Name) and e.id == "<loop>":
            return False
        if isinstance(e, ast.Call):
            f = norm(e.func)
            # constructor calls / BytesIO / pack results / list() etc. produce fresh objects
            if f in ("BytesIO", "io.BytesIO", "StringIO", "list", "dict", "set", "bytearray", "defaultdict") or f.split(".")[-1][:1].isupper():
                return True
        if isinstance(e, (ast.BinOp, ast.JoinedStr, ast.Constant, ast.Compare, ast.BoolOp)) and not isinstance(e, ast.BoolOp):
            return True      # arithmetic / concatenation / repetition builds a new object
        d, src = copy_depth(e)
        if src is None:
            return True
        return d >= depth_needed

    def origin(name: str, seen=()) -> Tuple[Optional[str], List[str]]:
        """(root name, attribute chain) of the object a non-fresh local denotes."""
        e = defs.get(name)
        if e is None or name in seen or (isinstance(e, ast.Name) and e.id == "<loop>"):
            return name, []
        d, src = copy_depth(e)
        node = src if src is not None else e
        attrs: List[str] = []
        while isinstance(node, (ast.Attribute, ast.Subscript, ast.Call)):
            if isinstance(node, ast.Attribute):
                attrs.append(node.attr)
                node = node.value
            elif isinstance(node, ast.Subscript):
                node = node.value
            else:
                node = node.func
        attrs.reverse()
        if isinstance(node, ast.Name):
            if node.id in defs and node.id not in ("self",) and node.id != name:
                r, a = origin(node.id, tuple(seen) + (name,))
                return r, a + attrs
            return node.id, attrs
        return None, attrs

    def base_of(t: ast.AST) -> Tuple[Optional[str], int, List[str]]:
        depth = 0
        attrs: List[str] = []
        while isinstance(t, (ast.Subscript, ast.Attribute)):
            depth += 1
            if isinstance(t, ast.Attribute):
                attrs.append(t.attr)
            t = t.value
        return (t.id if isinstance(t, ast.Name) else None), depth, list(reversed(attrs))

    for n in walk_no_nested(fn.node):
        targets: List[ast.AST] = []
        if isinstance(n, ast.Assign):
            for t in n.targets:
                targets += list(t.elts) if isinstance(t, (ast.Tuple, ast.List)) else [t]
        elif isinstance(n, (ast.AugAssign, ast.AnnAssign)):
            targets = [n.target]
        elif isinstance(n, ast.Delete):
            targets = list(n.targets)
        for t in targets:
            if isinstance(t, (ast.Attribute, ast.Subscript)):
                base, depth, attrs = base_of(t)
                fresh = base is not None and base != "self" and fresh_local(base, depth)
                target = norm(t)
                if base is not None and base != "self" and not fresh and base in defs:
                    root, oattrs = origin(base)
                    attrs = oattrs + attrs
                    if oattrs:
                        target = f"{norm(t)}  [= {root}.{'.'.join(oattrs)}…]"
                first_attr = attrs[0] if attrs else ""
                public = not first_attr.startswith("_") if attrs else True
                out.append(Effect("store", target, public, n, fresh))
        if isinstance(n, ast.Call) and isinstance(n.func, ast.Attribute) and n.func.attr in MUTATING_METHODS \
                and not (isinstance(n.func.value, ast.Name) and n.func.value.id in ("self", "cls")) \
                and not (isinstance(n.func.value, ast.Call) and norm(n.func.value.func) == "super"):
            recv = n.func.value
            base, depth, attrs = base_of(recv) if isinstance(recv, (ast.Attribute, ast.Subscript)) else \
                ((recv.id if isinstance(recv, ast.Name) else None), 0, [])
            fresh = base is not None and base != "self" and fresh_local(base, depth + 1)
            target = norm(n)
            if base is not None and base != "self" and not fresh and base in defs:
                root, oattrs = origin(base)
                attrs = oattrs + attrs
                if oattrs:
                    target = f"{norm(n)}  [= {root}.{'.'.join(oattrs)}…]"
            first_attr = attrs[0] if attrs else ""
            public = not first_attr.startswith("_")
            out.append(Effect("mutate", target, public, n, fresh))
    return out
