"""C12 — note cells and packed bit-fields are lossless; sub-field setters independent."""

from __future__ import annotations

import ast
import copy
import struct
from typing import Dict, List, Optional, Tuple

from .. import alg, packed, specdiff
from ..model import AnchorMissing, NotConst, Repo, attr_chain, norm, stmts_of, walk_no_nested

LEVEL = "proof"
EXPLANATION = (
    "bit-vector abstract interpretation of every packed-word getter/setter pair (Note.controller/effect/"
    "val_xx/val_yy, six Visualization sub-fields) and of the SMII/SFGS packer/unpacker pairs: decides for "
    "ALL old words and ALL new values that the field read back is the value set (masked/clamped to the "
    "field width) and every other bit is unchanged; format/field-order parity of Note.raw_data; exact "
    "polynomial check of the row-major cell offset in Pattern.raw_data. Does not decide run-time enum "
    "validity of enumerated parts."
)
DECLINED = ["that enumerated parts (LevelMode, OscilloscopeMode, NOTECMD) hold defined members at run time "
            "(precondition of the statement)"]
ASSUMPTIONS = ["Python int semantics of & | ^ ~ << >> + - on non-negative words",
               "IntEnum(x), int(x) and .value are the identity on bits"]


def run(repo: Repo, rep, tier: str):
    note_raw_data(repo, rep, "C12")
    pattern_raw_data(repo, rep, "C12")
    accessor_rules(repo, rep, "C12")
    pack_pairs(repo, rep, "C12", "R3p")
    from . import c04
    c04.module_highbyte_fixup(repo, rep, "C12", "R2m", require_present=False)


# ------------------------------------------------------------------------------------- R1
def note_field_widths(repo: Repo) -> Dict[str, Tuple[int, int]]:
    """attr name -> (lo, hi) from `attr(validator=in_range(lo, hi))` in Note."""
    note = repo.cls("Note", module="rv.note")
    out = {}
    for name, val in note.assigns.items():
        if isinstance(val, ast.Call) and norm(val.func) == "attr":
            for kw in val.keywords:
                if kw.arg == "validator" and isinstance(kw.value, ast.Call) and norm(kw.value.func) == "in_range":
                    try:
                        out[name] = (repo.fold(kw.value.args[0], ci=note), repo.fold(kw.value.args[1], ci=note))
                    except NotConst:
                        pass
    return out


def note_raw_data(repo: Repo, rep, P: str):
    note = repo.cls("Note", module="rv.note")
    construct = f"{note.file.rel}:Note.raw_data"
    g = note.getters.get("raw_data")
    s = note.setters.get("raw_data")
    if g is None or s is None:
        raise AnchorMissing("Note.raw_data getter/setter")
    rep.func("rv.note.Note.raw_data")
    from .. import inline
    g, s = inline.normalize(repo, note, g), inline.normalize(repo, note, s)
    gcall = None
    for n in walk_no_nested(g):
        if isinstance(n, ast.Call) and norm(n.func) in ("pack", "struct.pack"):
            gcall = n
    scall = None
    starget = None
    for n in walk_no_nested(s):
        if isinstance(n, ast.Assign) and isinstance(n.value, ast.Call) and norm(n.value.func) in ("unpack", "struct.unpack"):
            scall, starget = n.value, n.targets[0]
    if gcall is None or scall is None:
        rep.inconclusive(f"{P}.R1", construct, "", "pack/unpack call not found", f"{note.file.rel}:{g.lineno}")
        return
    try:
        gfmt = repo.fold(gcall.args[0], ci=note)
        sfmt = repo.fold(scall.args[0], ci=note)
    except NotConst:
        rep.inconclusive(f"{P}.R1", construct, norm(gcall), "format not constant", f"{note.file.rel}:{g.lineno}")
        return
    gfields = [attr_chain(a)[-1] if attr_chain(a) else norm(a) for a in gcall.args[1:]]
    if any(isinstance(a, ast.Starred) for a in gcall.args[1:]):
        rep.inconclusive(f"{P}.R1", construct, norm(gcall), "packed values are not visible one by one", f"{note.file.rel}:{g.lineno}")
        return
    if isinstance(starget, ast.Name):
        # values = unpack(fmt, data); self.a = values[0]; self.b = values[1]; ...
        by_index = {}
        for n in walk_no_nested(s):
            if isinstance(n, ast.Assign) and len(n.targets) == 1 and isinstance(n.value, ast.Subscript) and norm(n.value.value) == starget.id \
                    and isinstance(n.value.slice, ast.Constant) and isinstance(n.value.slice.value, int) and attr_chain(n.targets[0]):
                by_index.setdefault(n.value.slice.value, []).append(attr_chain(n.targets[0])[-1])
        if sorted(by_index) != list(range(len(by_index))) or any(len(v) != 1 for v in by_index.values()) or not by_index:
            rep.inconclusive(f"{P}.R1", construct, norm(s)[:160], "destination of the unpacked values not recognised", f"{note.file.rel}:{s.lineno}")
            return
        sfields = [by_index[i][0] for i in range(len(by_index))]
    else:
        sfields = [attr_chain(t)[-1] if attr_chain(t) else norm(t) for t in (starget.elts if isinstance(starget, ast.Tuple) else [starget])]
    where = f"{note.file.rel}:{g.lineno}"
    if gfmt != sfmt:
        rep.violation(f"{P}.R1", construct, f"pack({gfmt!r}) / unpack({sfmt!r})",
                      "Note.raw_data getter and setter use different formats", where)
    else:
        rep.ok(f"{P}.R1", construct, f"format {gfmt!r} on both sides")
    if gfields != sfields:
        rep.violation(f"{P}.R1", construct, f"pack order {gfields} / unpack order {sfields}",
                      "Note.raw_data packs and unpacks the fields in different orders", f"{note.file.rel}:{s.lineno}")
    else:
        rep.ok(f"{P}.R1", construct, f"field order {gfields}")
    try:
        size = struct.calcsize(gfmt)
    except struct.error:
        size = None
    if size != 8:
        rep.violation(f"{P}.R1", construct, f"calcsize({gfmt!r}) = {size}", "a note cell must be exactly 8 bytes", where)
    else:
        rep.ok(f"{P}.R1", construct, "cell size 8")
    if not str(gfmt).startswith("<"):
        rep.violation(f"{P}.R1", construct, f"{gfmt!r}", "note cells must be little-endian without padding", where)
    # widths: every field's declared domain fits its struct code, and every domain value is representable
    widths = note_field_widths(repo)
    codes = [c for c in str(gfmt).lstrip("<>=!@") if c.isalpha()]
    cap = {"B": (0, 255), "H": (0, 65535), "b": (-128, 127), "h": (-32768, 32767), "I": (0, 2**32 - 1), "i": (-2**31, 2**31 - 1)}
    if len(codes) == len(gfields):
        for f, c in zip(gfields, codes):
            if f in widths and c in cap:
                lo, hi = widths[f]
                if lo < cap[c][0] or hi > cap[c][1]:
                    rep.violation(f"{P}.R1", construct, f"{f}: in_range({lo}, {hi}) packed as {c!r}",
                                  "declared field domain does not fit the packed width", where)
                else:
                    rep.ok(f"{P}.R1", construct, f"{f}: domain [{lo},{hi}] fits {c!r}")
    expected = ["note", "vel", "module", "ctl", "val"]
    declared = [n for n in note.order if isinstance(note.assigns[n], ast.Call) and norm(note.assigns[n].func) == "attr" and n != "pattern"]
    if sorted(declared) != sorted(gfields):
        rep.violation(f"{P}.R1", construct, f"declared {declared} / packed {gfields}",
                      "a declared note field is not part of the 8-byte cell (or vice versa)", where)
    else:
        rep.ok(f"{P}.R1", construct, f"all declared fields packed: {declared}")
    rep.count("note_fields", len(gfields), 5)


# ------------------------------------------------------------------------------------- R2
def pattern_raw_data(repo: Repo, rep, P: str):
    pat = repo.cls("Pattern", module="rv.pattern")
    construct = f"{pat.file.rel}:Pattern.raw_data"
    g = pat.getters.get("raw_data")
    s = pat.setters.get("raw_data")
    if g is None or s is None:
        raise AnchorMissing("Pattern.raw_data getter/setter")
    rep.func("rv.pattern.Pattern.raw_data")
    note = repo.cls("Note", module="rv.note")
    cell_size = 8
    # --- setter: which cell receives which bytes.  Normal form: helpers inlined, locals resolved; recognised shapes:
    #   F1  for a in range(self.lines): for b in range(self.tracks): D[a][b].raw_data = raw[lo:hi]
    #   F2  for i, cell in enumerate(D[a][b] for a in range(self.lines) for b in range(self.tracks)): cell.raw_data = raw[lo:hi]
    from .. import inline, packed
    sflat = inline.normalize(repo, pat, s)
    defs = packed.single_defs(sflat)
    param = [a.arg for a in sflat.args.args if a.arg != "self"]
    parents: Dict[int, ast.AST] = {}
    for n in ast.walk(sflat):
        for c in ast.iter_child_nodes(n):
            parents[id(c)] = n
    found = False

    def bound_of(e: ast.expr) -> Optional[str]:
        e = packed.resolve_names(e, defs)
        if isinstance(e, ast.Call) and norm(e.func) == "range" and len(e.args) == 1:
            b = packed.resolve_names(e.args[0], defs)
            ch = attr_chain(b)
            return ch[-1] if ch and ch[0] == "self" and len(ch) == 2 else norm(b)
        return None
    for st in ast.walk(sflat):
        if not (isinstance(st, ast.Assign) and len(st.targets) == 1 and isinstance(st.targets[0], ast.Attribute) and st.targets[0].attr == "raw_data"):
            continue
        t = st.targets[0]
        where = f"{pat.file.rel}:{st.lineno}"
        vars_: Dict[str, str] = {}          # loop variable -> bound attribute
        enum_sub_pending: List = []
        cur: ast.AST = st
        enum_loop = None
        while id(cur) in parents:
            cur = parents[id(cur)]
            if isinstance(cur, ast.For):
                b = bound_of(cur.iter)
                if b is not None and isinstance(cur.target, ast.Name):
                    vars_[cur.target.id] = b
                it = packed.resolve_names(cur.iter, defs)
                if isinstance(it, ast.Call) and norm(it.func) == "enumerate" and len(it.args) == 1 and isinstance(cur.target, ast.Tuple) \
                        and len(cur.target.elts) == 2:
                    enum_loop = (cur, it.args[0])
                    # for i, off in enumerate(range(0, self.tracks * K, K)):  i runs over range(self.tracks), off = K·i
                    rg = packed.resolve_names(it.args[0], defs)
                    if isinstance(rg, ast.Call) and norm(rg.func) == "range" and len(rg.args) == 3 and all(isinstance(x, ast.Name) for x in cur.target.elts):
                        def _lf(e):
                            ch_ = attr_chain(e)
                            if ch_ and ch_[0] == "self" and len(ch_) == 2:
                                return alg.Poly.sym("self." + ch_[1])
                            try:
                                v_ = repo.fold(e, ci=pat, sf=pat.file)
                                if isinstance(v_, int) and not isinstance(v_, bool):
                                    return alg.Poly.const(v_)
                            except NotConst:
                                pass
                            return None
                        try:
                            lo_, hi_, st_ = (alg.to_poly(packed.resolve_names(x, defs), _lf) for x in rg.args)
                            for attr_ in ("tracks", "lines"):
                                if lo_ == alg.Poly.const(0) and hi_ == st_ * alg.Poly.sym("self." + attr_) and st_.is_const() and st_.const_value() > 0:
                                    vars_[cur.target.elts[0].id] = attr_
                                    enum_sub_pending.append((cur.target.elts[1].id, st_ * alg.Poly.sym(cur.target.elts[0].id)))
                        except Exception:
                            pass
        row_e = col_e = base_e = None
        index_sub: Dict[str, alg.Poly] = {}
        for k_e, p_e in enum_sub_pending:
            index_sub[k_e] = p_e
        cell = packed.resolve_names(t.value, defs)
        if isinstance(cell, ast.Subscript) and isinstance(cell.value, ast.Subscript):
            row_e, col_e, base_e = cell.value.slice, cell.slice, cell.value.value
        elif isinstance(t.value, ast.Name) and enum_loop is not None and norm(enum_loop[0].target.elts[1]) == t.value.id \
                and isinstance(enum_loop[1], (ast.GeneratorExp, ast.ListComp)) and len(enum_loop[1].generators) == 2:
            ge = enum_loop[1]
            g1, g2 = ge.generators
            el = packed.resolve_names(ge.elt, defs)
            b1, b2 = bound_of(g1.iter), bound_of(g2.iter)
            if isinstance(el, ast.Subscript) and isinstance(el.value, ast.Subscript) and b1 and b2 and isinstance(g1.target, ast.Name) \
                    and isinstance(g2.target, ast.Name) and not g1.ifs and not g2.ifs:
                row_e, col_e, base_e = el.value.slice, el.slice, el.value.value
                vars_[g1.target.id], vars_[g2.target.id] = b1, b2
                # the enumerate index of a full nested iteration is a·B + b
                idx = norm(enum_loop[0].target.elts[0])
                index_sub[idx] = alg.Poly.sym(g1.target.id) * alg.Poly.sym("self." + b2) + alg.Poly.sym(g2.target.id)
        if row_e is None:
            continue
        found = True
        row_idx, col_idx = norm(packed.resolve_names(row_e, defs)), norm(packed.resolve_names(col_e, defs))
        base_src = packed.resolve_names(base_e, defs)
        val = packed.resolve_names(st.value, defs)
        if norm(base_src) not in ("self.data", "self._data"):
            rep.inconclusive(f"{P}.R2", construct, norm(st), "cell array is not self.data", where)
            continue
        if row_idx not in vars_ or col_idx not in vars_:
            rep.inconclusive(f"{P}.R2", construct, norm(st), f"the range of cell index [{row_idx}][{col_idx}] is not derived (loop bounds {vars_})", where)
            continue
        if vars_.get(row_idx) != "lines" or vars_.get(col_idx) != "tracks":
            rep.violation(f"{P}.R2", construct, norm(st),
                          f"cell index [{row_idx}][{col_idx}] is not [line][track] (loop bounds {vars_})", where)
            continue
        compose_obligation = None
        if isinstance(val, ast.Subscript) and isinstance(val.slice, ast.Slice) and val.slice.step is None and isinstance(val.value, ast.Subscript) \
                and isinstance(val.value.slice, ast.Slice) and val.value.slice.step is None and isinstance(val.value.value, ast.Name) \
                and val.value.value.id in param and val.slice.upper is not None and val.value.slice.upper is not None:
            # a slice of a slice of the argument: A[a:b][c:d] is A[a + c : a + d] provided a + d <= b (checked below)
            a_ = val.value.slice.lower or ast.Constant(value=0)
            c_ = val.slice.lower or ast.Constant(value=0)
            compose_obligation = (val.value.slice.upper, a_, val.slice.upper)
            val = ast.copy_location(ast.Subscript(
                value=val.value.value,
                slice=ast.Slice(lower=ast.BinOp(left=copy.deepcopy(a_), op=ast.Add(), right=copy.deepcopy(c_)),
                                upper=ast.BinOp(left=copy.deepcopy(a_), op=ast.Add(), right=copy.deepcopy(val.slice.upper)), step=None),
                ctx=ast.Load()), val)
            ast.fix_missing_locations(val)
        if not (isinstance(val, ast.Subscript) and isinstance(val.slice, ast.Slice) and val.slice.step is None
                and isinstance(val.value, ast.Name) and val.value.id in param):
            rep.inconclusive(f"{P}.R2", construct, norm(st), "cell bytes are not a slice of the argument", where)
            continue

        # a running cursor: `c = c0` before the loops, `c = c + K` once at the end of every innermost iteration of a full
        # nested iteration (no break/continue): at cell (a, b) it stands at c0 + K·(a·B + b)
        nest = []
        cur2: ast.AST = st
        while id(cur2) in parents:
            cur2 = parents[id(cur2)]
            if isinstance(cur2, ast.For):
                nest.append(cur2)
        for nm_ in {x.id for x in ast.walk(val.slice) if isinstance(x, ast.Name)} - set(vars_) - set(index_sub):
            asg = [a for a in ast.walk(sflat) if (isinstance(a, ast.Assign) and any(isinstance(t_, ast.Name) and t_.id == nm_ for t_ in a.targets))
                   or (isinstance(a, ast.AugAssign) and isinstance(a.target, ast.Name) and a.target.id == nm_)]
            if len(asg) != 2 or len(nest) != 2 or not all(isinstance(lp_.target, ast.Name) and lp_.target.id in vars_ and not lp_.orelse for lp_ in nest):
                continue
            if any(isinstance(x, (ast.Break, ast.Continue, ast.Return)) for x in ast.walk(nest[-1])):
                continue
            init, upd = sorted(asg, key=inline.pos)
            inner, outer = nest[0], nest[1]
            if any(init is x for x in ast.walk(outer)) or not any(upd is x for x in inner.body) or inline.pos(upd) < inline.pos(st):
                continue
            try:
                c0 = repo.fold(init.value, ci=pat, sf=pat.file) if isinstance(init, ast.Assign) else None
            except NotConst:
                c0 = None
            step = None
            if isinstance(upd, ast.AugAssign) and isinstance(upd.op, ast.Add):
                step = upd.value
            elif isinstance(upd, ast.Assign):
                uv = packed.resolve_names(upd.value, defs)
                if isinstance(uv, ast.BinOp) and isinstance(uv.op, ast.Add):
                    if isinstance(uv.left, ast.Name) and uv.left.id == nm_:
                        step = uv.right
                    elif isinstance(uv.right, ast.Name) and uv.right.id == nm_:
                        step = uv.left
            try:
                k_ = repo.fold(step, ci=pat, sf=pat.file) if step is not None else None
            except NotConst:
                k_ = None
            if isinstance(c0, int) and isinstance(k_, int) and not isinstance(c0, bool):
                index_sub[nm_] = alg.Poly.const(c0) + alg.Poly.const(k_) * (
                    alg.Poly.sym(outer.target.id) * alg.Poly.sym("self." + vars_[inner.target.id]) + alg.Poly.sym(inner.target.id))

        def leaf(e):
            if isinstance(e, ast.Name):
                if e.id in index_sub:
                    return index_sub[e.id]
                if e.id in vars_:
                    return alg.Poly.sym(e.id)
            ch = attr_chain(e)
            if ch and ch[0] == "self" and len(ch) == 2:
                return alg.Poly.sym("self." + ch[1])
            try:
                v = repo.fold(e, ci=pat, sf=pat.file)
                if isinstance(v, int) and not isinstance(v, bool):
                    return alg.Poly.const(v)
            except NotConst:
                pass
            if isinstance(e, ast.Name):
                return alg.Poly.sym(e.id)
            return None
        try:
            lo = alg.to_poly(val.slice.lower, leaf) if val.slice.lower is not None else alg.Poly.const(0)
            hi = alg.to_poly(val.slice.upper, leaf)
        except alg.NotAlgebraic as e:
            rep.inconclusive(f"{P}.R2", construct, norm(st), f"offset not polynomial: {e}", where)
            continue
        if compose_obligation is not None:
            # b − (a + d) >= 0 for every line < lines, track < tracks: written over J = lines − 1 − line >= 0, K = tracks − 1 − track >= 0
            # (and lines, tracks, J, K >= 0) the difference must have no negative coefficient
            try:
                b_, a2_, d_ = (alg.to_poly(x, leaf) for x in compose_obligation)
                diff = b_ - (a2_ + d_)
                diff = diff.subst(row_idx, alg.Poly.sym("self.lines") - 1 - alg.Poly.sym("J")).subst(col_idx, alg.Poly.sym("self.tracks") - 1 - alg.Poly.sym("K"))
                proven = all(c >= 0 for c in diff.t.values())
            except Exception:
                proven = False
            if not proven:
                rep.inconclusive(f"{P}.R2", construct, norm(st)[:160], "a slice of a slice: that the inner slice stays inside the outer one is not shown", where)
                continue
        L, T = alg.Poly.sym(row_idx), alg.Poly.sym(col_idx)
        want = (L * alg.Poly.sym("self.tracks") + T) * cell_size
        text = f"cell [{row_idx}][{col_idx}] ← {norm(val)[:80]}"
        if lo == want:
            rep.ok(f"{P}.R2", construct, text, f"offset ≡ {cell_size}·(line·tracks + track)")
        elif (lo.symbols() | hi.symbols()) - {row_idx, col_idx, "self.tracks", "self.lines"}:
            # a name whose value is not known here (a size kept in an attribute, a computed stride): nothing definite
            rep.inconclusive(f"{P}.R2", construct, text,
                             f"cell offset {lo} mentions quantities that are not resolved: {sorted((lo.symbols() | hi.symbols()) - {row_idx, col_idx, 'self.tracks', 'self.lines'})}", where)
            continue
        else:
            rep.violation(f"{P}.R2", construct, text,
                          f"cell offset is {lo}, expected row-major {want}", where)
        if (hi - lo) == alg.Poly.const(cell_size):
            rep.ok(f"{P}.R2", construct, f"slice width {cell_size}")
        else:
            rep.violation(f"{P}.R2", construct, text, f"cell slice width is {hi - lo}, expected {cell_size}", where)
    s = sflat
    if not found:
        rep.inconclusive(f"{P}.R2", construct, "", "no `data[line][track].raw_data = ...` store found in the setter",
                         f"{pat.file.rel}:{s.lineno}")
    else:
        # every cell of the image is applied: the store lies on every path through one iteration of the innermost loop
        from ..cfg import CFG
        inner = None
        for n in ast.walk(s):
            if isinstance(n, ast.For) and any(isinstance(x, ast.Assign) and any(isinstance(t, ast.Attribute) and t.attr == "raw_data" for t in x.targets)
                                              for x in ast.walk(n)) and not any(isinstance(m, ast.For) and m is not n for m in ast.walk(n)):
                inner = n
        if inner is not None:
            gcf = CFG(inner, loop_body=True)
            stores = {n.id for n in gcf.nodes if n.kind == "stmt" and isinstance(n.ast, ast.Assign)
                      and any(isinstance(t, ast.Attribute) and t.attr == "raw_data" for t in n.ast.targets)}
            wo = gcf.reachable(avoid=stores, labels_excluded={"exc", "reraise", "nomatch"})
            if gcf.exit in wo or gcf.break_exit in wo or gcf.ret_exit in wo:
                skip = [norm(n.ast) for n in gcf.nodes if n.kind == "test"]
                rep.violation(f"{P}.R2", construct, f"for {norm(inner.target)} in {norm(inner.iter)}: … (skips under {skip[:2]})",
                              "some cells of the byte image are not applied to the pattern (a path through the cell loop skips the store): "
                              "cells that already hold a note keep it, so image → pattern → image is not the identity",
                              f"{pat.file.rel}:{inner.lineno}")
            else:
                rep.ok(f"{P}.R2", construct, "every cell of the image is stored", "store on every path through the cell loop")
    # --- getter: join(join(cell.raw_data for cell in line) for line in self.data)
    ret = None
    for st in stmts_of(g):
        if isinstance(st, ast.Return):
            ret = st.value
    ok = False
    detail = ""
    if ret is not None:
        ret = packed.resolve_names(ret, packed.single_defs(g))         # cells = chain.from_iterable(self.data); join(… for note in cells)
    flat_rows = ("chain.from_iterable(self.data)", "itertools.chain.from_iterable(self.data)", "chain(*self.data)", "itertools.chain(*self.data)",
                 "chain.from_iterable(self._data)", "chain(*self._data)")
    if isinstance(ret, ast.Call) and isinstance(ret.func, ast.Attribute) and ret.func.attr == "join" and len(ret.args) == 1 \
            and isinstance(ret.args[0], (ast.GeneratorExp, ast.ListComp)) and len(ret.args[0].generators) == 1 \
            and norm(ret.args[0].generators[0].iter) in flat_rows and not ret.args[0].generators[0].ifs \
            and norm(ret.args[0].elt) == f"{norm(ret.args[0].generators[0].target)}.raw_data":
        ok = True           # the rows chained in order, each cell's bytes in turn
    elif isinstance(ret, ast.Call) and isinstance(ret.func, ast.Attribute) and ret.func.attr == "join" and len(ret.args) == 1 \
            and isinstance(ret.args[0], (ast.GeneratorExp, ast.ListComp)) and len(ret.args[0].generators) == 2:
        # b"".join(cell.raw_data for line in self.data for cell in line): rows in order, cells in order
        g1, g2 = ret.args[0].generators
        cv = norm(g2.target)
        if norm(g1.iter) in ("self.data", "self._data") and norm(g2.iter) == norm(g1.target) and not g1.ifs and not g2.ifs:
            el = ret.args[0].elt
            if norm(el) == f"{cv}.raw_data":
                ok = True
            elif isinstance(el, ast.IfExp):
                verdict = _conditional_cell(repo, note, el, cv)
                if verdict is None:
                    ok = True
                elif verdict.startswith("!"):
                    rep.violation(f"{P}.R2", construct, norm(el), verdict[1:], f"{pat.file.rel}:{g.lineno}")
                    ok = True
                else:
                    detail = verdict
            else:
                detail = f"cell bytes are {norm(el)}"
        else:
            detail = "flat join does not iterate rows, then the cells of each row"
    elif isinstance(ret, ast.Call) and isinstance(ret.func, ast.Attribute) and ret.func.attr == "join" and len(ret.args) == 1 \
            and isinstance(ret.args[0], (ast.GeneratorExp, ast.ListComp)):
        outer = ret.args[0]
        if len(outer.generators) == 1 and norm(outer.generators[0].iter) == "self.data" and not outer.generators[0].ifs:
            lv = norm(outer.generators[0].target)
            inner = outer.elt
            if isinstance(inner, ast.Call) and isinstance(inner.func, ast.Attribute) and inner.func.attr == "join" \
                    and len(inner.args) == 1 and isinstance(inner.args[0], (ast.GeneratorExp, ast.ListComp)):
                ig = inner.args[0]
                if len(ig.generators) == 1 and norm(ig.generators[0].iter) == lv and not ig.generators[0].ifs:
                    cv = norm(ig.generators[0].target)
                    if norm(ig.elt) == f"{cv}.raw_data":
                        ok = True
                    elif isinstance(ig.elt, ast.IfExp):
                        verdict = _conditional_cell(repo, note, ig.elt, cv)
                        if verdict is None:
                            ok = True
                        elif verdict.startswith("!"):
                            rep.violation(f"{P}.R2", construct, norm(ig.elt), verdict[1:], f"{pat.file.rel}:{g.lineno}")
                            ok = True     # reported; do not add an inconclusive on top
                        else:
                            detail = verdict
                    else:
                        detail = f"cell bytes are {norm(ig.elt)}"
                else:
                    detail = "inner iteration is not over the line"
            else:
                detail = "inner join missing"
        else:
            detail = "outer iteration is not over self.data"
    else:
        detail = "not a join of joins"
    if ok:
        rep.ok(f"{P}.R2", construct, norm(ret), "getter joins rows then cells (row-major)")
    elif ret is not None and "reversed" in norm(ret):
        rep.violation(f"{P}.R2", construct, norm(ret), "getter does not emit cells in row-major order", f"{pat.file.rel}:{g.lineno}")
    else:
        rep.inconclusive(f"{P}.R2", construct, norm(ret) if ret is not None else "", f"getter shape not recognised: {detail}",
                         f"{pat.file.rel}:{g.lineno}")
    # --- clear(): lines rows of tracks cells
    clear = pat.methods.get("clear")
    if clear is None:
        raise AnchorMissing("Pattern.clear")
    clear = inline.normalize(repo, pat, clear)
    src = norm(clear)

    def iterations(root: ast.AST, bound: str):
        for n in ast.walk(root):
            if isinstance(n, ast.For) and norm(n.iter) == f"range({bound})":
                yield n
            if isinstance(n, ast.comprehension) and norm(n.iter) == f"range({bound})":
                yield n
    nested = False
    for outer in ast.walk(clear):
        its = []
        if isinstance(outer, ast.For) and norm(outer.iter) == "range(self.lines)":
            its = [outer]
        elif isinstance(outer, (ast.ListComp, ast.GeneratorExp)) and any(norm(g.iter) == "range(self.lines)" for g in outer.generators):
            its = [outer]
        for o in its:
            inner_root = o if isinstance(o, ast.For) else o.elt
            if any(True for _ in iterations(inner_root, "self.tracks")):
                nested = True
            # map(make_cell, range(self.tracks)) / [cell] * … built per row: any iteration over range(self.tracks) inside the row loop
            roots = o.body if isinstance(o, ast.For) else [o.elt]
            if any(isinstance(x, ast.Call) and norm(x) == "range(self.tracks)" for r_ in roots for x in ast.walk(r_)):
                nested = True
    if nested:
        rep.ok(f"{P}.R2", f"{pat.file.rel}:Pattern.clear", "rows = range(self.lines), cells = range(self.tracks)")
    elif "range(self.lines)" in src and "range(self.tracks)" in src:
        rep.violation(f"{P}.R2", f"{pat.file.rel}:Pattern.clear", src[:120],
                      "the cell array is not built as `lines` rows of `tracks` cells", f"{pat.file.rel}:{clear.lineno}")
    else:
        rep.inconclusive(f"{P}.R2", f"{pat.file.rel}:Pattern.clear", src[:120], "construction of the empty cell array not recognised", f"{pat.file.rel}:{clear.lineno}")


def _packed_fields(repo: Repo, note) -> List[str]:
    g = note.getters.get("raw_data")
    for n in walk_no_nested(g):
        if isinstance(n, ast.Call) and norm(n.func) in ("pack", "struct.pack"):
            return [attr_chain(a)[-1] for a in n.args[1:] if attr_chain(a)]
    return []


def _conditional_cell(repo: Repo, note, e: ast.IfExp, cv: str) -> Optional[str]:
    """`CONST if cell.pred() else cell.raw_data`: None = sound, '!msg' = violation, other = unrecognised."""
    test, a, b = e.test, e.body, e.orelse
    neg = False
    while isinstance(test, ast.UnaryOp) and isinstance(test.op, ast.Not):
        test, neg = test.operand, not neg
    const_branch, raw_branch = (b, a) if neg else (a, b)
    if norm(raw_branch) != f"{cv}.raw_data":
        return f"cell bytes are {norm(e)}"
    try:
        const = repo.fold(const_branch, ci=note, sf=repo.module("rv.pattern"))
    except NotConst:
        const = None
        if any(isinstance(n, ast.Name) and n.id == cv for n in ast.walk(const_branch)):
            return f"substitute {norm(const_branch)} is not constant"
    if not (isinstance(test, ast.Call) and isinstance(test.func, ast.Attribute) and norm(test.func.value) == cv and not test.args):
        return f"predicate {norm(test)} not a method of the cell"
    r = repo.lookup(note, test.func.attr)
    if r is None or r[1] != "method":
        return f"predicate {test.func.attr} not found"
    read = {attr_chain(n)[1] for n in walk_no_nested(r[2]) if isinstance(n, ast.Attribute) and attr_chain(n) and attr_chain(n)[0] == "self" and len(attr_chain(n)) == 2}
    fields = _packed_fields(repo, note)
    missing = [f for f in fields if f not in read]
    if missing:
        shown = repr(const) if const is not None else f"`{norm(const_branch)}` (one value for all such cells)"
        return (f"!cells for which `{test.func.attr}()` holds are written as the constant {shown}, but `{test.func.attr}` does not look at "
                f"{missing}: a cell whose only non-zero field is {missing[0]} is saved as an empty cell")
    if const is None:
        return f"substitute {norm(const_branch)} is not constant"
    if const != b"\0" * 8:
        return f"!substitute constant {const!r} is not the 8-byte encoding of a cell with all fields 0"
    return None


# ------------------------------------------------------------------------------------- R3
def accessor_rules(repo: Repo, rep, P: str):
    note = repo.cls("Note", module="rv.note")
    widths = note_field_widths(repo)
    groups = packed.word_accessors(repo, note)
    n_acc = 0
    for word, names in sorted(groups.items()):
        hi = widths.get(word, (0, 0xFFFF))[1]
        w = max(1, int(hi).bit_length())
        rep.func(f"rv.note.Note.{{{','.join(sorted(names))}}}")
        packed.check_accessors(repo, rep, P, note, word, w, sorted(names))
        n_acc += len(names)
    rep.count("note_accessors", n_acc, 4)
    vis = repo.cls("Visualization", module="rv.modules.module")
    groups = packed.word_accessors(repo, vis)
    spec = specdiff.load_spec(repo)
    exp = {}
    for mem in (spec.get("chunk_types", {}).get("ModuleVisualization", {}) or {}).get("members", []):
        for k, v in mem.items():
            if isinstance(v, dict) and "start" in v:
                exp[(v["start"], v["length"])] = k
    n_vis = 0
    for word, names in sorted(groups.items()):
        rep.func(f"rv.modules.module.Visualization.{{{','.join(sorted(names))}}}")
        packed.check_accessors(repo, rep, P, vis, word, 32, sorted(names), expected_fields=exp or None)
        n_vis += len(names)
    rep.count("visualization_accessors", n_vis, 6)
    # the word round-trips as 32 bits: SVPR `<I`
    rep.count("spec_visualization_members", len(exp), 6)


def sync_width(repo: Repo) -> int:
    proj = repo.cls("Project", module="rv.project")
    sc = proj.nested.get("SyncCommand")
    if sc is None:
        raise AnchorMissing("Project.SyncCommand")
    m = 0
    for v in repo.enum_members(sc).values():
        m |= int(v)
    return max(1, m.bit_length())


def midi_in_widths(repo: Repo) -> Dict[str, int]:
    spec = specdiff.load_spec(repo)
    mem = (spec.get("chunk_types", {}).get("MidiIn", {}) or {}).get("members", [])
    lens = []
    for m in mem:
        for k, v in m.items():
            if isinstance(v, dict) and "start" in v:
                lens.append((v["start"], v["length"], k))
    lens.sort()
    if len(lens) != 2:
        raise AnchorMissing("chunk_types.MidiIn members")
    return {"midi_in_always": lens[0][1], "midi_in_channel": lens[1][1]}


def pack_pairs(repo: Repo, rep, P: str, rule: str, which=("SMII", "SFGS")):
    mod = repo.cls("Module", module="rv.modules.module")
    mreader = repo.cls("ModuleReader", module="rv.readers.module")
    if "SMII" in which:
        rep.func("rv.modules.module.Module.iff_chunks[SMII] / rv.readers.module.ModuleReader.process_SMII")
        packed.check_pack_pair(repo, rep, P, rule, mod, "iff_chunks", b"SMII", mreader, midi_in_widths(repo))
    if "SFGS" not in which:
        return
    proj = repo.cls("Project", module="rv.project")
    sreader = repo.cls("SunVoxReader", module="rv.readers.sunvox")
    w = sync_width(repo)
    rep.func("rv.project.Project.chunks[SFGS] / rv.readers.sunvox.SunVoxReader.process_SFGS")
    packed.check_pack_pair(repo, rep, P, rule, proj, "chunks", b"SFGS", sreader,
                           {"receive_sync_midi": w, "receive_sync_other": w})
    rep.count("pack_pairs", 2, 2)
