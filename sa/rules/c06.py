"""C06 — edits made to a loaded object are what gets saved (no replay of the original file)."""

from __future__ import annotations

import ast
from typing import Dict, List, Optional, Set, Tuple

from ..model import AnchorMissing, ClassInfo, NotConst, Repo, attr_chain, norm, walk_no_nested
from . import c16

LEVEL = "other"
EXPLANATION = (
    "taint-style census: every attribute that a writer function reads is classified by where it is assigned; "
    "an attribute that only load-time code fills with raw file bytes (or that no constructor/setter defines at "
    "all) and that a writer emits is a replay path. The one known replay path (Sampler.legacy_chunks under "
    "is_legacy) is proved unreachable for current-format input: the reader's legacy predicate is folded and "
    "evaluated on the length of the record this library writes and on the length of the reader's own full "
    "layout, and the signature constant is the same on both sides. Given no reachable replay path, visibility "
    "of each edit follows from the field agreement of C01/C02."
)
DECLINED = [
    "per-attribute visibility of every edit for all values (follows from C01/C02 field agreement once no replay path is reachable)",
    "input that lacks the PMAS signature or is longer than the layout this reader knows (pre-1.9.3 / future formats): "
    "the replay path is taken by design and C06 does not hold for such files",
]
ASSUMPTIONS = ["writer functions are those named *chunks*, chdt/chff/chfr, bytes/raw_data/cmid_data getters; "
               "load-time functions are load_*/process_*/finalize_load/_upgrade_*"]

WRITER_NAMES = ("iff_chunks", "specialized_iff_chunks", "chunks", "options_chunks", "chdt", "chff", "chfr")
FROZEN = {
    ("Sampler", "legacy_chunks"): "guarded shadow: replayed only under is_legacy (decided by R2)",
    ("Sampler", "is_legacy"): "replay guard (decided by R2)",
    ("Sample", "data"): "payload: PCM bytes have no parsed representation; the attribute itself is the public state",
    ("Chunk", "chdt"): "raw chunk record built by the reader; it reaches a writer only through Sampler.legacy_chunks (R2)",
}


def is_writer(name: str) -> bool:
    return name in WRITER_NAMES or name.endswith("_chunks")


def is_loader(name: str) -> bool:
    return name.startswith(("load_", "_load_", "process_", "_upgrade")) or name in ("finalize_load",)


def run(repo: Repo, rep, tier: str):
    rep.count("files_in_scope", repo.consult_all())
    shadow_census(repo, rep, "C06")
    sampler_replay_guard(repo, rep, "C06")
    # an edited payload must not be mistaken for "still the default" (omitted chunk = stale default after reload)
    from . import c02
    c02.drawn_waveforms(repo, rep, "C06")
    cached_alias_rule(repo, rep, "C06")
    # a pattern's saved bytes are built from the current fields of every cell (shared with C12)
    from . import c12
    c12.pattern_raw_data(repo, rep, "C06")


def _raw_valued(e: ast.AST, params: Set[str], raw_locals: Set[str]) -> bool:
    if isinstance(e, ast.Name):
        return e.id in params or e.id in raw_locals
    if isinstance(e, ast.Attribute):
        ch = attr_chain(e)
        return bool(ch) and (ch[0] in params or ch[0] in raw_locals) and ch[-1] in ("chdt", "data") and len(ch) == 2
    if isinstance(e, ast.Subscript) and isinstance(e.slice, ast.Slice):
        return _raw_valued(e.value, params, raw_locals)
    if isinstance(e, ast.Call) and isinstance(e.func, ast.Attribute) and e.func.attr in ("bytes",) and norm(e.func.value) == "r":
        return True
    if isinstance(e, ast.Call) and norm(e.func) in ("bytes", "bytearray", "memoryview", "list", "tuple") and len(e.args) == 1:
        return _raw_valued(e.args[0], params, raw_locals)
    return False


def _is_const(repo, ci, e: ast.AST) -> bool:
    try:
        repo.fold(e, ci=ci)
        return True
    except NotConst:
        return isinstance(e, (ast.List, ast.Dict, ast.Set)) and not getattr(e, "elts", getattr(e, "keys", []))


def shadow_census(repo: Repo, rep, P: str):
    # per attribute NAME (not class-precise: receivers are resolved by name): where is it assigned?
    init_nonconst: Set[str] = set()     # assigned a non-constant value in a constructor / ordinary method / class body
    init_const: Set[str] = set()
    init_dynamic: Set[str] = set()      # names a non-load `setattr(obj, <computed name>, …)` may define (over-approximation)
    load_raw: Dict[str, List[Tuple[str, ast.AST]]] = {}
    load_any: Dict[str, List[Tuple[str, ast.AST]]] = {}
    reads_in_writers: Dict[str, List[Tuple[str, ast.AST, str]]] = {}
    n_writer_fns = n_loader_fns = 0
    for c in sorted(repo.all_classes(), key=lambda c: c.fq):
        if not c.file.modname.startswith("rv") or c.file.modname.startswith(("rv.tools", "rv._vendor")):
            continue
        for name, val in c.assigns.items():
            if isinstance(val, ast.AST) and _is_const(repo, c, val):
                init_const.add(name)        # a class-level constant default is not a live definition
            else:
                init_nonconst.add(name)
        for name in list(c.getters) + list(c.setters):
            init_nonconst.add(name)
        fns = list(c.methods.items()) + [(f"{k}", v) for k, v in c.getters.items()] + [(f"{k}.setter", v) for k, v in c.setters.items()]
        for fname, fn in fns:
            fq = f"{c.file.rel}:{c.qualname}.{fname}"
            from .. import inline
            if fname == "__init__" or any(isinstance(x, ast.Call) and isinstance(x.func, ast.Name) and x.func.id in ("setattr", "getattr") for x in ast.walk(fn)):
                # table-driven attribute loops (also in private helpers of the constructor) read as the assignments they perform
                fn = inline.normalize(repo, c, fn)
            params = {a.arg for a in fn.args.args if a.arg != "self"} | {a.arg for a in fn.args.kwonlyargs}
            role = fname.split(".")[0]
            if role.startswith("_") and not role.startswith("__") and role in c.methods:
                # a private helper plays the part of the one method that uses it (load-time / save-time code moved into a helper)
                try:
                    _, aq_ = inline.attributed_to(repo, c.file.rel, f"{c.qualname}.{role}")
                    role = aq_.split(".")[-1]
                except Exception:
                    pass
            loader = is_loader(role)
            writer = is_writer(role) or (fname in ("bytes", "raw_data", "cmid_data", "encoded_values") and fname in c.getters and fn is c.getters[fname])
            if loader:
                n_loader_fns += 1
            if writer:
                n_writer_fns += 1
            raw_locals: Set[str] = set()
            for n in walk_no_nested(fn):
                if isinstance(n, ast.Assign) and len(n.targets) == 1 and isinstance(n.targets[0], ast.Name) and loader \
                        and _raw_valued(n.value, params, raw_locals):
                    raw_locals.add(n.targets[0].id)
            for n in walk_no_nested(fn):
                stores: List[Tuple[str, ast.AST]] = []
                if isinstance(n, ast.Assign):
                    for t in n.targets:
                        for tt in (t.elts if isinstance(t, (ast.Tuple, ast.List)) else [t]):
                            if isinstance(tt, ast.Attribute):
                                stores.append((tt.attr, n.value))
                elif isinstance(n, ast.AugAssign) and isinstance(n.target, ast.Attribute):
                    stores.append((n.target.attr, n.value))
                elif isinstance(n, ast.Call) and isinstance(n.func, ast.Attribute) and n.func.attr in ("append", "extend", "insert", "update", "add") \
                        and isinstance(n.func.value, ast.Attribute) and n.args:
                    stores.append((n.func.value.attr, n.args[-1]))
                elif isinstance(n, ast.Call) and norm(n.func) == "setattr" and len(n.args) == 3 and isinstance(n.args[1], ast.Constant):
                    stores.append((str(n.args[1].value), n.args[2]))
                elif isinstance(n, ast.Call) and norm(n.func) == "setattr" and len(n.args) == 3 and not loader:
                    # setattr(self, <computed name>, value) outside load-time code: the names it may define are over-approximated by the
                    # identifier-like string constants of this function (in normal form) and of the module-level tables it mentions
                    pool = [x for x in ast.walk(fn)]
                    # private helpers the function calls (one level) supply names as well
                    for hc in [x for x in ast.walk(fn) if isinstance(x, ast.Call) and isinstance(x.func, ast.Attribute) and norm(x.func.value) in ("self", "cls")]:
                        r_ = repo.lookup(c, hc.func.attr)
                        if r_ is not None and r_[1] == "method":
                            pool += list(ast.walk(r_[2]))
                    for nm_ in {x.id for x in pool if isinstance(x, ast.Name)}:
                        try:
                            d_ = inline.definition_of(repo, c, c.file, ast.Name(id=nm_, ctx=ast.Load()))
                        except Exception:
                            d_ = None
                        if isinstance(d_, (ast.Tuple, ast.List, ast.Dict, ast.Set)):
                            pool += list(ast.walk(d_))
                    for x in pool:
                        if isinstance(x, ast.Constant) and isinstance(x.value, str) and x.value.isidentifier():
                            init_dynamic.add(x.value)
                for attr, val in stores:
                    if loader:
                        load_any.setdefault(attr, []).append((fq, n))
                        if _raw_valued(val, params, raw_locals):
                            load_raw.setdefault(attr, []).append((fq, n))
                    else:
                        if _is_const(repo, c, val):
                            init_const.add(attr)
                        else:
                            init_nonconst.add(attr)
                if writer:
                    for sub in ([n] if isinstance(n, ast.Attribute) else []):
                        if isinstance(sub.ctx, ast.Load):
                            reads_in_writers.setdefault(sub.attr, []).append((fq, sub, c.name))
                    if isinstance(n, ast.Call) and norm(n.func) == "getattr" and len(n.args) >= 2 and isinstance(n.args[1], ast.Constant):
                        reads_in_writers.setdefault(str(n.args[1].value), []).append((fq, n, c.name))
    rep.count("writer_functions", n_writer_fns, 40)
    rep.count("loader_functions", n_loader_fns, 90)
    rep.count("attributes_read_by_writers", len(reads_in_writers), 60)
    n_candidates = 0
    for attr, sites in sorted(reads_in_writers.items()):
        raw = load_raw.get(attr, [])
        anyload = load_any.get(attr, [])
        defined_live = attr in init_nonconst or attr in init_dynamic
        cand = None
        if raw and not defined_live:
            cand = f"filled with raw file bytes at load time ({raw[0][0]}) and never assigned from API input"
        elif anyload and not defined_live and attr not in init_const:
            cand = f"defined only by load-time code ({anyload[0][0]})"
        elif anyload and not defined_live and attr.startswith("_") and attr in init_const and raw:
            cand = "private attribute filled at load time"
        if cand is None:
            continue
        n_candidates += 1
        for fq, node, cname in sites[:1]:
            key = next((k for k in FROZEN if k[1] == attr), None)
            if key is not None:
                rep.ok(f"{P}.R1", fq, f"reads .{attr}", f"frozen: {FROZEN[key]}")
            else:
                rep.violation(f"{P}.R1", fq, f"reads .{attr}",
                              f"a writer emits `.{attr}`, which is {cand}: the saved file replays what was loaded instead of "
                              "the object's current state", f"{fq.split(':')[0]}:{node.lineno}")
    rep.count("load_filled_attributes_read_by_writers", n_candidates, 2)
    rep.sample({"raw_stores_at_load": {k: [s[0] for s in v][:2] for k, v in sorted(load_raw.items())}})
    # is_legacy itself must only be set by load_instrument (+ constructor None)
    samp = repo.cls("Sampler", module="rv.modules.sampler")
    setters = set()
    from .. import inline as _inl
    for fname, fn in samp.methods.items():
        owner_name = fname
        if fname.startswith("_") and not fname.startswith("__"):
            # a private helper is accounted to the one method that uses it (the rules read it through there)
            try:
                _, aq = _inl.attributed_to(repo, samp.file.rel, f"{samp.qualname}.{fname}")
                owner_name = aq.split(".")[-1]
            except Exception:
                owner_name = fname
        for n in walk_no_nested(fn):
            if isinstance(n, ast.Assign) and any(norm(t) == "self.is_legacy" for t in n.targets):
                setters.add(owner_name)
            if isinstance(n, ast.AnnAssign) and norm(n.target) == "self.is_legacy":
                setters.add(owner_name)
    if setters <= {"__init__", "load_instrument"}:
        rep.ok(f"{P}.R1", f"{samp.file.rel}:Sampler", f"is_legacy assigned in {sorted(setters)}")
    else:
        rep.inconclusive(f"{P}.R1", f"{samp.file.rel}:Sampler", f"is_legacy assigned in {sorted(setters)}",
                         "the replay guard has a new writer that R2 does not analyse", f"{samp.file.rel}:{samp.node.lineno}")


# ---------------------------------------------------------------------------------- R2
ALIAS_FIXTURE = """
class View:
    def __init__(self, module, index):
        self._table = module.curve.values
        self.index = index

    def put(self, v):
        self._table[self.index] = v
"""


def _cached_alias_stores(cls_node: ast.ClassDef) -> List[Tuple[str, str, ast.AST, ast.AST]]:
    """(attr, last name of the cached chain, the constructor assignment, the write-through statement)."""
    init = next((n for n in cls_node.body if isinstance(n, ast.FunctionDef) and n.name == "__init__"), None)
    if init is None:
        return []
    params = {a.arg for a in init.args.args if a.arg != "self"}
    cached: Dict[str, Tuple[str, ast.AST]] = {}
    for n in walk_no_nested(init):
        if isinstance(n, ast.Assign) and len(n.targets) == 1:
            t = attr_chain(n.targets[0])
            v = attr_chain(n.value)
            if t and t[0] == "self" and len(t) == 2 and v and v[0] in params and len(v) >= 3:
                cached[t[1]] = (v[-1], n)
    out = []
    if not cached:
        return out
    for fn in ast.walk(cls_node):
        if not isinstance(fn, ast.FunctionDef) or fn.name == "__init__":
            continue
        for n in walk_no_nested(fn):
            tg = []
            if isinstance(n, ast.Assign):
                tg = n.targets
            elif isinstance(n, ast.AugAssign):
                tg = [n.target]
            for t in tg:
                if isinstance(t, ast.Subscript):
                    ch = attr_chain(t.value)
                    if ch and ch[0] == "self" and len(ch) == 2 and ch[1] in cached:
                        out.append((ch[1], cached[ch[1]][0], cached[ch[1]][1], n))
            if isinstance(n, ast.Call) and isinstance(n.func, ast.Attribute) and n.func.attr in (
                    "append", "extend", "insert", "pop", "remove", "clear", "sort", "reverse", "update", "setdefault"):
                ch = attr_chain(n.func.value)
                if ch and ch[0] == "self" and len(ch) == 2 and ch[1] in cached:
                    out.append((ch[1], cached[ch[1]][0], cached[ch[1]][1], n))
    return out


def cached_alias_rule(repo: Repo, rep, P: str):
    """A helper object that caches `owner.payload.values` at construction and later writes through the cached
    reference edits an orphan once the payload's `values` attribute has been rebound — which loading does.
    Writes must go through the owner (`self.module.payload.values[i] = v`)."""
    fx = ast.parse(ALIAS_FIXTURE).body[0]
    rep.count("cached_alias_fixture_hits", len(_cached_alias_stores(fx)), 1)
    # attribute names that some non-constructor code rebinds
    rebound: Dict[str, str] = {}
    for rel, sf in sorted(repo.files.items()):
        if not sf.modname.startswith("rv") or sf.modname.startswith(("rv.tools", "rv._vendor")):
            continue
        for fn in ast.walk(sf.tree):
            if isinstance(fn, ast.FunctionDef) and fn.name != "__init__":
                for n in walk_no_nested(fn):
                    if isinstance(n, ast.Assign):
                        for t in n.targets:
                            if isinstance(t, ast.Attribute):
                                rebound.setdefault(t.attr, f"{rel}:{fn.name}:{n.lineno}")
    n_cls = n_hits = 0
    for c in repo.all_classes():
        if not c.file.modname.startswith("rv") or c.file.modname.startswith(("rv.tools", "rv._vendor")):
            continue
        n_cls += 1
        for attr, last, ctor, st in _cached_alias_stores(c.node):
            n_hits += 1
            con = f"{c.file.rel}:{c.qualname}.{attr}"
            if last in rebound:
                rep.violation(f"{P}.R4", con, f"{norm(ctor)}  …  {norm(st)}",
                              f"the edit is written through a reference to `.{last}` cached at construction; `.{last}` is rebound by "
                              f"{rebound[last]} (loading replaces it), so on a loaded object the edit lands in an orphaned list and the "
                              "original file content is saved instead", f"{c.file.rel}:{st.lineno}")
            else:
                rep.ok(f"{P}.R4", con, f"{norm(ctor)} … {norm(st)}", f"`.{last}` is never rebound after construction")
    rep.count("classes_scanned_for_cached_aliases", n_cls, 100)
    rep.count("cached_alias_write_sites", n_hits)
    rep.ok(f"{P}.R4", "rv/**", f"{n_cls} classes", "no write through a construction-time alias of a rebindable payload list")


def sampler_replay_guard(repo: Repo, rep, P: str):
    samp, wfn, rfn, ws, rs = c16.instrument_layouts(repo)
    rel = samp.file.rel
    rep.func("rv.modules.sampler.Sampler.load_instrument (legacy predicate)")
    wf = repo.own_method(samp, "specialized_iff_chunks")
    # the replay branch is guarded by self.is_legacy
    replay_if = None
    for st in wf.body:
        if isinstance(st, ast.If) and any("legacy_chunks" in norm(s) for s in st.body):
            replay_if = st
    wcon = f"{rel}:Sampler.specialized_iff_chunks"
    if replay_if is None:
        rep.ok(f"{P}.R2", wcon, "no replay branch", "legacy chunks are no longer replayed")
        return
    if norm(replay_if.test) != "self.is_legacy":
        rep.violation(f"{P}.R2", wcon, f"if {norm(replay_if.test)}: replay legacy_chunks",
                      "raw chunks captured at load are replayed under a condition other than the legacy flag", f"{rel}:{replay_if.lineno}")
        return
    rep.ok(f"{P}.R2", wcon, "if self.is_legacy: replay", "replay is guarded by the legacy flag")
    # conditions that set is_legacy = True in load_instrument
    rcon = f"{rel}:Sampler.load_instrument"
    setters = []
    for n in ast.walk(rfn):
        if isinstance(n, ast.If) and any(isinstance(s, ast.Assign) and norm(s) == "self.is_legacy = True" for s in n.body):
            setters.append(n)
    unconditional = [s for s in rfn.body if isinstance(s, ast.Assign) and norm(s) == "self.is_legacy = True"]
    if unconditional:
        rep.violation(f"{P}.R2", rcon, "self.is_legacy = True", "every loaded instrument is marked legacy: all samplers are replayed",
                      f"{rel}:{unconditional[0].lineno}")
    tw = sum(s.width for s in ws) if all(s.width is not None for s in ws) else None
    tr = sum(s.width for s in rs) if all(s.width is not None for s in rs) else None
    rep.instances["record_lengths"] = {"this_library_writes": tw, "reader_full_layout": tr}
    dparam = None
    for n in walk_no_nested(rfn):
        if isinstance(n, ast.Assign) and norm(n.value) == "chunk.chdt" and isinstance(n.targets[0], ast.Name):
            dparam = n.targets[0].id
    n_pred = 0
    for st in setters:
        t = st.test
        conj = t.values if isinstance(t, ast.BoolOp) and isinstance(t.op, ast.And) else [t]
        from ..packed import single_defs as _sd, resolve_names as _rn
        _defs = {k_: v_ for k_, v_ in _sd(rfn).items() if k_ != dparam}
        for c in conj:
            c = _rn(c, _defs)               # `n = len(data)` handed to a helper that was read through: the test is on len(data)
            txt = norm(c)
            if txt == "not self.is_legacy":
                continue
            n_pred += 1
            # signature predicate
            if isinstance(c, ast.Compare) and "INS_SIGN" in txt:
                sig_slot = next((s for s in ws if s.comment and s.comment[1] == "sign"), None)
                if sig_slot is None:
                    sig_slot = next((s for s in ws if s.expr == "self.INS_SIGN"), None)       # the slot that carries the constant, however it is labelled
                same = sig_slot is not None and sig_slot.expr == "self.INS_SIGN" and isinstance(c.ops[0], ast.NotEq)
                if sig_slot is None:
                    rep.inconclusive(f"{P}.R2", rcon, txt, "the writer's `sign` field was not located in the instrument record", f"{rel}:{st.lineno}")
                elif same:
                    rep.ok(f"{P}.R2", rcon, txt, "the writer emits the same signature constant the reader compares with: own output is not legacy")
                else:
                    rep.violation(f"{P}.R2", rcon, txt,
                                  "the signature test does not accept what this library's writer puts into the `sign` field: "
                                  "every file written here is replayed after reloading", f"{rel}:{st.lineno}")
                continue
            # length predicate
            if isinstance(c, ast.Compare) and len(c.ops) == 1 and isinstance(c.left, ast.Call) and norm(c.left.func) == "len" \
                    and (dparam is not None and norm(c.left.args[0]) == dparam or norm(c.left.args[0]) == "chunk.chdt"):
                try:
                    k = repo.fold(c.comparators[0], ci=samp)
                except NotConst:
                    rep.inconclusive(f"{P}.R2", rcon, txt, "length bound not constant", f"{rel}:{st.lineno}")
                    continue
                op = type(c.ops[0])
                import operator
                fn = {ast.GtE: operator.ge, ast.Gt: operator.gt, ast.Lt: operator.lt, ast.LtE: operator.le,
                      ast.Eq: operator.eq, ast.NotEq: operator.ne}.get(op)
                if fn is None or tw is None or tr is None:
                    rep.inconclusive(f"{P}.R2", rcon, txt, f"cannot evaluate the predicate (writer length {tw}, layout {tr})", f"{rel}:{st.lineno}")
                    continue
                if fn(tw, k):
                    rep.violation(f"{P}.R2", rcon, txt,
                                  f"this library's own instrument record is {tw} bytes and satisfies `{txt}`: every sampler it "
                                  "saves is classified legacy when reloaded and its later edits are discarded", f"{rel}:{st.lineno}")
                else:
                    rep.ok(f"{P}.R2", rcon, f"{txt}  with len = {tw} (own writer)", "own output is not classified legacy")
                if fn(tr, k):
                    rep.violation(f"{P}.R2", rcon, txt,
                                  f"a record exactly as long as the reader's complete layout ({tr} = {tr:#x} bytes, the current "
                                  f"format) satisfies `{txt}` and is classified legacy: its raw chunks are replayed on save and "
                                  "edits made after loading are lost", f"{rel}:{st.lineno}")
                else:
                    rep.ok(f"{P}.R2", rcon, f"{txt}  with len = {tr} (full current layout)", "current-format records are not classified legacy")
                continue
            reads_fields = any(isinstance(x, ast.Attribute) and attr_chain(x) and attr_chain(x)[0] == "self" and not x.attr.isupper()
                               and x.attr not in ("is_legacy",) for x in ast.walk(c))
            if reads_fields:
                rep.violation(f"{P}.R2", rcon, txt,
                              f"the instrument is classified legacy when `{txt}`, a condition on field values that a record of the current "
                              "layout with the PMAS signature can satisfy: such a sampler is saved by replaying its raw chunks and edits "
                              "made after loading are lost", f"{rel}:{st.lineno}")
            else:
                rep.inconclusive(f"{P}.R2", rcon, txt, "legacy predicate of an unrecognised form", f"{rel}:{st.lineno}")
    rep.count("legacy_predicates", n_pred, 2)
    # not-legacy ⇒ captured chunks are dropped
    src = norm(rfn)
    if "self.is_legacy = False" in src and "self.legacy_chunks = None" in src:
        rep.ok(f"{P}.R2", rcon, "self.is_legacy = False; self.legacy_chunks = None", "captured chunks are discarded for current-format records")
    else:
        rep.violation(f"{P}.R2", rcon, "is_legacy = False / legacy_chunks = None",
                      "captured raw chunks are kept for a current-format record", f"{rel}:{rfn.lineno}")
    # capture happens only while the format is undecided
    lc = repo.own_method(samp, "load_chunk")
    first = lc.body[0] if lc.body else None
    if isinstance(first, ast.If) and norm(first.test) == "self.is_legacy is not False" and "self.legacy_chunks.append(chunk)" in norm(first):
        rep.ok(f"{P}.R2", f"{rel}:Sampler.load_chunk", "if self.is_legacy is not False: self.legacy_chunks.append(chunk)",
               "chunks are captured only until the record is classified")
    else:
        rep.info(f"{P}.R2", f"{rel}:Sampler.load_chunk", norm(first)[:100] if first else "", "capture statement changed")
