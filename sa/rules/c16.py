"""C16 — sampler instruments keep samples, envelopes and maps bit-exact (record-layout clauses)."""

from __future__ import annotations

import ast
import re
import struct
from typing import Any, Dict, List, Optional, Tuple

from .. import alg, bits, docs, layout, packed
from ..bits import BV, BitEval, Unsupported
from ..cfg import CFG
from ..layout import LenEval, Slot, Unknown
from ..model import AnchorMissing, ClassInfo, NotConst, Repo, attr_chain, norm, stmts_of, walk_no_nested

LEVEL = "other"
EXPLANATION = (
    "record-layout extraction for the Sampler codec: the writer's slot sequence (global_config_chunks, "
    "sample_chunks, Envelope.chunks), the reader's slot sequence (load_instrument, load_sample_meta, load_chdt) "
    "and the interleaved C-struct comments are compared slot by slot (kind, width, signedness, field), raw "
    "writes are sized by a list/bytes length-interval evaluator (note map, legacy envelope points), the sample "
    "flag byte and envelope bitmask are checked in the bit domain, panning/envelope-y offsets and the sample "
    "CHNM numbering as affine inverse pairs, enum-keyed lookup tables as inverse maps, envelope chunk numbers "
    "dispatch to the attributes they were written from. PCM bytes are passed through untouched (not decoded)."
)
DECLINED = ["byte equality of PCM sample data for arbitrary payloads (the payload is passed through; shown by field pairing, not by value)",
            "legacy (pre-envelope) instruments: conversion of envelope values is not decided"]
ASSUMPTIONS = ["dict preserves insertion order (keys()/values() iterate in the same order)"]

SAMPLER = "rv.modules.sampler"


def run(repo: Repo, rep, tier: str):
    tables = docs.load_tables(repo)
    instrument_record(repo, rep, "C16", tables)
    sample_record(repo, rep, "C16", tables)
    envelope_chunk(repo, rep, "C16", tables)
    note_map(repo, rep, "C16")
    chunk_dispatch(repo, rep, "C16")
    helper_siblings(repo, rep, "C16")
    slot_index_rule(repo, rep, "C16")
    legacy_upgrade_rule(repo, rep, "C16")
    sampler_chunk_numbers(repo, rep, "C16")
    from . import c05
    c05.writer_purity(repo, rep, "C16", "R6", "modules/sampler.py", 20)


def _nm(repo: Repo, ci: ClassInfo, name: str) -> ast.FunctionDef:
    """The method as rules read it: private helpers inlined, loops over visible elements unrolled."""
    from .. import inline
    return inline.normalize(repo, ci, repo.own_method(ci, name))


def _definition(repo: Repo, ci: ClassInfo, e: ast.expr, depth: int = 0):
    """The expression a class-level / module-level name is bound to; a dict comprehension over the items of another such table
    (`{bits: fmt for fmt, bits in _BITS.items()}`) is written out as the dict display it denotes."""
    from .. import inline
    import copy as _copy
    try:
        d = inline.definition_of(repo, ci, ci.file, e)
        if d is None and isinstance(e, ast.Name) and e.id in ci.assigns:
            d = ci.assigns[e.id]              # a bare name inside the class body
    except Exception:
        return None
    if isinstance(d, ast.DictComp) and len(d.generators) == 1 and not d.generators[0].ifs and depth < 3:
        g = d.generators[0]
        it = g.iter
        if isinstance(it, ast.Call) and isinstance(it.func, ast.Attribute) and it.func.attr == "items" and not it.args \
                and isinstance(g.target, ast.Tuple) and len(g.target.elts) == 2 and all(isinstance(x, ast.Name) for x in g.target.elts):
            src = it.func.value if isinstance(it.func.value, ast.Dict) else _definition(repo, ci, it.func.value, depth + 1)
            if isinstance(src, ast.Dict) and all(k is not None for k in src.keys):
                kn, vn = g.target.elts[0].id, g.target.elts[1].id
                keys, vals = [], []
                for k, v in zip(src.keys, src.values):
                    env = {kn: k, vn: v}
                    keys.append(inline._Rename(env).visit(_copy.deepcopy(d.key)))
                    vals.append(inline._Rename(env).visit(_copy.deepcopy(d.value)))
                return ast.copy_location(ast.Dict(keys=keys, values=vals), d)
    return d


def _sampler(repo: Repo):
    s = repo.cls("Sampler", module=SAMPLER)
    w = repo.cls("_StructWriter", module=SAMPLER)
    r = repo.cls("_StructReader", module=SAMPLER)
    return s, w, r


def instance_classes(repo: Repo, ci: ClassInfo) -> Dict[str, ClassInfo]:
    """self.X -> class, from `self.X = self.Cls(...)` / `Cls(...)` in __init__."""
    out: Dict[str, ClassInfo] = {}
    init = ci.methods.get("__init__")
    if init is None:
        return out
    for n in walk_no_nested(init):
        if isinstance(n, ast.Assign) and isinstance(n.value, ast.Call):
            ch = attr_chain(n.targets[0])
            if ch and ch[0] == "self" and len(ch) == 2:
                c = repo.class_of_expr(n.value.func, ci, ci.file)
                if c is not None:
                    out[f"self.{ch[1]}"] = c
    return out


def local_aliases(fn: ast.FunctionDef) -> Dict[str, str]:
    out = {}
    for n in walk_no_nested(fn):
        if isinstance(n, ast.Assign) and len(n.targets) == 1 and isinstance(n.targets[0], ast.Name) \
                and attr_chain(n.value) and attr_chain(n.value)[0] == "self":
            out[n.targets[0].id] = norm(n.value)
    return out


def _len_eval(repo: Repo, samp: ClassInfo, fn: ast.FunctionDef) -> LenEval:
    inst = instance_classes(repo, samp)
    recv = dict(inst)
    for var, tgt in local_aliases(fn).items():
        if tgt in inst:
            recv[var] = inst[tgt]
    return LenEval(repo, samp, recv)


def _offsets(slots: List[Slot]) -> List[Optional[int]]:
    out, off = [], 0
    for s in slots:
        out.append(off)
        if s.width is None or off is None:
            off = None
        else:
            off += s.width
    return out


def _total(slots: List[Slot]) -> Optional[int]:
    if any(s.width is None for s in slots):
        return None
    return sum(s.width for s in slots)


def _field(expr: str) -> str:
    """Normalised field name of a writer source / reader target expression."""
    e = expr
    e = re.sub(r"\.value$", "", e)
    m = re.match(r"^self\.\w+\((.*)\)$", e)            # self.VibratoType(r.uint8())
    e = e.split("=")[0].strip()
    e = e.replace("._legacy_", ".")
    return e


# -------------------------------------------------------------------------------- R1
def instrument_layouts(repo: Repo):
    samp, W, R = _sampler(repo)
    wfn = _nm(repo, samp, "global_config_chunks")
    rfn = _nm(repo, samp, "load_instrument")
    le = _len_eval(repo, samp, wfn)
    ws = layout.writer_slots(repo, samp, wfn, W, lambda e: le.of(e))
    rs = layout.reader_slots(repo, samp, rfn, R)
    # a raw field whose length came out as a proper interval: look for two concrete sizes (a witness that it really varies)
    for s_ in ws:
        if s_.kind == "raw" and s_.width is None and s_.width_iv is not None and s_.width_iv[0] != s_.width_iv[1] and isinstance(s_.node, ast.Call) and s_.node.args:
            try:
                s_.witness = layout.length_witness(le, s_.node.args[0])
            except Exception:
                s_.witness = None
    return samp, wfn, rfn, ws, rs


def instrument_record(repo: Repo, rep, P: str, tables):
    samp, wfn, rfn, ws, rs = instrument_layouts(repo)
    rel = samp.file.rel
    wcon, rcon = f"{rel}:Sampler.global_config_chunks", f"{rel}:Sampler.load_instrument"
    rep.func("rv.modules.sampler.Sampler.global_config_chunks")
    rep.func("rv.modules.sampler.Sampler.load_instrument")
    rep.count("instrument_writer_slots", len(ws), 35)
    rep.count("instrument_reader_slots", len(rs), 35)
    if len(ws) != len(rs) and any(s_.kind == "unknown" for s_ in ws + rs):
        unk = [s_.expr for s_ in ws + rs if s_.kind == "unknown"]
        rep.inconclusive(f"{P}.R1", wcon, f"{len(ws)} writer slots / {len(rs)} reader slots; not read: {unk[:3]}",
                         "a call on the struct helper is not a field access this rule reads: the field count is not decided", f"{rel}:{wfn.lineno}")
        return          # slot-by-slot comparison would be misaligned
    elif len(ws) != len(rs):
        rep.violation(f"{P}.R1", wcon, f"{len(ws)} writer slots / {len(rs)} reader slots",
                      "writer and reader of the instrument record have a different number of fields", f"{rel}:{wfn.lineno}")
    woff, roff = _offsets(ws), _offsets(rs)
    for i, (w, r) in enumerate(zip(ws, rs)):
        name = (w.comment or r.comment or ("?", f"slot{i}", 0, None))[1]
        text = f"slot {i} `{name}`: writer {w.method}({w.expr}) / reader {r.expr} = {r.method}()"
        where = f"{rel}:{w.node.lineno}"
        ok = True
        if w.width is None:
            iv = w.width_iv
            wit = getattr(w, "witness", None)
            if wit is not None:
                rep.violation(f"{P}.R1", wcon, text,
                              f"field `{name}` has no fixed width: with {wit[1]} element(s) in {wit[0]} it is {wit[2]} byte(s), with {wit[3]} it is "
                              f"{wit[4]} — every later field of the fixed-layout record moves", where)
            else:
                rep.inconclusive(f"{P}.R1", wcon, text, f"writer width of slot {i} not a single value ({iv})", where)
            continue
        if r.width is None:
            rep.inconclusive(f"{P}.R1", rcon, text, f"reader width of slot {i} unknown", f"{rel}:{r.node.lineno}")
            continue
        if w.width != r.width:
            ok = False
            rep.violation(f"{P}.R1", wcon, text,
                          f"field `{name}` is written as {w.width} byte(s) but read as {r.width}: every later field of the "
                          f"record is read from a shifted offset (writer offset of next field {woff[i] + w.width if woff[i] is not None else '?'}, "
                          f"reader {roff[i] + r.width if roff[i] is not None else '?'})", where)
        if w.kind == "int" and r.kind == "int" and w.signed != r.signed:
            ok = False
            rep.violation(f"{P}.R1", rcon, text, f"field `{name}` is written {'signed' if w.signed else 'unsigned'} but read "
                          f"{'signed' if r.signed else 'unsigned'}", f"{rel}:{r.node.lineno}")
        for side, s, con in (("writer", w, wcon), ("reader", r, rcon)):
            if s.comment is not None:
                if s.comment[2] != s.width:
                    ok = False
                    rep.violation(f"{P}.R1", con, f"# {s.comment[0]} {s.comment[1]} ({s.comment[2]} bytes) ↔ {s.method}: {s.width} bytes",
                                  f"the {side} handles `{s.comment[1]}` with {s.width} byte(s) where the instrument struct has "
                                  f"{s.comment[2]}", f"{rel}:{s.node.lineno}")
                if s.kind == "int" and s.comment[3] is not None and s.signed is not None and s.comment[3] != s.signed:
                    ok = False
                    rep.violation(f"{P}.R1", con, f"# {s.comment[0]} {s.comment[1]} ↔ {s.method}",
                                  f"signedness of `{s.comment[1]}` differs from the struct declaration", f"{rel}:{s.node.lineno}")
        if w.comment and r.comment and w.comment[1] != r.comment[1]:
            ok = False
            rep.violation(f"{P}.R1", rcon, text, f"slot {i} is `{w.comment[1]}` in the writer but `{r.comment[1]}` in the reader",
                          f"{rel}:{r.node.lineno}")
        # field agreement for directly stored attributes
        wf, rf = _field(w.expr), _field(r.expr)
        if rf in ("", "_") and re.match(r"^[a-z]\w*\.[a-z_]", wf) and "(" not in wf:
            ok = False
            rep.violation(f"{P}.R1", rcon, text,
                          f"slot {i} `{name}` carries `{wf}` in every written record, but the reader discards it "
                          f"({r.method}); instruments whose only copy of this data is this slot (the legacy layout) lose it on load",
                          f"{rel}:{r.node.lineno}")
        if rf.startswith("self.") and "(" not in wf and wf.startswith("self."):
            if wf.split("[")[0] != rf.split("[")[0]:
                ok = False
                rep.violation(f"{P}.R1", rcon, text, f"slot {i} is written from `{wf}` but loaded into `{rf}`", f"{rel}:{r.node.lineno}")
        elif "." in rf and "." in wf and not rf.startswith("self.") and "(" not in wf:
            # legacy envelope slots: same envelope object on both sides
            if wf.split(".")[0] != rf.split(".")[0]:
                ok = False
                rep.violation(f"{P}.R1", rcon, text, f"slot {i} is written from `{wf}` but loaded into `{rf}` (different envelope)",
                              f"{rel}:{r.node.lineno}")
            elif wf.split(".", 1)[1] != rf.split(".", 1)[1] and not wf.startswith("len("):
                ok = False
                rep.violation(f"{P}.R1", rcon, text, f"slot {i} is written from `{wf}` but loaded into `{rf}`", f"{rel}:{r.node.lineno}")
        if ok:
            rep.ok(f"{P}.R1", wcon, text, f"{w.width} byte(s) at offset {woff[i]:#x}" if woff[i] is not None else "")
    # the note map field carries the whole map: its data part (before padding to the field width) is as long as the map
    try:
        nmap = samp.nested.get("NoteSampleMap")
        le2 = _len_eval(repo, samp, wfn)
        n_keys = le2.container_size(nmap) if nmap is not None else None
    except Unknown:
        n_keys = None
    for s_ in ws:
        if not (s_.comment and s_.comment[1] == "smp_num") or not isinstance(s_.node, ast.Call) or not s_.node.args:
            continue
        data = s_.node.args[0]
        while isinstance(data, ast.Call) and isinstance(data.func, ast.Attribute) and data.func.attr in ("ljust",) and data.args:
            data = data.func.value
        try:
            iv = le2.of(data)
        except Unknown:
            iv = None
        if iv is None or n_keys is None or n_keys[0] != n_keys[1]:
            rep.inconclusive(f"{P}.R1", wcon, f"smp_num ← {norm(data)[:80]}", "length of the note-map data not derived", f"{rel}:{s_.node.lineno}")
        elif iv[1] < n_keys[0]:
            rep.violation(f"{P}.R1", wcon, f"smp_num ← {norm(data)[:80]}",
                          f"the note map has {n_keys[0]} entries but at most {iv[1]} byte(s) of it reach the `smp_num` field: the entries above "
                          f"index {iv[1] - 1} are written as padding (0) and those notes play sample 0 after reloading", f"{rel}:{s_.node.lineno}")
        elif iv[0] >= n_keys[0]:
            rep.ok(f"{P}.R1", wcon, f"smp_num ← {norm(data)[:60]}", f"all {n_keys[0]} note-map entries are written")
    tw, tr = _total(ws), _total(rs)
    tc = sum(s.comment[2] for s in rs if s.comment) if all(s.comment for s in rs) else None
    rep.instances["instrument_record_bytes"] = {"writer": tw, "reader": tr, "struct_comments": tc}
    rep.sample({"record": "sampler instrument", "writer_total": tw, "reader_total": tr, "struct_total": tc,
                "slots": [f"{(s.comment or ('', '?'))[1]}:{s.width}" for s in ws][:40]})
    # constants
    try:
        sign = repo.fold(samp.assigns["INS_SIGN"], ci=samp)
        if sign != b"PMAS":
            rep.violation(f"{P}.R1", f"{rel}:Sampler.INS_SIGN", repr(sign), "instrument signature must be b'PMAS'", f"{rel}:{samp.node.lineno}")
        else:
            rep.ok(f"{P}.R1", f"{rel}:Sampler.INS_SIGN", "b'PMAS'", nontrivial=False)
    except (KeyError, NotConst):
        rep.inconclusive(f"{P}.R1", f"{rel}:Sampler.INS_SIGN", "", "not constant", f"{rel}:{samp.node.lineno}")


def record_sizes(repo: Repo, rep, P: str, rule: str, tables):
    """C03 R6 / shared: record sizes and documented offsets."""
    samp, wfn, rfn, ws, rs = instrument_layouts(repo)
    rel = samp.file.rel
    wcon = f"{rel}:Sampler.global_config_chunks"
    tw, tr = _total(ws), _total(rs)
    tc = sum(s.comment[2] for s in ws if s.comment) if all(s.comment for s in ws) else None
    wits = [(s.comment[1] if s.comment else "?", s.witness) for s in ws if s.width is None and getattr(s, "witness", None) is not None]
    if wits:
        nm_, wit = wits[0]
        rep.violation(f"{P}.{rule}", wcon, f"`{nm_}`: {wit[2]} byte(s) with {wit[1]} element(s) in {wit[0]}, {wit[4]} with {wit[3]}",
                      "a field of the fixed-layout instrument record has no fixed width: the record is not the documented 400 bytes and every "
                      "later documented offset moves", f"{rel}:{wfn.lineno}")
    elif tw is None or tr is None:
        widths = [(s.comment[1] if s.comment else "?", s.width_iv) for s in ws if s.width is None]
        rep.inconclusive(f"{P}.{rule}", wcon, str(widths), "record size not a single value", f"{rel}:{wfn.lineno}")
    else:
        if tw == tr == (tc if tc is not None else tw):
            rep.ok(f"{P}.{rule}", wcon, f"instrument record: writer {tw} = reader {tr} = struct {tc} bytes")
        else:
            bad = [f"{(s.comment or ('', '?'))[1]}: {s.width} (struct {s.comment[2] if s.comment else '?'})" for s in ws
                   if s.comment and s.comment[2] != s.width]
            rep.violation(f"{P}.{rule}", wcon, f"writer {tw} bytes / reader layout {tr} / struct {tc}",
                          f"the fixed-layout instrument record is written with {tw} bytes but its documented layout has "
                          f"{tc if tc is not None else tr}: {bad}", f"{rel}:{wfn.lineno}")
    # documented offsets (RST) of named fields
    doc = docs.offset_rows(tables, "Sampler global configuration (CHNM 0)")
    anchors = [("Vibrato type", "vibrato_type"), ("Vibrato attack", "vibrato_sweep"), ("Vibrato depth", "vibrato_depth"),
               ("Vibrato rate", "vibrato_rate"), ("Volume fadeout", "volume_fadeout"), ("ASCII string 'PMAS'", "sign"),
               ("Sample number for note C-0", "smp_num"), ("Legacy sample number for note C-0", "smp_num_old"),
               ("Legacy number of active volume envelope points", "volume_points_num_old")]
    woff = _offsets(ws)
    byname = {s.comment[1]: (i, s) for i, s in enumerate(ws) if s.comment}
    n = 0
    for text, cname in anchors:
        row = [r for r in doc if r[2].startswith(text)]
        if not row or cname not in byname:
            continue
        n += 1
        i, s = byname[cname]
        if woff[i] is None:
            rep.inconclusive(f"{P}.{rule}", wcon, f"`{cname}`", "offset not derived (an earlier field's width is not a single value)", f"{rel}:{s.node.lineno}")
        elif woff[i] == row[0][0]:
            rep.ok(f"{P}.{rule}", wcon, f"`{cname}` at {woff[i]:#x}", f"= documented offset of '{text}'")
        else:
            rep.violation(f"{P}.{rule}", wcon, f"`{cname}` at {woff[i] if woff[i] is None else hex(woff[i])}",
                          f"the format document places '{text}' at {row[0][0]:#x}", f"{rel}:{s.node.lineno}")
    # the reserved tail of the note map: next field starts where the docs say the reserved bytes end
    res = [r for r in doc if r[2].startswith("Reserved (offset 0x17b")]
    if res and "smp_num" in byname:
        m = re.search(r"to (0x[0-9a-fA-F]+)\)", res[0][2])
        i, s = byname["smp_num"]
        if m and i + 1 < len(ws) and woff[i + 1] is not None:
            end = int(m.group(1), 16) + 1
            n += 1
            if woff[i + 1] == end:
                rep.ok(f"{P}.{rule}", wcon, f"field after the note map at {woff[i + 1]:#x}", "= end of the documented reserved bytes")
            else:
                rep.violation(f"{P}.{rule}", wcon, f"note map `smp_num` occupies {s.width} bytes; next field at {woff[i + 1]:#x}",
                              f"the format document reserves the note map through {end - 1:#x} (next field at {end:#x}): the "
                              "trailing fields are written at the wrong offsets", f"{rel}:{s.node.lineno}")
    rep.count(f"{rule}.documented_offsets_checked", n, 6)
    # sample configuration record
    W, R = repo.cls("_StructWriter", module=SAMPLER), repo.cls("_StructReader", module=SAMPLER)
    swfn, srfn = _nm(repo, samp, "sample_chunks"), _nm(repo, samp, "load_sample_meta")
    sw = layout.writer_slots(repo, samp, swfn, W, lambda e: (_ for _ in ()).throw(Unknown("raw")))
    sr = layout.reader_slots(repo, samp, srfn, R)
    a, b = _total(sw), _total(sr)
    if a is not None and a == b:
        rep.ok(f"{P}.{rule}", f"{rel}:Sampler.sample_chunks", f"sample record: writer {a} = reader {b} bytes")
    elif a is None or b is None:
        rep.inconclusive(f"{P}.{rule}", f"{rel}:Sampler.sample_chunks", f"writer {a} / reader {b}", "sample record size not derived on one side",
                         f"{rel}:{swfn.lineno}")
    else:
        rep.violation(f"{P}.{rule}", f"{rel}:Sampler.sample_chunks", f"writer {a} / reader {b}",
                      "sample configuration record has different sizes on the two sides", f"{rel}:{swfn.lineno}")
    sdoc = docs.offset_rows(tables, "Sample configuration chunk (CHNM n*2+1)")
    soff = _offsets(sw)
    sby = {s.comment[1]: (i, s) for i, s in enumerate(sw) if s.comment}
    for text, cname in (("Sample length", "length"), ("Loop start", "reppnt"), ("Loop end", "replen"), ("Volume", "volume"),
                        ("Finetune", "finetune"), ("`Loop and format bitmap`_", "type"), ("Panning", "panning"), ("Relative note", "relative_note")):
        row = [r for r in sdoc if r[2].startswith(text)]
        if row and cname in sby:
            i, s = sby[cname]
            if soff[i] == row[0][0]:
                rep.ok(f"{P}.{rule}", f"{rel}:Sampler.sample_chunks", f"`{cname}` at {soff[i]:#x}", f"= documented '{text}'")
            else:
                rep.violation(f"{P}.{rule}", f"{rel}:Sampler.sample_chunks", f"`{cname}` at {soff[i]}",
                              f"documented offset of '{text}' is {row[0][0]:#x}", f"{rel}:{s.node.lineno}")


# -------------------------------------------------------------------------------- R2
def sample_record(repo: Repo, rep, P: str, tables):
    samp, W, R = _sampler(repo)
    rel = samp.file.rel
    wfn, rfn = _nm(repo, samp, "sample_chunks"), _nm(repo, samp, "load_sample_meta")
    rep.func("rv.modules.sampler.Sampler.sample_chunks")
    rep.func("rv.modules.sampler.Sampler.load_sample_meta")
    ws = layout.writer_slots(repo, samp, wfn, W, lambda e: (_ for _ in ()).throw(Unknown("raw")))
    rs = layout.reader_slots(repo, samp, rfn, R)
    wcon, rcon = f"{rel}:Sampler.sample_chunks", f"{rel}:Sampler.load_sample_meta"
    rep.count("sample_writer_slots", len(ws), 11)
    rep.count("sample_reader_slots", len(rs), 11)
    if len(ws) != len(rs) and any(s_.kind == "unknown" for s_ in ws + rs):
        unk = [s_.expr for s_ in ws + rs if s_.kind == "unknown"]
        rep.inconclusive(f"{P}.R2", wcon, f"{len(ws)} / {len(rs)} slots; not read: {unk[:3]}",
                         "a call on the struct helper is not a field access this rule reads: the field count is not decided", f"{rel}:{wfn.lineno}")
        return          # slot-by-slot comparison would be misaligned
    elif len(ws) != len(rs):
        rep.violation(f"{P}.R2", wcon, f"{len(ws)} / {len(rs)} slots", "sample record field count differs", f"{rel}:{wfn.lineno}")
    param = [a.arg for a in wfn.args.args if a.arg not in ("self",)]
    sname = param[1] if len(param) > 1 else "sample"
    for i, (w, r) in enumerate(zip(ws, rs)):
        name = (w.comment or r.comment or ("", f"slot{i}", 0, None))[1]
        text = f"slot {i} `{name}`: writer {w.method}({w.expr}) / reader {r.expr} = {r.method}()"
        ok = True
        if w.width is None or r.width is None:
            ok = False
            rep.inconclusive(f"{P}.R2", wcon, text, f"width of `{name}` not derived on one side (writer {w.width}, reader {r.width})", f"{rel}:{w.node.lineno}")
        elif w.width != r.width:
            ok = False
            rep.violation(f"{P}.R2", wcon, text, f"`{name}` written as {w.width} byte(s), read as {r.width}", f"{rel}:{w.node.lineno}")
        if w.kind == "int" and r.kind == "int" and w.signed != r.signed:
            ok = False
            rep.violation(f"{P}.R2", rcon, text, f"`{name}` signedness differs between writer and reader", f"{rel}:{r.node.lineno}")
        for s, con in ((w, wcon), (r, rcon)):
            if s.comment and s.width is not None and s.comment[2] != s.width:
                ok = False
                rep.violation(f"{P}.R2", con, text, f"`{s.comment[1]}`: {s.width} byte(s) vs struct {s.comment[2]}", f"{rel}:{s.node.lineno}")
            if s.comment and s.kind == "int" and s.comment[3] is not None and s.comment[3] != s.signed:
                ok = False
                rep.violation(f"{P}.R2", con, text, f"`{s.comment[1]}` signedness differs from the struct declaration", f"{rel}:{s.node.lineno}")
        if w.comment and r.comment and w.comment[1] != r.comment[1]:
            ok = False
            rep.violation(f"{P}.R2", rcon, text, f"slot {i}: `{w.comment[1]}` vs `{r.comment[1]}`", f"{rel}:{r.node.lineno}")
        # direct fields: sample.X on both sides
        m1 = re.match(rf"^{sname}\.(\w+)$", w.expr)
        m2 = re.match(r"^sample\.(\w+)$", r.expr)
        if m1 and m2 and m1.group(1) != m2.group(1) and not (m1.group(1) == "frames" and m2.group(1) == "_length"):
            ok = False
            rep.violation(f"{P}.R2", rcon, text, f"written from sample.{m1.group(1)}, loaded into sample.{m2.group(1)}", f"{rel}:{r.node.lineno}")
        if ok:
            rep.ok(f"{P}.R2", wcon, text)
    _panning_pair(repo, rep, P, samp, wfn, rfn, ws, rs)
    _flag_byte(repo, rep, P, samp, wfn, rfn)
    _sample_numbering(repo, rep, P, samp, wfn)
    _chff_pair(repo, rep, P, samp, wfn)


def _panning_pair(repo, rep, P, samp, wfn, rfn, ws, rs):
    rel = samp.file.rel
    w = next((s for s in ws if s.comment and s.comment[1] == "panning"), None)
    r = next((s for s in rs if s.comment and s.comment[1] == "panning"), None)
    if w is None or r is None:
        rep.inconclusive(f"{P}.R2", f"{rel}:Sampler.sample_chunks", "panning", "panning slot not found", f"{rel}:{wfn.lineno}")
        return
    # writer: f(p) ; reader statement: sample.panning = g(raw)
    wexpr = w.node.args[0]
    rstmt = None
    for n in walk_no_nested(rfn):
        if isinstance(n, ast.Assign) and norm(n.targets[0]) == "sample.panning":
            rstmt = n
    if rstmt is None:
        rep.violation(f"{P}.R2", f"{rel}:Sampler.load_sample_meta", "sample.panning = ...", "panning is never loaded", f"{rel}:{rfn.lineno}")
        return

    def wleaf(e):
        if norm(e).endswith(".panning"):
            return alg.Poly.sym("p")
        return None

    def rleaf(e):
        if isinstance(e, ast.Call) and norm(e.func).startswith("r."):
            return alg.Poly.sym("raw")
        return None
    try:
        wp = alg.to_poly(wexpr, lambda e: wleaf(e) or _const_leaf(repo, samp, e))
        rp = alg.to_poly(rstmt.value, lambda e: rleaf(e) or _const_leaf(repo, samp, e))
        comp = rp.subst("raw", wp)
        if comp == alg.Poly.sym("p"):
            rep.ok(f"{P}.R2", f"{rel}:Sampler.sample_chunks", f"panning: stored {norm(wexpr)}, loaded {norm(rstmt.value)}", "affine inverse pair")
        else:
            rep.violation(f"{P}.R2", f"{rel}:Sampler.load_sample_meta", f"stored {norm(wexpr)}, loaded {norm(rstmt.value)}",
                          f"loading what was stored gives {comp} instead of the panning value", f"{rel}:{rstmt.lineno}")
        # stored value must fit uint8 for panning −128..127: offset must be 0x80
        if wp == alg.Poly.sym("p") + 0x80:
            rep.ok(f"{P}.R2", f"{rel}:Sampler.sample_chunks", "panning + 0x80", "centre 128 as documented")
        else:
            rep.violation(f"{P}.R2", f"{rel}:Sampler.sample_chunks", norm(wexpr), "panning must be stored as value + 0x80 (0..255, centre 128)",
                          f"{rel}:{w.node.lineno}")
    except alg.NotAlgebraic as e:
        rep.inconclusive(f"{P}.R2", f"{rel}:Sampler.sample_chunks", norm(wexpr), f"not affine: {e}", f"{rel}:{w.node.lineno}")


def _const_leaf(repo, ci, e):
    try:
        v = repo.fold(e, ci=ci)
        if isinstance(v, int) and not isinstance(v, bool):
            return alg.Poly.const(v)
    except NotConst:
        pass
    return None


def _enum_dict(repo: Repo, ci: ClassInfo, d: ast.Dict, keys_are_enums: bool) -> Optional[Dict[str, int]]:
    out = {}
    for k, v in zip(d.keys, d.values):
        en, iv = (k, v) if keys_are_enums else (v, k)
        try:
            val = repo.fold(iv, ci=ci)
        except NotConst:
            return None
        out[norm(en).split(".")[-1]] = val
    return out


def _flag_byte(repo, rep, P, samp, wfn, rfn):
    """The sample's type byte: loop type, sustain, format and channel flags occupy disjoint bits in the writer, and the reader
    extracts each from exactly the bits it was written to (however the locals are named or grouped)."""
    from ..packed import subst_locals
    rel = samp.file.rel
    wcon, rcon = f"{rel}:Sampler.sample_chunks", f"{rel}:Sampler.load_sample_meta"
    # writer: the argument of the struct-writer call that mentions the loop type
    flag_expr = None
    for c in walk_no_nested(wfn):
        if isinstance(c, ast.Call) and isinstance(c.func, ast.Attribute) and c.func.attr in ("uint8", "int8") and len(c.args) == 1:
            e = subst_locals(wfn, c.args[0])
            if ".loop_type" in norm(e):
                flag_expr = e
    if flag_expr is None:
        rep.inconclusive(f"{P}.R2", wcon, "", "the flag byte (a one-byte field built from sample.loop_type) was not found", f"{rel}:{wfn.lineno}")
        return
    svar_w = next((norm(n.value) for n in ast.walk(flag_expr) if isinstance(n, ast.Attribute) and n.attr == "loop_type"), "sample")
    loop_w = 2
    try:
        lt = repo.cls("BaseSampler", module="rv.modules.base.sampler").nested["LoopType"]
        m = 0
        for v in repo.enum_members(lt).values():
            m |= int(v)
        loop_w = max(1, m.bit_length())
    except (KeyError, AnchorMissing, NotConst):
        pass
    env = {f"{svar_w}.loop_type": BV.term("loop_type", width=loop_w), f"{svar_w}.loop_sustain": BV.term("loop_sustain", width=1)}
    ev = BitEval(repo, samp, env)
    try:
        word = ev.ev(flag_expr).truncate(8)
    except Unsupported as e:
        rep.inconclusive(f"{P}.R2", wcon, norm(flag_expr)[:160], f"flag byte not evaluable: {e}", f"{rel}:{wfn.lineno}")
        return
    tops = [i for i, l in enumerate(word.lanes[:8]) if bits.is_top(l)]
    if tops:
        rep.violation(f"{P}.R2", wcon, norm(flag_expr)[:160],
                      f"sub-fields of the sample flag byte overlap on bit(s) {tops}: {word.show(8)}", f"{rel}:{wfn.lineno}")
        return
    rep.ok(f"{P}.R2", wcon, f"flag byte = {norm(flag_expr)[:120]}", f"disjoint sub-fields: {word.show(8)}")
    # reader: the variable holding the byte (assigned from <reader>.uint8() and then masked)
    xvar = None
    for n in walk_no_nested(rfn):
        if isinstance(n, ast.Assign) and len(n.targets) == 1 and isinstance(n.targets[0], ast.Name) and isinstance(n.value, ast.Call) \
                and isinstance(n.value.func, ast.Attribute) and n.value.func.attr == "uint8":
            nm = n.targets[0].id
            if any(isinstance(b, ast.BinOp) and isinstance(b.op, ast.BitAnd) and any(isinstance(q, ast.Name) and q.id == nm for q in ast.walk(b))
                   for b in ast.walk(rfn)):
                xvar = nm
    if xvar is None:
        rep.inconclusive(f"{P}.R2", rcon, "", "flag byte variable not found in the reader", f"{rel}:{rfn.lineno}")
        return
    # single-assignment locals other than the byte itself
    cnt: Dict[str, int] = {}
    rdefs: Dict[str, ast.expr] = {}
    for n in walk_no_nested(rfn):
        if isinstance(n, ast.Name) and isinstance(n.ctx, ast.Store):
            cnt[n.id] = cnt.get(n.id, 0) + 1
    for n in walk_no_nested(rfn):
        if isinstance(n, ast.Assign) and len(n.targets) == 1 and isinstance(n.targets[0], ast.Name) and cnt.get(n.targets[0].id) == 1 \
                and n.targets[0].id != xvar:
            rdefs[n.targets[0].id] = n.value

    def res(e: ast.expr, depth: int = 4) -> ast.expr:
        import copy as _copy

        class Sub(ast.NodeTransformer):
            def visit_Name(self, node):
                if isinstance(node.ctx, ast.Load) and node.id in rdefs and depth > 0:
                    return res(rdefs[node.id], depth - 1)
                return node
        return Sub().visit(_copy.deepcopy(e))
    ev2 = BitEval(repo, samp, {xvar: word})
    checks = []
    rmap_node = None
    stereo_if = None
    for n in ast.walk(rfn):
        if isinstance(n, ast.Assign) and len(n.targets) == 1 and isinstance(n.targets[0], ast.Attribute):
            fld = n.targets[0].attr
            v = n.value
            if fld == "loop_type":
                sel = v.args[0] if isinstance(v, ast.Call) and len(v.args) == 1 else v
                checks.append(("loop_type", res(sel), "loop_type", loop_w))
            elif fld == "loop_sustain":
                checks.append(("loop_sustain", res(v), "loop_sustain", 1))
            elif fld == "format" and isinstance(v, ast.Subscript) and isinstance(v.value, (ast.Name, ast.Attribute)) \
                    and isinstance(_definition(repo, samp, v.value), ast.Dict):
                checks.append(("format", res(v.slice), "map(", None))
                rmap_node = _definition(repo, samp, v.value)        # a class-level / module-level table of the same shape
            elif fld == "format" and isinstance(v, ast.Subscript) and isinstance(v.value, ast.Dict):
                checks.append(("format", res(v.slice), "map(", None))
                rmap_node = v.value
            elif fld == "channels" and isinstance(v, ast.IfExp):
                checks.append(("channels", res(v.test), "map(", None))
                stereo_if = (v.test, norm(v.body).split(".")[-1], norm(v.orelse).split(".")[-1])
        if isinstance(n, ast.If) and any(isinstance(b, ast.Assign) and isinstance(b.targets[0], ast.Attribute) and b.targets[0].attr == "channels"
                                         for b in n.body):
            checks.append(("channels", res(n.test), "map(", None))
            tb = next((norm(b.value).split(".")[-1] for b in n.body if isinstance(b, ast.Assign) and isinstance(b.targets[0], ast.Attribute)
                       and b.targets[0].attr == "channels"), "?")
            fb = next((norm(b.value).split(".")[-1] for b in n.orelse if isinstance(b, ast.Assign) and isinstance(b.targets[0], ast.Attribute)
                       and b.targets[0].attr == "channels"), "?")
            stereo_if = (n.test, tb, fb)
    rep.count("flag_byte_extractions", len(checks), 4)
    for label, expr, term, width in checks:
        try:
            got = ev2.ev(expr)
        except Unsupported as e:
            rep.inconclusive(f"{P}.R2", rcon, norm(expr), f"not evaluable: {e}", f"{rel}:{getattr(expr, 'lineno', rfn.lineno)}")
            continue
        ds = got.deps()
        want = [d for d in word.deps() if d.startswith(term)]
        if label == "format":
            want = [d for d in want if "format" in d]
        elif label == "channels":
            want = [d for d in want if "channels" in d]
        src_lanes = [i for i, l in enumerate(word.lanes) if isinstance(l, tuple) and l[0] == "s" and l[1] in want]
        got_lanes = sorted({l[2] for l in got.lanes if isinstance(l, tuple) and l[0] == "s" and l[1] in want})
        full = set(ds) == set(want) and len(want) == 1 and not any(bits.is_top(l) for l in got.lanes) \
            and sorted({word.lanes[i][2] for i in src_lanes}) == got_lanes
        if full:
            rep.ok(f"{P}.R2", rcon, f"{label} ← {norm(expr)}", f"reads exactly the bits written for {want[0]}")
        else:
            rep.violation(f"{P}.R2", rcon, f"{label} ← {norm(expr)}",
                          f"the reader extracts {got.show(8)} from the flag byte {word.show(8)}: not exactly the bits the writer "
                          f"stored for {label}", f"{rel}:{getattr(expr, 'lineno', rfn.lineno)}")
    # enum-keyed tables are inverse maps
    wd = cd = None
    for n in ast.walk(flag_expr):
        if isinstance(n, ast.Subscript) and isinstance(n.value, ast.Dict):
            if ".format" in norm(n.slice):
                wd = n
            elif ".channels" in norm(n.slice):
                cd = n
    if wd is not None:
        wmap = _enum_dict(repo, samp, wd.value, True)
        rmap = _enum_dict(repo, samp, rmap_node, False) if rmap_node is not None else None
        if wmap is not None and rmap is not None and wmap == rmap and len(set(wmap.values())) == len(wmap):
            rep.ok(f"{P}.R2", rcon, f"format table {wmap}", "writer and reader tables are inverse maps")
        elif wmap is None or rmap is None:
            rep.inconclusive(f"{P}.R2", rcon, f"writer {wmap} / reader {rmap}", "sample format code tables not recognised on one side", f"{rel}:{rfn.lineno}")
        else:
            rep.violation(f"{P}.R2", rcon, f"writer {wmap} / reader {rmap}", "sample format code tables are not inverse to each other",
                          f"{rel}:{rfn.lineno}")
    if cd is not None:
        cmap = _enum_dict(repo, samp, cd.value, True)
        sif = None
        if stereo_if is not None:
            mask = None
            t = res(stereo_if[0])
            nonzero_test = True
            if isinstance(t, ast.Compare) and len(t.ops) == 1 and isinstance(t.ops[0], ast.Eq) and norm(t.comparators[0]) == "0":
                nonzero_test = False
            for c in ast.walk(t):
                if isinstance(c, ast.BinOp) and isinstance(c.op, ast.BitAnd):
                    try:
                        mask = repo.fold(c.right, ci=samp)
                    except NotConst:
                        try:
                            mask = repo.fold(c.left, ci=samp)
                        except NotConst:
                            pass
            sif = (mask, stereo_if[1], stereo_if[2]) if nonzero_test else (mask, stereo_if[2], stereo_if[1])
        if cmap and sif and cmap.get(sif[1]) == sif[0] and cmap.get(sif[2]) == 0:
            rep.ok(f"{P}.R2", rcon, f"channels table {cmap} / if flags & {sif[0]:#x}: {sif[1]} else {sif[2]}", "inverse")
        elif not cmap or not sif or sif[0] is None:
            rep.inconclusive(f"{P}.R2", rcon, f"writer {cmap} / reader {sif}", "channel flag decoding not recognised", f"{rel}:{rfn.lineno}")
        else:
            rep.violation(f"{P}.R2", rcon, f"writer {cmap} / reader {sif}", "channel flag is not decoded as it was encoded",
                          f"{rel}:{rfn.lineno}")


def _floor_affine(repo, samp, e: ast.expr, nvar, n_val: Tuple[int, int]) -> Optional[Tuple[int, int]]:
    """Value of an integer expression in the chunk number n = a·i + b as (coefficient of i, constant), following // and >> by
    constants exactly (valid when the divisor divides the coefficient); None when the expression has another shape."""
    if nvar(e):
        return n_val
    try:
        v = repo.fold(e, ci=samp)
        if isinstance(v, int) and not isinstance(v, bool):
            return (0, v)
    except NotConst:
        pass
    if isinstance(e, ast.BinOp):
        l = _floor_affine(repo, samp, e.left, nvar, n_val)
        r = _floor_affine(repo, samp, e.right, nvar, n_val)
        if l is None or r is None:
            return None
        if isinstance(e.op, ast.Add):
            return (l[0] + r[0], l[1] + r[1])
        if isinstance(e.op, ast.Sub):
            return (l[0] - r[0], l[1] - r[1])
        if isinstance(e.op, ast.Mult) and (l[0] == 0 or r[0] == 0):
            k, o = (l[1], r) if l[0] == 0 else (r[1], l)
            return (o[0] * k, o[1] * k)
        if isinstance(e.op, (ast.FloorDiv, ast.RShift)) and r[0] == 0:
            d = r[1] if isinstance(e.op, ast.FloorDiv) else (1 << r[1] if 0 <= r[1] < 32 else 0)
            if d > 0 and l[0] % d == 0:
                return (l[0] // d, l[1] // d)       # floor((d·q·i + b) / d) = q·i + floor(b / d)
    return None


def _sample_numbering(repo, rep, P, samp, wfn):
    from ..packed import subst_locals
    from .. import chnm as chnm_mod
    rel = samp.file.rel
    ivar = [a.arg for a in wfn.args.args if a.arg != "self"][0]
    nums = []
    for n in walk_no_nested(wfn):
        if isinstance(n, ast.Yield) and isinstance(n.value, ast.Tuple) and isinstance(n.value.elts[0], ast.Constant) \
                and n.value.elts[0].value == b"CHNM":
            p = subst_locals(wfn, n.value.elts[1])
            if isinstance(p, ast.Call) and norm(p.func) in ("pack", "struct.pack") and len(p.args) == 2:
                nums.append(p.args[1])

    def leaf(e):
        if isinstance(e, ast.Name) and e.id == ivar:
            return alg.Poly.sym("i")
        return _const_leaf(repo, samp, e)
    if len(nums) != 2:
        rep.inconclusive(f"{P}.R2", f"{rel}:Sampler.sample_chunks", "", f"{len(nums)} CHNM yields", f"{rel}:{wfn.lineno}")
        return
    try:
        meta_p, data_p = alg.to_poly(nums[0], leaf), alg.to_poly(nums[1], leaf)
    except alg.NotAlgebraic as e:
        rep.inconclusive(f"{P}.R2", f"{rel}:Sampler.sample_chunks", f"{norm(nums[0])} / {norm(nums[1])}", f"chunk numbers not affine in the slot index: {e}",
                         f"{rel}:{wfn.lineno}")
        return
    readers = {"load_sample_meta": (meta_p, 1), "load_sample_data": (data_p, 0)}
    for rname, (wp, parity_) in readers.items():
        rfn = _nm(repo, samp, rname)
        con = f"{rel}:Sampler.{rname}"
        # the index used on self.samples
        idx = None
        for n in ast.walk(rfn):
            if isinstance(n, ast.Subscript) and norm(n.value) == "self.samples" and not isinstance(n.slice, ast.Slice):
                idx = subst_locals(rfn, n.slice)
        a_i = wp.coeff_of("i")
        try:
            n_val = (int(a_i.const_value()), int(wp.const_value()))
        except Exception:
            n_val = None
        got = None
        if idx is not None and n_val is not None:
            got = _floor_affine(repo, samp, idx, lambda e: norm(e) in ("chunk.chnm", "chnm"), n_val)
            if got is None:
                # chnm held in a local
                names = {x.targets[0].id for x in walk_no_nested(rfn) if isinstance(x, ast.Assign) and isinstance(x.targets[0], ast.Name)
                         and norm(x.value) == "chunk.chnm"}
                got = _floor_affine(repo, samp, idx, lambda e: norm(e) == "chunk.chnm" or (isinstance(e, ast.Name) and e.id in names), n_val)
        if idx is None or got is None:
            rep.inconclusive(f"{P}.R2", con, norm(idx) if idx is not None else "", "slot index derived from the chunk number not recognised", f"{rel}:{rfn.lineno}")
        elif got == (1, 0):
            rep.ok(f"{P}.R2", con, f"index = {norm(idx)}  ∘  chnm = {wp}", "recovers the sample slot index exactly")
        else:
            rep.violation(f"{P}.R2", con, f"index = {norm(idx)} with chnm = {wp}",
                          f"chunk number {wp} does not map back to slot i: the reader computes {got[0]}·i + {got[1]}", f"{rel}:{rfn.lineno}")
        # odd/even numbering
        try:
            c = wp.const_value()
        except Exception:
            c = None
        lin = wp.coeff_of("i")
        if lin == alg.Poly.const(2) and c is not None and int(c) % 2 == parity_:
            rep.ok(f"{P}.R2", f"{rel}:Sampler.sample_chunks", f"chnm = {wp}", f"parity {parity_} as dispatched by load_chunk")
        else:
            rep.violation(f"{P}.R2", f"{rel}:Sampler.sample_chunks", f"chnm = {wp}",
                          f"sample {'configuration' if parity_ else 'data'} chunks must be numbered 2i+{2 - parity_}", f"{rel}:{wfn.lineno}")
    # load_chunk dispatch by parity below 0x101: probe the boundary numbers
    probes = [(0, "instrument"), (1, "sample_meta"), (2, "sample_data"), (0xFF, "sample_meta"), (0x100, "sample_data")]
    bad = []
    for k, want in probes:
        tgt, _ = chnm_mod.reader_target(repo, samp, k)
        if tgt != want:
            bad.append((k, want, tgt))
    lcn = repo.own_method(samp, "load_chunk")
    if not bad:
        rep.ok(f"{P}.R2", f"{rel}:Sampler.load_chunk", "0 → instrument; odd → sample meta, even → sample data up to 0x100", "dispatch probed at the boundary numbers")
    else:
        k, want, tgt = bad[0]
        rep.violation(f"{P}.R2", f"{rel}:Sampler.load_chunk", f"chunk {k:#x} → `{tgt or 'nothing'}` (expected {want})",
                      "sample chunks are no longer dispatched by chunk-number parity below 0x101 (the instrument record is chunk 0)",
                      f"{rel}:{lcn.lineno}")


def _chff_pair(repo, rep, P, samp, wfn):
    rel = samp.file.rel
    base = repo.cls("BaseSampler", module="rv.modules.base.sampler")
    fm = repo.enum_members(base.nested["Format"])
    ch = repo.enum_members(base.nested["Channels"])
    rfn = _nm(repo, samp, "load_sample_data")
    src = norm(rfn)
    fmask = cmask = None
    for n in walk_no_nested(rfn):
        if isinstance(n, ast.BinOp) and isinstance(n.op, ast.BitAnd) and norm(n.left) == "chunk.chff":
            try:
                v = repo.fold(n.right, ci=samp)
            except NotConst:
                continue
            if "Channels" in src and v in ch.values() or v == 8:
                if v == 8:
                    cmask = v
            if v == 7:
                fmask = v
    fvals, cvals = set(fm.values()), set(ch.values())
    ok = fmask is not None and cmask is not None and all(v & fmask == v for v in fvals) and all(v & cmask == v for v in cvals) \
        and not (fmask & cmask)
    wtxt = None
    for n in walk_no_nested(wfn):
        if isinstance(n, ast.Yield) and isinstance(n.value, ast.Tuple) and isinstance(n.value.elts[0], ast.Constant) \
                and n.value.elts[0].value == b"CHFF":
            wtxt = norm(n.value.elts[1])
    wok = wtxt is not None and wtxt.replace(" ", "") == "pack('<I',sample.format.value|sample.channels.value)"
    if ok and wok:
        rep.ok(f"{P}.R2", f"{rel}:Sampler.load_sample_data", f"CHFF = format|channels ↔ chff & {fmask}, chff & {cmask}",
               f"format members {sorted(fvals)} ⊆ mask {fmask}, channel members {sorted(cvals)} ⊆ mask {cmask}, disjoint")
    else:
        rep.violation(f"{P}.R2", f"{rel}:Sampler.load_sample_data", f"writer {wtxt}; reader masks {fmask}/{cmask}",
                      "the CHFF word is not decoded with masks that separate format and channel bits", f"{rel}:{rfn.lineno}")
    # data and rate pairing
    need = ["sample.data = chunk.chdt", "sample.rate = chunk.chfr"]
    missing = [n for n in need if n not in src]
    wsrc = norm(wfn)
    wneed = ["(b'CHDT', sample.data)", "(b'CHFR', pack('<I', sample.rate))"]
    wmissing = [n for n in wneed if n not in wsrc]
    if not missing and not wmissing:
        rep.ok(f"{P}.R2", f"{rel}:Sampler.load_sample_data", "CHDT ↔ sample.data, CHFR ↔ sample.rate", "payload and rate passed through unchanged")
    else:
        rep.violation(f"{P}.R2", f"{rel}:Sampler.load_sample_data", f"missing reader {missing} writer {wmissing}",
                      "sample data / rate are not stored and loaded symmetrically", f"{rel}:{rfn.lineno}")


# -------------------------------------------------------------------------------- R3
def envelope_chunk(repo: Repo, rep, P: str, tables):
    samp, W, R = _sampler(repo)
    env = samp.nested["Envelope"]
    rel = samp.file.rel
    from .. import inline
    from ..packed import subst_locals
    wfn, rfn = _nm(repo, env, "chunks"), _nm(repo, env, "load_chdt")
    rep.func("rv.modules.sampler.Sampler.Envelope.chunks / load_chdt")
    wcon, rcon = f"{rel}:Sampler.Envelope.chunks", f"{rel}:Sampler.Envelope.load_chdt"
    # writer: the CHDT payload variable and its pieces: `data = pack(...)`, `data += b"..."`, `data += pack(...)`,
    # then the points either in a loop `data += pack(F, x, y')` or as `data += b"".join(pack(F, x, y') for x, y in points)`
    parts: List[Tuple[str, int, List[str]]] = []
    loop_part = None
    dvar = None
    pl = packed.find_yield(wfn, b"CHDT")
    if isinstance(pl, ast.Name):
        dvar = pl.id

    from ..packed import single_defs, resolve_names
    wdefs = single_defs(wfn)

    def is_points_piece(v: ast.AST) -> bool:
        if isinstance(v, ast.Call) and isinstance(v.func, ast.Attribute) and v.func.attr == "join" and v.args and isinstance(v.args[0], ast.Name) \
                and isinstance(wdefs.get(v.args[0].id), (ast.GeneratorExp, ast.ListComp)):
            v.args[0] = wdefs[v.args[0].id]          # packed_points = (pack(...) for x, y in points); b"".join(packed_points)
        return isinstance(v, ast.Call) and isinstance(v.func, ast.Attribute) and v.func.attr == "join" and v.args \
            and isinstance(v.args[0], (ast.GeneratorExp, ast.ListComp))
    accumulated = dvar is not None and any(isinstance(st, ast.AugAssign) and norm(st.target) == dvar for st in stmts_of(wfn))

    def take(val):
        nonlocal loop_part
        pieces = []

        def split(v):
            if isinstance(v, ast.Call) and isinstance(v.func, ast.Attribute) and v.func.attr == "join" and isinstance(v.func.value, ast.Constant) \
                    and v.func.value.value == b"" and len(v.args) == 1 and isinstance(v.args[0], ast.Call) \
                    and norm(v.args[0].func).split(".")[-1] == "chain" and not v.args[0].keywords:
                # b"".join(chain((a, b), points)): the pieces of the displays, then the joined generator
                for a in v.args[0].args:
                    a2 = wdefs.get(a.id) if isinstance(a, ast.Name) and a.id in wdefs else a
                    if isinstance(a2, (ast.Tuple, ast.List)) and not any(isinstance(x, ast.Starred) for x in a2.elts):
                        for x in a2.elts:
                            split(x)
                    elif isinstance(a2, (ast.GeneratorExp, ast.ListComp)):
                        pieces.append(ast.Call(func=ast.Attribute(value=ast.Constant(value=b""), attr="join", ctx=ast.Load()), args=[a2], keywords=[]))
                    else:
                        pieces.append(a)
                return
            if isinstance(v, ast.BinOp) and isinstance(v.op, ast.Add):
                split(v.left)
                split(v.right)
            elif isinstance(v, ast.Name) and v.id in wdefs and v.id != dvar:
                split(wdefs[v.id])
            else:
                pieces.append(v)
        split(val)

        def size_of(x) -> Optional[int]:
            """bytes of a piece whose size is fixed: pack with a constant format, a bytes constant, a local naming one, a padded piece"""
            if isinstance(x, ast.Name) and x.id in wdefs and x.id != dvar:
                return size_of(wdefs[x.id])
            if isinstance(x, ast.Call) and norm(x.func) in ("pack", "struct.pack") and x.args:
                try:
                    return struct.calcsize(repo.fold(x.args[0], ci=env, sf=env.file))
                except Exception:
                    return None
            if isinstance(x, ast.Call) and isinstance(x.func, ast.Attribute) and x.func.attr == "ljust" and len(x.args) == 2:
                try:
                    n_ = repo.fold(x.args[0], ci=env, sf=env.file)
                except Exception:
                    return None
                inner_ = size_of(x.func.value)
                return max(inner_, n_) if inner_ is not None and isinstance(n_, int) else None
            try:
                b_ = repo.fold(x, ci=env, sf=env.file)
                return len(b_) if isinstance(b_, (bytes, bytearray)) else None
            except Exception:
                return None
        expanded = []
        for v in pieces:
            # X.ljust(N, b"\0"): X, then zeros up to N
            if isinstance(v, ast.Call) and isinstance(v.func, ast.Attribute) and v.func.attr == "ljust" and len(v.args) == 2 \
                    and isinstance(v.args[1], ast.Constant) and v.args[1].value == b"\0":
                inner_sz = size_of(v.func.value)
                try:
                    total = repo.fold(v.args[0], ci=env, sf=env.file)
                except Exception:
                    total = None
                if inner_sz is not None and isinstance(total, int) and total >= inner_sz:
                    sub = []
                    saved, pieces_ref = pieces[:], pieces
                    pieces_ref.clear()
                    split(v.func.value)
                    sub = pieces_ref[:]
                    pieces_ref.clear()
                    pieces_ref.extend(saved)
                    expanded.extend(sub)
                    if total > inner_sz:
                        expanded.append(ast.Call(func=ast.Name(id="bytes", ctx=ast.Load()), args=[ast.Constant(value=total - inner_sz)], keywords=[]))
                    continue
            # bytes(N − len(header)): zeros up to N
            if isinstance(v, ast.Call) and norm(v.func) == "bytes" and len(v.args) == 1 and not v.keywords and isinstance(v.args[0], ast.BinOp) \
                    and isinstance(v.args[0].op, ast.Sub) and isinstance(v.args[0].right, ast.Call) and norm(v.args[0].right.func) == "len" \
                    and len(v.args[0].right.args) == 1:
                try:
                    total = repo.fold(v.args[0].left, ci=env, sf=env.file)
                except Exception:
                    total = None
                inner_sz = size_of(v.args[0].right.args[0])
                if isinstance(total, int) and inner_sz is not None and total >= inner_sz:
                    expanded.append(ast.Call(func=ast.Name(id="bytes", ctx=ast.Load()), args=[ast.Constant(value=total - inner_sz)], keywords=[]))
                    continue
            expanded.append(v)
        for v in expanded:
            if is_points_piece(v):
                loop_part = v
            elif isinstance(v, ast.Call) and norm(v.func) in ("pack", "struct.pack"):
                try:
                    fmt = repo.fold(v.args[0], ci=env)
                    parts.append(("pack", struct.calcsize(fmt), [fmt] + [norm(a) for a in v.args[1:]]))
                except NotConst:
                    parts.append(("unknown", -1, [norm(v)]))
            elif isinstance(v, ast.Call) and norm(v.func) == "bytes" and len(v.args) == 1 and not v.keywords \
                    and isinstance(v.args[0], ast.Constant) and isinstance(v.args[0].value, int):
                parts.append(("zeros", v.args[0].value, [f"bytes({v.args[0].value})"]))
            else:
                try:
                    b = repo.fold(v, ci=env, sf=env.file)
                    parts.append(("zeros" if set(b) <= {0} else "const", len(b), [repr(b)]))
                except (NotConst, TypeError):
                    parts.append(("unknown", -1, [norm(v)]))
    # pieces collected in a list and joined at the end: `parts = [a, b]; for …: parts.append(p); yield CHDT, b"".join(parts)`
    lvar = None
    if isinstance(pl, ast.Call) and isinstance(pl.func, ast.Attribute) and pl.func.attr == "join" and isinstance(pl.func.value, ast.Constant) \
            and pl.func.value.value == b"" and len(pl.args) == 1 and isinstance(pl.args[0], ast.Name) and isinstance(wdefs.get(pl.args[0].id), (ast.List, ast.Tuple)):
        lvar = pl.args[0].id
    if lvar is not None:
        for x in wdefs[lvar].elts:
            take(x)
        for st in stmts_of(wfn):
            if isinstance(st, ast.Expr) and isinstance(st.value, ast.Call) and norm(st.value.func) == f"{lvar}.append" and len(st.value.args) == 1:
                take(st.value.args[0])
            elif isinstance(st, ast.AugAssign) and norm(st.target) == lvar and isinstance(st.value, (ast.List, ast.Tuple)):
                for x in st.value.elts:
                    take(x)
            elif isinstance(st, ast.For) and any(isinstance(c, ast.Call) and norm(c.func) in (f"{lvar}.append", f"{lvar}.extend") for c in ast.walk(st)):
                loop_part = st
            elif any(isinstance(n, ast.Name) and n.id == lvar for n in ast.walk(st)) and not (isinstance(st, ast.Assign) and norm(st.targets[0]) == lvar) \
                    and not (isinstance(st, ast.Expr) and isinstance(st.value, ast.Yield)):
                parts.append(("unknown", -1, [norm(st)[:60]]))
    elif accumulated:
        for st in stmts_of(wfn):
            if isinstance(st, ast.Assign) and norm(st.targets[0]) == dvar:
                take(st.value)
            elif isinstance(st, ast.AugAssign) and norm(st.target) == dvar and isinstance(st.op, ast.Add):
                take(st.value)
            if isinstance(st, ast.For):
                loop_part = st
    elif pl is not None:
        dvar = None
        take(pl)
    header = sum(p[1] for p in parts)
    # reader
    unpack_stmt = None
    for n in walk_no_nested(rfn):
        if isinstance(n, ast.Assign) and isinstance(n.value, ast.Call) and norm(n.value.func) == "unpack" \
                and isinstance(n.targets[0], ast.Tuple) and len(n.targets[0].elts) > 4:
            unpack_stmt = n
    if unpack_stmt is None or not [p for p in parts if p[0] == "pack"] or any(p[0] == "unknown" for p in parts):
        rep.inconclusive(f"{P}.R3", wcon, "", "envelope header shape not recognised", f"{rel}:{wfn.lineno}")
        return
    rfmt = repo.fold(unpack_stmt.value.args[0], ci=env)
    rsize = struct.calcsize(rfmt)
    sl = unpack_stmt.value.args[1]
    try:
        slice_hi = repo.fold(sl.slice.upper, ci=env) if isinstance(sl, ast.Subscript) and isinstance(sl.slice, ast.Slice) and sl.slice.upper is not None else None
        slice_lo = repo.fold(sl.slice.lower, ci=env) if isinstance(sl, ast.Subscript) and isinstance(sl.slice, ast.Slice) and sl.slice.lower is not None else 0
    except NotConst:
        rep.inconclusive(f"{P}.R3", rcon, norm(sl), "header slice bounds not constant", f"{rel}:{unpack_stmt.lineno}")
        return
    # field-by-field: expand writer parts into (offset, size, field)
    wfields: List[Tuple[int, int, str]] = []
    off = 0
    for kind, size, info in parts:
        if kind == "pack":
            fmt = info[0]
            try:
                _, items_ = packed._fmt_items(fmt)
            except Exception:
                items_ = [(c, struct.calcsize("<" + c)) for c in fmt.lstrip("<>=!@")]
            args_ = list(info[1:])
            for c, sz in items_:
                if c == "x":
                    wfields.append((off, sz, "<zeros>"))        # pad byte of the format
                else:
                    wfields.append((off, sz, args_.pop(0) if args_ else "?"))
                off += sz
        else:
            wfields.append((off, size, "<zeros>"))
            off += size
    rfields: List[Tuple[int, int, str]] = []
    off = slice_lo
    try:
        _, ritems_ = packed._fmt_items(rfmt)
    except Exception:
        ritems_ = [(c, struct.calcsize("<" + c)) for c in rfmt.lstrip("<>=!@")]
    rtargets_ = list(unpack_stmt.targets[0].elts)
    for c, sz in ritems_:
        if c != "x":
            rfields.append((off, sz, norm(rtargets_.pop(0)) if rtargets_ else "?"))
        off += sz
    ok = True
    if slice_hi is None or slice_hi - slice_lo != rsize:
        ok = False
        rep.violation(f"{P}.R3", rcon, norm(unpack_stmt.value), f"unpack format needs {rsize} bytes but the slice has {slice_hi}", f"{rel}:{unpack_stmt.lineno}")
    if not rfmt.startswith("<") or any(not p[2][0].startswith("<") for p in parts if p[0] == "pack"):
        ok = False
        rep.violation(f"{P}.R3", wcon, f"{[p[2][0] for p in parts if p[0] == 'pack']} / {rfmt}", "envelope header must be little-endian on both sides", f"{rel}:{wfn.lineno}")
    wmap = {o: (s, f) for o, s, f in wfields if f != "<zeros>"}
    n_f = 0
    for o, s, t in rfields:
        if t == "_":
            continue
        n_f += 1
        w = wmap.get(o)
        tname = t.replace("self.", "")
        if w is None:
            ok = False
            rep.violation(f"{P}.R3", rcon, f"{t} read at {o:#x}", f"the writer stores no field at offset {o:#x}", f"{rel}:{unpack_stmt.lineno}")
            continue
        wname = w[1].replace("self.", "")
        if tname == "point_count":
            good = wname == "len(self.points)".replace("self.", "") or wname == "len(points)"
        else:
            good = wname == tname
        if w[0] != s or not good:
            ok = False
            rep.violation(f"{P}.R3", rcon, f"offset {o:#x}: writer {w[1]} ({w[0]} B) / reader {t} ({s} B)",
                          "envelope header field differs between writer and reader", f"{rel}:{unpack_stmt.lineno}")
    rep.count("envelope_header_fields", n_f, 8)
    # points: writer loop packs "<HH" x, y - range[0]; reader offset base + i*4, y + range[0]
    base = stride = None
    ydelta_r = None
    # the slice `chdt[o : o + 4]` of the per-point unpack; o = base + i*stride (assigned in the loop) or the variable of range(base, end, stride)
    cparam = [a.arg for a in rfn.args.args if a.arg != "self"][0]
    for lp in [n for n in walk_no_nested(rfn) if isinstance(n, ast.For)]:
        for c in ast.walk(lp):
            if isinstance(c, ast.Call) and norm(c.func) in ("unpack", "struct.unpack") and len(c.args) == 2:
                sl2 = packed.resolve_in_block(c.args[1], lp.body)
                if isinstance(sl2, ast.Subscript) and isinstance(sl2.slice, ast.Slice) and norm(sl2.value) == cparam and sl2.slice.lower is not None:
                    lo_e = packed.resolve_in_block(sl2.slice.lower, lp.body)
                    it = lp.iter
                    try:
                        if isinstance(it, ast.Call) and norm(it.func) == "range" and len(it.args) == 3 and isinstance(lp.target, ast.Name) \
                                and norm(lo_e) == lp.target.id:
                            base, stride = int(repo.fold(it.args[0], ci=env)), int(repo.fold(it.args[2], ci=env))
                        elif isinstance(lp.target, ast.Name):
                            iv = lp.target.id
                            p = alg.to_poly(lo_e, lambda e: alg.Poly.sym("i") if isinstance(e, ast.Name) and e.id == iv else _const_leaf(repo, env, e))
                            base, stride = int(p.const_value() if p.is_const() else p.subst("i", alg.Poly.const(0)).const_value()), \
                                int((p.subst("i", alg.Poly.const(1)) - p.subst("i", alg.Poly.const(0))).const_value())
                    except (alg.NotAlgebraic, NotConst, Exception):
                        pass
    if base is None:
        ok = False
        rep.inconclusive(f"{P}.R3", rcon, "", "per-point read offset not recognised", f"{rel}:{rfn.lineno}")
    elif base != header or stride != 4:
        ok = False
        rep.violation(f"{P}.R3", rcon, f"points read from {base}+i*{stride}", f"the writer's header is {header} bytes and each point 4 bytes: points "
                      f"must be read from {header:#x}+i*4", f"{rel}:{rfn.lineno}")
    # y offset pair
    wy = ry = None
    if loop_part is not None:
        for n in ast.walk(loop_part):
            if isinstance(n, ast.Call) and norm(n.func) == "pack" and len(n.args) == 3:
                wy = n.args[2]
                if repo.fold(n.args[0], ci=env) != "<HH":
                    ok = False
                    rep.violation(f"{P}.R3", wcon, norm(n), "envelope points must be packed '<HH'", f"{rel}:{n.lineno}")
    rdefs = {}
    for n in walk_no_nested(rfn):
        if isinstance(n, ast.Assign) and len(n.targets) == 1 and isinstance(n.targets[0], ast.Name):
            rdefs[n.targets[0].id] = n.value
        if isinstance(n, ast.Call) and isinstance(n.func, ast.Attribute) and n.func.attr == "append" and n.args and isinstance(n.args[0], ast.Tuple) \
                and len(n.args[0].elts) == 2:
            ry = n.args[0].elts[1]

    def leafw(e):
        if isinstance(e, ast.Name) and e.id == "y":
            return alg.Poly.sym("y")
        if norm(e) == "self.range[0]":
            return alg.Poly.sym("lo")
        return None

    def leafr(e):
        if isinstance(e, ast.Name) and e.id == "y":
            return alg.Poly.sym("raw")
        if isinstance(e, ast.Name) and e.id in rdefs and norm(rdefs[e.id]) == "self.range[0]":
            return alg.Poly.sym("lo")
        if norm(e) == "self.range[0]":
            return alg.Poly.sym("lo")
        return None
    if wy is not None:
        wy = resolve_names(wy, wdefs)
    try:
        wp, rp = alg.to_poly(wy, leafw), alg.to_poly(ry, leafr)
        comp = rp.subst("raw", wp)
        if comp == alg.Poly.sym("y") and wp == alg.Poly.sym("y") - alg.Poly.sym("lo"):
            rep.ok(f"{P}.R3", wcon, f"y stored as {norm(wy)}, loaded as {norm(ry)}", "affine inverse; stored value = y − range minimum ≥ 0")
        else:
            ok = False
            rep.violation(f"{P}.R3", rcon, f"y stored as {norm(wy)}, loaded as {norm(ry)}",
                          f"loading a stored point gives y' = {comp} instead of y", f"{rel}:{rfn.lineno}")
    except (alg.NotAlgebraic, TypeError) as e:
        ok = False
        rep.inconclusive(f"{P}.R3", wcon, f"{norm(wy) if wy is not None else '?'} / {norm(ry) if ry is not None else '?'}", f"y offset not affine: {e}", f"{rel}:{wfn.lineno}")
    if ok:
        rep.ok(f"{P}.R3", wcon, f"header {header} bytes: {[f'{o:#x}:{f}' for o, s, f in wfields]}", "writer and reader agree field by field; points from the end of the header")
    # documentation offsets
    doc = docs.offset_rows(tables, "Sample envelope chunk")
    want = {"`Sample envelope flags`_": "self.bitmask", "Controller number": "self.ctl_index", "Gain percentage": "self.gain_pct",
            "Velocity": "self.velocity", "Number of points": "len(self.points)", "Sustain point": "self.sustain_point",
            "Loop start point": "self.loop_start_point", "Loop end point": "self.loop_end_point"}
    nd = 0
    for o, typ, purpose in doc:
        for key, field in want.items():
            if purpose.startswith(key):
                nd += 1
                w = wmap.get(o)
                if w is not None and w[1] == field:
                    rep.ok(f"{P}.R3", wcon, f"{field} at {o:#x}", f"= documented '{key}'")
                else:
                    rep.violation(f"{P}.R3", wcon, f"{field} at {[k for k, v in wmap.items() if v[1] == field]}",
                                  f"the format document places '{key}' at {o:#x}", f"{rel}:{wfn.lineno}")
    pt = [o for o, typ, purpose in doc if purpose.startswith("X position of point 1")]
    if pt:
        if pt[0] == header:
            rep.ok(f"{P}.R3", wcon, f"first point at {header:#x}", "= documented offset")
        else:
            rep.violation(f"{P}.R3", wcon, f"first point at {header:#x}", f"documented at {pt[0]:#x}", f"{rel}:{wfn.lineno}")
    rep.count("envelope_documented_offsets", nd, 8)
    # bitmask pair in the bit domain
    g, s = env.getters.get("bitmask"), env.setters.get("bitmask")
    if g is None or s is None:
        raise AnchorMissing("Envelope.bitmask")
    try:
        e1 = BitEval(repo, env, {"self.enable": BV.term("enable", 1), "self.sustain": BV.term("sustain", 1), "self.loop": BV.term("loop", 1)})
        word = e1.run(stmts_of(g))
        sp = [a.arg for a in s.args.args if a.arg != "self"][0]
        e2 = BitEval(repo, env, {sp: word})
        e2.run(stmts_of(s))
        bad = [k for k in ("enable", "sustain", "loop") if bits.low_bits_of_single_term(e2.env.get(f"self.{k}", BV.const(0))) != (k, 1)]
        foreign = sorted(word.deps() - {"enable", "sustain", "loop"})
        if foreign:
            raise Unsupported(f"packed flags depend on terms that are not flags: {foreign}")
        if not bad and not any(bits.is_top(l) for l in word.lanes):
            rep.ok(f"{P}.R3", f"{rel}:Sampler.Envelope.bitmask", f"{word.show(4)}", "enable/sustain/loop pack and unpack as bits 0/1/2")
        else:
            rep.violation(f"{P}.R3", f"{rel}:Sampler.Envelope.bitmask", f"packed {word.show(4)}; wrong on read-back: {bad}",
                          "envelope flags are not unpacked from the bits they were packed into", f"{rel}:{g.lineno}")
    except Unsupported as e:
        rep.inconclusive(f"{P}.R3", f"{rel}:Sampler.Envelope.bitmask", "", f"not evaluable: {e}", f"{rel}:{g.lineno}")


# -------------------------------------------------------------------------------- R4
def order_of_param(e: ast.expr, sp: str) -> bool:
    """`e` is a recognised reordering / selection of the parameter `sp` (reversed(value), value[1:], ...)."""
    if isinstance(e, ast.Call) and norm(e.func) in ("reversed", "sorted") and e.args:
        return norm(e.args[0]) == sp or order_of_param(e.args[0], sp)
    if isinstance(e, ast.Subscript) and isinstance(e.slice, ast.Slice):
        return norm(e.value) == sp or order_of_param(e.value, sp)
    return False


def note_map(repo: Repo, rep, P: str):
    samp, W, R = _sampler(repo)
    nm = samp.nested["NoteSampleMap"]
    rel = samp.file.rel
    g, s = nm.getters.get("bytes"), nm.setters.get("bytes")
    if g is None or s is None:
        raise AnchorMissing("NoteSampleMap.bytes")
    gs = " ".join(norm(x) for x in stmts_of(g))
    ss = " ".join(norm(x) for x in stmts_of(s))
    sp = [a.arg for a in s.args.args if a.arg != "self"][0]

    def order_of(e: ast.expr, what: str) -> str:
        """'same' when `e` enumerates the map's keys / values in the map's own order, 'reordered' for a recognised reordering or
        selection, '?' otherwise."""
        while isinstance(e, ast.Call) and norm(e.func) in ("list", "tuple", "iter") and len(e.args) == 1:
            e = e.args[0]
        t = norm(e)
        if what == "keys" and t in ("self.keys()", "self"):
            return "same"
        if what == "values" and t == "self.values()":
            return "same"
        if isinstance(e, (ast.ListComp, ast.GeneratorExp)) and len(e.generators) == 1 and not e.generators[0].ifs \
                and isinstance(e.generators[0].target, ast.Name):
            v = e.generators[0].target.id
            inner = order_of(e.generators[0].iter, "keys")
            if what == "values" and norm(e.elt) == f"self[{v}]":
                return inner
            inner_same = order_of(e.generators[0].iter, what)
            if norm(e.elt) == v:
                return inner_same
        if isinstance(e, ast.Call) and norm(e.func) in ("reversed", "sorted") and e.args:
            return "reordered" if order_of(e.args[0], what) in ("same", "reordered") else "?"
        if isinstance(e, ast.Subscript) and isinstance(e.slice, ast.Slice):
            return "reordered" if order_of(e.value, what) in ("same", "reordered") else "?"
        return "?"
    g_ret = [st.value for st in stmts_of(g) if isinstance(st, ast.Return)]
    g_ord = "?"
    if len(stmts_of(g)) == 1 and g_ret and isinstance(g_ret[0], ast.Call) and norm(g_ret[0].func) in ("bytes", "bytearray") and len(g_ret[0].args) == 1:
        g_ord = order_of(g_ret[0].args[0], "values")
    s_ord = "?"
    body = [st for st in stmts_of(s) if not (isinstance(st, ast.Expr) and isinstance(st.value, ast.Constant))]
    # notes = list(self); self.update(zip(notes, value)): once-bound locals are written at their use
    if len(body) > 1 and all(isinstance(st, ast.Assign) and len(st.targets) == 1 and isinstance(st.targets[0], ast.Name) for st in body[:-1]):
        from ..packed import single_defs as _sd2, resolve_names as _rn2
        import copy as _copy2
        sd2 = _sd2(s)
        last = _copy2.deepcopy(body[-1])
        if isinstance(last, ast.Expr):
            last.value = _rn2(last.value, sd2)
        elif isinstance(last, ast.For):
            last.iter = _rn2(last.iter, sd2)
        body = [last]
    pairs = None
    if len(body) == 1 and isinstance(body[0], ast.For) and isinstance(body[0].target, ast.Tuple) and len(body[0].target.elts) == 2 \
            and all(isinstance(x, ast.Name) for x in body[0].target.elts) and len(body[0].body) == 1 and not body[0].orelse:
        k, v = (x.id for x in body[0].target.elts)
        st = body[0].body[0]
        if isinstance(st, ast.Assign) and len(st.targets) == 1 and norm(st.targets[0]) == f"self[{k}]" and norm(st.value) == v:
            pairs = body[0].iter
    elif len(body) == 1 and isinstance(body[0], ast.Expr) and isinstance(body[0].value, ast.Call) and norm(body[0].value.func) == "self.update" \
            and len(body[0].value.args) == 1 and not body[0].value.keywords:
        pairs = body[0].value.args[0]
        while isinstance(pairs, ast.Call) and norm(pairs.func) in ("dict", "list", "tuple") and len(pairs.args) == 1 and not pairs.keywords:
            pairs = pairs.args[0]
    if isinstance(pairs, ast.Call) and norm(pairs.func) == "zip" and len(pairs.args) == 2 and not pairs.keywords:
        ko = order_of(pairs.args[0], "keys")
        s_ord = ko if norm(pairs.args[1]) == sp else ("reordered" if ko != "?" and order_of_param(pairs.args[1], sp) else "?")
    if "?" in (g_ord, s_ord):
        rep.inconclusive(f"{P}.R4", f"{rel}:Sampler.NoteSampleMap.bytes", f"{gs} / {ss}", "note map (de)serialisation shape not recognised",
                         f"{rel}:{g.lineno}")
    elif g_ord == "same" and s_ord == "same":
        rep.ok(f"{P}.R4", f"{rel}:Sampler.NoteSampleMap.bytes", "bytes(self.values()) ↔ zip(self.keys(), value)", "same key order both ways")
    else:
        rep.violation(f"{P}.R4", f"{rel}:Sampler.NoteSampleMap.bytes", f"{gs} / {ss}",
                      "the note map must be serialised and deserialised in the same key order", f"{rel}:{g.lineno}")
    le = LenEval(repo, samp, {})
    try:
        n = le.container_size(nm)
        rep.instances["note_map_keys"] = n[0]
        if n == (119, 119):
            rep.ok(f"{P}.R4", f"{rel}:Sampler.NoteSampleMap", "119 keys (C0 … a9)", nontrivial=False)
        else:
            rep.info(f"{P}.R4", f"{rel}:Sampler.NoteSampleMap", f"{n} keys")
    except Unknown as e:
        rep.inconclusive(f"{P}.R4", f"{rel}:Sampler.NoteSampleMap", "", f"size unknown: {e}", f"{rel}:{nm.node.lineno}")


# -------------------------------------------------------------------------------- dispatch
def chunk_dispatch(repo: Repo, rep, P: str):
    """Envelope chunk numbers dispatch to the attributes they were written from."""
    samp, W, R = _sampler(repo)
    rel = samp.file.rel
    inst = instance_classes(repo, samp)
    from .. import inline
    lc = _nm(repo, samp, "load_chunk")
    wf = inline.normalize(repo, samp, repo.own_method(samp, "specialized_iff_chunks"), aliases=True)     # `envs = self.effect_control_envelopes` read through
    rep.func("rv.modules.sampler.Sampler.specialized_iff_chunks / load_chunk")
    # writer: which attributes' .chunks() are yielded
    written = []
    for n in walk_no_nested(wf):
        if isinstance(n, ast.YieldFrom) and isinstance(n.value, ast.Call) and isinstance(n.value.func, ast.Attribute) \
                and n.value.func.attr == "chunks" and norm(n.value.func.value).startswith("self."):
            written.append(norm(n.value.func.value))
    from .. import chnm as chnm_mod
    n_ok = 0
    lcon = f"{rel}:Sampler.load_chunk"
    for attr in written:
        if attr.startswith("self.effect_control_envelopes["):
            continue
        cls = inst.get(attr)
        if cls is None:
            continue
        try:
            k = repo.fold(repo.lookup(cls, "chnm")[2], ci=cls)
        except Exception:
            k = None
        if not isinstance(k, int):
            rep.inconclusive(f"{P}.R3", lcon, attr, "chunk number of the envelope class not constant", f"{rel}:{lc.lineno}")
            continue
        tgt, _ = chnm_mod.reader_target(repo, samp, k)
        if tgt.startswith("?"):
            rep.inconclusive(f"{P}.R3", lcon, f"{attr} written as chunk {k:#x}", "reader dispatch not followed: " + tgt[1:], f"{rel}:{lc.lineno}")
            continue
        if tgt == attr[len("self."):]:
            n_ok += 1
            rep.ok(f"{P}.R3", lcon, f"chnm == {k:#x} → {attr}.load_chdt", "same attribute as written")
        else:
            rep.violation(f"{P}.R3", lcon, f"{attr} written as chunk {k:#x}; loaded into `{tgt or 'nothing'}`",
                          f"the envelope written from {attr} is not loaded back into {attr}", f"{rel}:{lc.lineno}")
    # effect control envelopes: constructed with 0x105+k, dispatched to the list position they were written from
    init = _nm(repo, samp, "__init__")
    ctor = []
    for n in walk_no_nested(init):
        if isinstance(n, ast.Assign) and norm(n.targets[0]) == "self.effect_control_envelopes" and isinstance(n.value, ast.List):
            for e in n.value.elts:
                if isinstance(e, ast.Call) and e.args:
                    try:
                        ctor.append(repo.fold(e.args[0], ci=samp))
                    except NotConst:
                        ctor.append(None)
    yielded = [a for a in written if a.startswith("self.effect_control_envelopes[")]
    if not ctor or None in ctor:
        rep.inconclusive(f"{P}.R3", lcon, "self.effect_control_envelopes = …", "construction of the effect-control envelopes not recognised", f"{rel}:{init.lineno}")
    else:
        bad = []
        for idx, k in enumerate(ctor):
            tgt, _ = chnm_mod.reader_target(repo, samp, k)
            if tgt != f"effect_control_envelopes[{idx}]":
                bad.append((idx, k, tgt))
        # what the writer yields must be visible: an unread `yield from <something else>` may hold the envelopes
        opaque = [n for n in walk_no_nested(wf) if isinstance(n, ast.YieldFrom) and not (
            isinstance(n.value, ast.Call) and isinstance(n.value.func, ast.Attribute) and (norm(n.value.func.value).startswith("self.") or
                                                                                           norm(n.value.func.value).startswith("super(") or
                                                                                           norm(n.value.func.value) in ("self", "chunk")))]
        if not bad and len(yielded) == len(ctor):
            n_ok += len(ctor)
            rep.ok(f"{P}.R3", lcon, f"effect_control_envelopes[i] for {[hex(c) for c in ctor]}", "effect-control envelopes dispatch by index")
        elif any(t.startswith("?") for _, _, t in bad) or (not bad and opaque):
            rep.inconclusive(f"{P}.R3", lcon, f"constructed {[hex(c) for c in ctor]}, yielded {len(yielded)}, {bad[:2]}",
                             "writer or reader dispatch of the effect-control envelopes not followed", f"{rel}:{lc.lineno}")
        else:
            rep.violation(f"{P}.R3", lcon, f"constructed {[hex(c) for c in ctor]}, yielded {len(yielded)}, mismatches {bad[:2]}",
                          "effect-control envelope chunk numbers do not map back to the list positions they were written from", f"{rel}:{lc.lineno}")
    rep.count("envelope_dispatches", n_ok, 7)
    # instrument / options / effect
    try:
        oc = repo.fold(repo.lookup(samp, "options_chnm")[2], ci=samp)
    except Exception:
        oc = None
    for k, want, what in ((0, "instrument", "instrument record"), (oc, "options", "options"), (0x10A, "effect", "effect synth")):
        if k is None:
            continue
        tgt, _ = chnm_mod.reader_target(repo, samp, k)
        if tgt == want:
            rep.ok(f"{P}.R3", lcon, f"chnm == {k:#x} → {want}", what, nontrivial=False)
        elif tgt.startswith("?"):
            rep.inconclusive(f"{P}.R3", lcon, f"chnm == {k:#x}", "reader dispatch not followed: " + tgt[1:], f"{rel}:{lc.lineno}")
        else:
            rep.violation(f"{P}.R3", lcon, f"chnm == {k:#x} → `{tgt or 'nothing'}`", f"{what} chunk is no longer dispatched", f"{rel}:{lc.lineno}")
    # effect: written as CHNM 0x10a with Synth bytes, loaded through read_sunvox_file
    wsrc = norm(wf)
    from ..packed import single_defs as _sd_e, resolve_names as _rn_e
    reads, other_effect_stores = [], []
    for mname in list(samp.methods):
        if mname == "__init__":
            continue
        try:
            mfn = repo.own_method(samp, mname)          # normal form: private (also inherited) helpers read through
        except Exception:
            mfn = samp.methods[mname]
        d_e = _sd_e(mfn)
        for n in ast.walk(mfn):
            if isinstance(n, ast.Assign) and norm(n.targets[0]) == "self.effect":
                v_e = _rn_e(n.value, d_e)
                if isinstance(v_e, ast.Call) and norm(v_e.func) == "read_sunvox_file":
                    reads.append(n)
                elif isinstance(v_e, ast.Call):
                    other_effect_stores.append(norm(v_e)[:80])
    d_w = _sd_e(wf)

    def _is_effect_write(n, defs_) -> bool:
        if not (isinstance(n, ast.Call) and isinstance(n.func, ast.Attribute) and n.func.attr in ("write_to", "read")):
            return False
        return norm(_rn_e(n.func.value, defs_)) == "self.effect"          # also through `effect = self.effect`
    writes = [n for n in ast.walk(wf) if _is_effect_write(n, d_w)]
    if not writes:
        # the effect may be written by a helper the normal form did not reach (a callee picked at run time)
        writes = [n for mname, mfn in samp.methods.items() for n in ast.walk(mfn) if _is_effect_write(n, _sd_e(mfn))]
        if writes and reads:
            rep.inconclusive(f"{P}.R3", f"{rel}:Sampler.specialized_iff_chunks", "effect chunk",
                             "the effect is serialised in a helper that the writer reaches through a computed callee", rel)
            writes = reads = None
    if writes is None:
        pass
    elif writes and reads:
        rep.ok(f"{P}.R3", f"{rel}:Sampler.specialized_iff_chunks", "effect: write_to bytes ↔ read_sunvox_file", "embedded effect round-trips as a synth")
    elif writes and other_effect_stores:
        rep.inconclusive(f"{P}.R3", f"{rel}:Sampler.load_chunk", "; ".join(other_effect_stores)[:160],
                         "the embedded effect is produced by a call that is not read through to read_sunvox_file", rel)
    else:
        rep.violation(f"{P}.R3", f"{rel}:Sampler.specialized_iff_chunks", "effect chunk", "embedded effect is not written as chunk 0x10a / not loaded through read_sunvox_file",
                      f"{rel}:{wf.lineno}")


def slot_index_rule(repo: Repo, rep, P: str):
    """Sample chunks are numbered by the slot's own index in self.samples (slots stay at their indices)."""
    samp, W, R = _sampler(repo)
    rel = samp.file.rel
    fn = _nm(repo, samp, "sample_data_chunks")
    con = f"{rel}:Sampler.sample_data_chunks"
    loops = [n for n in walk_no_nested(fn) if isinstance(n, ast.For)]
    ok = False
    detail = ""
    for lp in loops:
        it = lp.iter
        if isinstance(it, ast.Call) and norm(it.func) == "enumerate" and isinstance(lp.target, ast.Tuple) and len(lp.target.elts) == 2:
            ivar, svar = norm(lp.target.elts[0]), norm(lp.target.elts[1])
            src = norm(it.args[0])
            start = norm(it.args[1]) if len(it.args) > 1 else "0"
            calls = [c for c in ast.walk(lp) if isinstance(c, ast.Call) and norm(c.func) == "self.sample_chunks"]
            if src == "self.samples" and start == "0" and calls and [norm(a) for a in calls[0].args] == [ivar, svar]:
                ok = True
            else:
                detail = f"enumerate({src}, {start}) → sample_chunks({', '.join(norm(a) for a in calls[0].args) if calls else '?'})"
    if ok:
        rep.ok(f"{P}.R2", con, "for i, sample in enumerate(self.samples): … self.sample_chunks(i, sample)", "chunk numbers follow the slot index")
    elif not detail:
        rep.inconclusive(f"{P}.R2", con, norm(fn)[:160], "how the sample chunks are numbered (no enumerate loop that calls sample_chunks) is not recognised",
                         f"{rel}:{fn.lineno}")
    else:
        rep.violation(f"{P}.R2", con, detail or norm(fn)[:160],
                      "sample chunks must be numbered by the sample's index in self.samples itself; enumerating a filtered/compacted "
                      "sequence moves samples to lower slots when earlier slots are empty (the note map then points at the wrong samples)",
                      f"{rel}:{fn.lineno}")
    # reader: slot index written back at the same index
    from ..packed import single_defs, resolve_names
    lmf, ldf = _nm(repo, samp, "load_sample_meta"), _nm(repo, samp, "load_sample_data")
    lm = norm(lmf)
    defs = single_defs(lmf)
    filled = None            # the local whose fields the reader fills, stored into self.samples[...]
    for n in walk_no_nested(lmf):
        if isinstance(n, ast.Assign) and any(isinstance(t, ast.Subscript) and norm(t.value) == "self.samples" for t in n.targets):
            val = resolve_names(n.value, defs)
            if isinstance(val, ast.Call) and norm(val.func) == "self.Sample" and not val.args:
                names = [t.id for t in n.targets if isinstance(t, ast.Name)] + ([n.value.id] if isinstance(n.value, ast.Name) else [])
                filled = names[0] if names else None
    meta_ok = filled is not None and any(isinstance(n, ast.Attribute) and isinstance(n.ctx, ast.Store) and norm(n.value) == filled
                                         for n in ast.walk(lmf))
    data_ok = False
    for n in walk_no_nested(ldf):
        if isinstance(n, ast.Assign) and len(n.targets) == 1 and isinstance(n.targets[0], ast.Name) and isinstance(n.value, ast.Subscript) \
                and norm(n.value.value) == "self.samples":
            v = n.targets[0].id
            data_ok = any(isinstance(m, ast.Attribute) and isinstance(m.ctx, ast.Store) and norm(m.value) == v and m.attr == "data"
                          for m in ast.walk(ldf))
    if meta_ok and data_ok:
        rep.ok(f"{P}.R2", f"{rel}:Sampler.load_sample_meta", "self.samples[index] = self.Sample()", "loaded into the slot its chunk number names")
    else:
        rep.violation(f"{P}.R2", f"{rel}:Sampler.load_sample_meta", lm[:160], "a sample must be stored at the slot index derived from its chunk number", rel)


def legacy_upgrade_rule(repo: Repo, rep, P: str):
    """_upgrade_envelopes copies each legacy field into the field of the same name on the same envelope."""
    samp, W, R = _sampler(repo)
    rel = samp.file.rel
    from .. import inline as _inl
    # private helpers of the envelope objects (`self.volume_envelope._restore_legacy_settings()`) are read through as well
    fn = _inl.normalize(repo, samp, repo.own_method(samp, "_upgrade_envelopes"), aliases=True, receivers=instance_classes(repo, samp))
    con = f"{rel}:Sampler._upgrade_envelopes"
    n = 0
    for a in walk_no_nested(fn):
        if isinstance(a, ast.Assign) and len(a.targets) == 1 and isinstance(a.targets[0], ast.Attribute) and isinstance(a.value, ast.Attribute) \
                and a.value.attr.startswith("_legacy_"):
            n += 1
            t, v = a.targets[0], a.value
            same_recv = norm(t.value) == norm(v.value)
            same_field = v.attr[len("_legacy_"):] == t.attr
            if same_recv and same_field:
                rep.ok(f"{P}.R5", con, norm(a), "legacy field → field of the same name")
            else:
                rep.violation(f"{P}.R5", con, norm(a),
                              f"the legacy value `{v.attr}` of `{norm(v.value)}` is copied into `{norm(t)}`: when a pre-envelope instrument is "
                              "converted this field gets another field's value", f"{rel}:{a.lineno}")
    rep.count("legacy_field_copies", n, 8)
    src = norm(fn)
    for env in ("vol", "pan"):
        pass
    # y values are rescaled with the envelope's own range
    if src.count("* 512") >= 2 and ".range[0]" in src:
        rep.ok(f"{P}.R5", con, "legacy y * 0x200 + range[0]", "legacy point heights rescaled into the envelope's range", nontrivial=False)
    from .. import inline
    from ..guards import canon
    flf = inline.flatten(repo, samp, repo.own_method(samp, "finalize_load", raw=True), exclude=("_upgrade_envelopes",))
    fl = norm(flf)
    guarded = False
    for n in ast.walk(flf):
        if isinstance(n, ast.If) and canon(n.test) in ("not (self.volume_envelope.loaded)",) \
                and any(isinstance(c, ast.Call) and norm(c.func) == "self._upgrade_envelopes" for b in n.body for c in ast.walk(b)):
            guarded = True
        if isinstance(n, ast.If) and canon(n.test) == "self.volume_envelope.loaded" \
                and any(isinstance(c, ast.Call) and norm(c.func) == "self._upgrade_envelopes" for b in n.orelse for c in ast.walk(b)):
            guarded = True
    if guarded:
        rep.ok(f"{P}.R5", f"{rel}:Sampler.finalize_load", "if not volume_envelope.loaded: _upgrade_envelopes()", "conversion runs exactly when no envelope chunk was present")
    else:
        rep.violation(f"{P}.R5", f"{rel}:Sampler.finalize_load", fl[:160], "legacy envelopes must be converted when (and only when) the file has no envelope chunks", rel)


def sampler_chunk_numbers(repo: Repo, rep, P: str):
    """Every chunk number the Sampler writes is loaded into the field it came from, and vice versa (shared with C02 R3)."""
    from .. import chnm
    samp, W, R = _sampler(repo)
    rel = samp.file.rel
    w = chnm.WriterNumbers(repo, samp)
    nums = w.run()
    for msg, node in w.problems:
        rep.inconclusive(f"{P}.R3", f"{rel}:Sampler.specialized_iff_chunks", msg,
                         "the set of chunk numbers the Sampler writes was not derived from the slot indices (writer construct not modelled)",
                         f"{rel}:{getattr(node, 'lineno', 0)}")
    n = 0
    for x in nums:
        for k in sorted({x.lo, x.hi, min(x.hi, x.lo + x.step)}):
            n += 1
            tgt, _ = chnm.reader_target(repo, samp, k)
            if tgt.startswith("?") or (tgt != x.field and not re.fullmatch(r"\w+(\[\w+\])?", x.field)):
                rep.inconclusive(f"{P}.R3", f"{rel}:Sampler.load_chunk", f"chunk {k:#x}: written from `{x.field}`, loaded into `{tgt}`",
                                 "reader dispatch / written attribute not recognised", rel)
            elif tgt != x.field:
                rep.violation(f"{P}.R3", f"{rel}:Sampler.load_chunk", f"chunk {k:#x}: written from `{x.field}`, loaded into `{tgt or 'nothing'}`",
                              "a Sampler chunk is not loaded back into the field it was written from", rel)
            else:
                rep.ok(f"{P}.R3", f"{rel}:Sampler.load_chunk", f"chunk {k:#x} ↔ {x.field}", nontrivial=False)
    rep.count("sampler_chunk_numbers", n, 16)


def _cursor_rule(repo: Repo, R, rd: ast.FunctionDef) -> str:
    """_read(spec, length, default): on the path that decodes, the bytes are data[index : index + length] and the cursor ends at
    index + length; on the path that returns the default the cursor is unchanged.  Straight-line symbolic evaluation of every path
    (private helpers such as a `_peek` inlined), values as polynomials in the entry cursor I and the length L."""
    from .. import inline
    fn = inline.normalize(repo, R, rd)
    params = [a.arg for a in fn.args.args if a.arg != "self"]
    if len(params) < 2:
        return "?parameters"
    lparam = params[1]
    g = CFG(fn)
    paths = g.paths(g.entry, [g.exit], max_visits=1, limit=500, labels_excluded=("exc",))
    if not paths:
        return "?paths"
    decoded = 0
    for path in paths:
        env: Dict[str, alg.Poly] = {}
        cur = alg.Poly.sym("I")
        slices: Dict[str, Tuple[alg.Poly, alg.Poly]] = {}
        ret = None

        def leaf(e):
            if norm(e) == "self._index":
                return cur
            if isinstance(e, ast.Name) and e.id == lparam:
                return alg.Poly.sym("L")
            if isinstance(e, ast.Name) and e.id in env:
                return env[e.id]
            return None
        for nid, lab in path:
            n = g.nodes[nid]
            if n.kind != "stmt":
                continue
            st = n.ast
            try:
                if isinstance(st, ast.Assign) and len(st.targets) == 1:
                    t, v = st.targets[0], st.value
                    if isinstance(v, ast.Subscript) and isinstance(v.slice, ast.Slice) and norm(v.value) == "self._data" and isinstance(t, ast.Name):
                        if v.slice.lower is None or v.slice.upper is None or v.slice.step is not None:
                            return "?" + norm(st)
                        slices[t.id] = (alg.to_poly(v.slice.lower, leaf), alg.to_poly(v.slice.upper, leaf))
                    elif norm(t) == "self._index":
                        cur = alg.to_poly(v, leaf)
                    elif isinstance(t, ast.Name):
                        try:
                            env[t.id] = alg.to_poly(v, leaf)
                        except alg.NotAlgebraic:
                            env.pop(t.id, None)
                            if isinstance(v, ast.Name) and v.id in slices:
                                slices[t.id] = slices[v.id]
                elif isinstance(st, ast.AugAssign) and norm(st.target) == "self._index":
                    d = alg.to_poly(st.value, leaf)
                    if isinstance(st.op, ast.Add):
                        cur = cur + d
                    elif isinstance(st.op, ast.Sub):
                        cur = cur - d
                    else:
                        return "?" + norm(st)
                elif isinstance(st, ast.Return):
                    ret = st.value
            except alg.NotAlgebraic:
                return "?" + norm(st)
        I, L = alg.Poly.sym("I"), alg.Poly.sym("L")
        unp = [c for c in ast.walk(ret) if isinstance(c, ast.Call) and norm(c.func) in ("unpack", "struct.unpack")] if ret is not None else []
        if unp:
            decoded += 1
            buf = unp[0].args[1] if len(unp[0].args) > 1 else None
            if not (isinstance(buf, ast.Name) and buf.id in slices):
                return "?" + norm(ret)
            lo, hi = slices[buf.id]
            if lo != I or hi != I + L:
                return f"decodes data[{lo} : {hi}]"
            if cur != I + L:
                return f"cursor ends at {cur}"
        elif cur != I:
            return f"default path moves the cursor to {cur}"
    return "ok" if decoded else "?no decoding path"


def helper_siblings(repo: Repo, rep, P: str):
    samp, W, R = _sampler(repo)
    rel = samp.file.rel
    wm, rm = layout.struct_methods(repo, W), layout.struct_methods(repo, R)
    exp = {"int8": "<b", "uint8": "<B", "int16": "<h", "uint16": "<H", "int32": "<i", "uint32": "<I"}
    for name, fmt in exp.items():
        for side, m, cls in (("writer", wm, "_StructWriter"), ("reader", rm, "_StructReader")):
            got = m.get(name)
            if got is None:
                continue
            if got[0] == fmt:
                rep.ok(f"{P}.R1", f"{rel}:{cls}.{name}", fmt, nontrivial=False)
            else:
                rep.violation(f"{P}.R1", f"{rel}:{cls}.{name}", got[0], f"{cls}.{name} must use format {fmt!r}", rel)
    # char(): writer pads/cuts to width; reader strips NULs
    ch = W.methods.get("char")
    if ch is not None and "value.ljust(width, b'\\x00')[:width]" in norm(ch):
        rep.ok(f"{P}.R1", f"{rel}:_StructWriter.char", "value.ljust(width, b'\\0')[:width]", "exactly `width` bytes")
    else:
        rep.violation(f"{P}.R1", f"{rel}:_StructWriter.char", norm(ch)[:100] if ch else "missing", "char() must emit exactly `width` bytes", rel)
    rd = R.methods.get("_read")
    verdict = _cursor_rule(repo, R, rd) if rd is not None else "missing"
    if verdict == "ok":
        rep.ok(f"{P}.R1", f"{rel}:_StructReader._read", "advances by the field length", nontrivial=False)
    elif verdict.startswith("?"):
        rep.inconclusive(f"{P}.R1", f"{rel}:_StructReader._read", verdict[1:], "cursor arithmetic of _read not recognised", rel)
    else:
        rep.violation(f"{P}.R1", f"{rel}:_StructReader._read", "", "_read must advance the cursor by the field length", rel)
