"""C17 — objects are isolated: no hidden shared state between instances or clones."""

from __future__ import annotations

import ast
from typing import Dict, List, Optional, Set, Tuple

from ..idioms import INF, MUTATING_METHODS, copy_depth
from ..model import AnchorMissing, ClassInfo, Repo, attr_chain, norm, stmts_of, walk_no_nested

LEVEL = "other"
EXPLANATION = (
    "escape analysis for class-level and module-level mutable values in rv: a census of every class attribute "
    "bound to a list/dict/set/constructed object; every load of such an attribute through self/cls/the class "
    "name is classified (read-only use, copied, stored into instance state un-copied, mutated in place); every "
    "attribute that some method mutates in place through `self` must be bound to a fresh container by a "
    "constructor of the class (and subclass constructors must reach it through super().__init__); no mutable "
    "default arguments; descriptor objects reached through the per-class controller/option tables are written "
    "only by the metaclass; module-level registries have a fixed set of writers; clone() implementations return "
    "the result of loading freshly written bytes. Covers all pairs of objects because sharing can only arise from "
    "the enumerated class-/module-level values."
)
DECLINED = []
ASSUMPTIONS = ["instances share state only through class attributes, module globals, default arguments or explicit aliasing "
               "(no C extensions, no global caches outside rv)"]

READONLY_METHODS = {"items", "values", "keys", "get", "copy", "index", "count", "format", "join", "encode", "decode", "startswith",
                    "endswith", "union", "intersection", "issubset", "__contains__", "__getitem__", "__len__", "__iter__"}
IMMUTABLE_CTORS = {"tuple", "frozenset", "int", "str", "bytes", "float", "bool", "namedtuple", "TypeVar", "re.compile", "logging.getLogger",
                   "getLogger", "Struct", "struct.Struct", "attr", "attributes", "Controller", "Option", "property", "staticmethod", "classmethod", "field"}
META_OK = ("ModuleMeta",)
MODULE_GLOBAL_WRITERS = {"MODULE_CLASSES": {"src/python/rv/modules/meta.py:ModuleMeta.__init_registry": "class registration at import"}}


def run(repo: Repo, rep, tier: str):
    rep.count("files_in_scope", repo.consult_all())
    census = mutable_census(repo, rep, "C17")
    escape_rule(repo, rep, "C17", census)
    tuple_elements_rule(repo, rep, "C17")
    memoized_rule(repo, rep, "C17")
    fresh_state_rule(repo, rep, "C17", census)
    shared_class_state_rule(repo, rep, "C17", census)
    constructor_binding_rule(repo, rep, "C17")
    default_args_rule(repo, rep, "C17")
    descriptor_rule(repo, rep, "C17")
    globals_rule(repo, rep, "C17")
    clone_rules(repo, rep, "C17")
    # an operation on one project must not write into another project's modules: foreign operands are refused first
    from . import c07
    c07.ownership_refusal(repo, rep, "C17")
    from . import c15
    c15.user_defined_fresh(repo, rep, "C17", "R5u")


def _rv_classes(repo: Repo) -> List[ClassInfo]:
    return sorted([c for c in repo.all_classes() if c.file.modname.startswith("rv") and not c.file.modname.startswith(("rv.tools", "rv._vendor"))],
                  key=lambda c: c.fq)


def is_mutable_value(repo: Repo, ci: Optional[ClassInfo], e: ast.AST) -> bool:
    if isinstance(e, (ast.List, ast.Dict, ast.Set, ast.ListComp, ast.DictComp, ast.SetComp)):
        return True
    if isinstance(e, ast.BinOp) and isinstance(e.op, (ast.Mult, ast.Add)):
        return is_mutable_value(repo, ci, e.left) or is_mutable_value(repo, ci, e.right)
    if isinstance(e, ast.Call):
        f = norm(e.func)
        if f in ("list", "dict", "set", "defaultdict", "collections.defaultdict", "bytearray", "OrderedDict", "deque"):
            return True
        if f in IMMUTABLE_CTORS or f.split(".")[-1] in IMMUTABLE_CTORS:
            return False
        k = repo.class_of_expr(e.func, ci, ci.file if ci else None)
        if k is not None and not repo.is_enum(k):
            try:
                if repo.is_subclass(k, "Controller") or k.name in ("Option",):
                    return False      # descriptors: handled by the descriptor rule
            except AnchorMissing:
                pass
            return True
    return False


def is_tuple_of_mutables(repo: Repo, ci: Optional[ClassInfo], e: ast.AST) -> bool:
    """An immutable container whose elements are mutable objects: `(K(), K())`, `tuple(map(K, …))`, `tuple(K(x) for x in …)`."""
    def elem_mutable(x) -> bool:
        return is_mutable_value(repo, ci, x)

    def ctor_mutable(f) -> bool:
        k = repo.class_of_expr(f, ci, ci.file if ci else None)
        if k is None or repo.is_enum(k):
            return False
        try:
            if repo.is_subclass(k, "Controller") or k.name in ("Option",):
                return False
        except AnchorMissing:
            pass
        return True
    if isinstance(e, ast.Tuple):
        return any(elem_mutable(x) for x in e.elts)
    if isinstance(e, ast.Call) and norm(e.func) in ("tuple", "frozenset") and len(e.args) == 1:
        a = e.args[0]
        if isinstance(a, ast.Call) and norm(a.func) == "map" and a.args:
            return ctor_mutable(a.args[0])
        if isinstance(a, (ast.GeneratorExp, ast.ListComp)):
            return elem_mutable(a.elt)
        if isinstance(a, (ast.List, ast.Tuple)):
            return any(elem_mutable(x) for x in a.elts)
        if isinstance(a, ast.BinOp) and isinstance(a.left, (ast.List, ast.Tuple)):
            return any(elem_mutable(x) for x in a.left.elts)
    return False


TUPLE_FIXTURE = "UNSET = tuple(map(Mapping, [(0, 0)] * 4))"


def tuple_elements_rule(repo: Repo, rep, P: str):
    """Elements of a class-level tuple of mutable objects must not be installed in instance state (they would be
    one object in every instance); reading their attributes or deep-copying them is fine."""
    mm = repo.cls("MetaModule", module="rv.modules.metamodule")
    fx = ast.parse(TUPLE_FIXTURE).body[0].value
    rep.count("tuple_of_mutables_fixture", int(is_tuple_of_mutables(repo, mm, fx)), 1)
    found: Dict[str, Tuple[ClassInfo, ast.AST]] = {}
    for c in _rv_classes(repo):
        if repo.is_enum(c):
            continue
        for name, val in c.assigns.items():
            if isinstance(val, ast.AST) and is_tuple_of_mutables(repo, c, val):
                found[name] = (c, val)
    rep.count("class_level_tuples_of_mutables", len(found))
    if not found:
        rep.ok(f"{P}.R2t", "rv/**", "no class-level tuple of mutable objects", nontrivial=False)
        return
    for rel, sf in sorted(repo.files.items()):
        if not sf.modname.startswith("rv") or sf.modname.startswith(("rv.tools", "rv._vendor")):
            continue
        parents: Dict[int, ast.AST] = {}
        for node in ast.walk(sf.tree):
            for ch in ast.iter_child_nodes(node):
                parents[id(ch)] = node
        for node in ast.walk(sf.tree):
            if not (isinstance(node, ast.Attribute) and node.attr in found and isinstance(node.ctx, ast.Load)):
                continue
            owner, val = found[node.attr]
            if norm(node.value).split(".")[-1] not in (owner.name, "self", "cls") and not norm(node.value).endswith(owner.name):
                continue
            # climb: subscripts / slices / list() keep the same element objects
            cur = node
            while True:
                p = parents.get(id(cur))
                if isinstance(p, ast.Subscript) and p.value is cur:
                    cur = p
                    continue
                if isinstance(p, ast.Call) and cur in p.args and norm(p.func) in ("list", "tuple", "reversed", "sorted", "iter", "copy", "copy.copy"):
                    cur = p
                    continue
                if isinstance(p, ast.Starred):
                    cur = p
                    continue
                break
            p = parents.get(id(cur))
            where = f"{rel}:{node.lineno}"
            con = f"{rel}:{owner.qualname}.{node.attr}"
            text = norm(p)[:120] if p is not None else norm(node)
            installs = False
            if isinstance(p, ast.Call) and cur in p.args:
                f = p.func
                if norm(f) in ("deepcopy", "copy.deepcopy", "len"):
                    rep.ok(f"{P}.R2t", con, text, "deep-copied / measured")
                    continue
                if isinstance(f, ast.Attribute) and f.attr in ("extend", "append", "insert", "add", "update", "setdefault", "__setitem__"):
                    installs = True
            if isinstance(p, (ast.Assign, ast.AugAssign)) and getattr(p, "value", None) is cur:
                tg = p.targets if isinstance(p, ast.Assign) else [p.target]
                if any(isinstance(t, (ast.Attribute, ast.Subscript)) for t in tg):
                    installs = True
            if isinstance(p, ast.Attribute):
                rep.ok(f"{P}.R2t", con, text, "attribute of an element is read")
                continue
            if installs:
                rep.violation(f"{P}.R2t", con, text,
                              f"elements of the class-level tuple `{owner.name}.{node.attr}` ({norm(val)[:60]}) are installed in an object's "
                              "state: the same mutable element object ends up in every instance, so editing it in one changes the others", where)
            else:
                rep.info(f"{P}.R2t", con, text, "use of a class-level tuple of mutable objects not classified")


def mutable_census(repo: Repo, rep, P: str) -> Dict[str, Dict[str, ast.AST]]:
    """class fq -> {attr: value} for class-level mutable values."""
    out: Dict[str, Dict[str, ast.AST]] = {}
    n = 0
    for c in _rv_classes(repo):
        if repo.is_enum(c):
            continue
        for name, val in c.assigns.items():
            if is_mutable_value(repo, c, val):
                out.setdefault(c.fq, {})[name] = val
                n += 1
    rep.count("class_level_mutables", n, 25)
    rep.sample({"class_level_mutables": {k.split(".")[-1]: sorted(v) for k, v in list(out.items())[:12]}})
    return out


def _inherited_mutables(repo: Repo, c: ClassInfo, census) -> Dict[str, Tuple[ClassInfo, ast.AST]]:
    out: Dict[str, Tuple[ClassInfo, ast.AST]] = {}
    try:
        mro = repo.mro(c)
    except AnchorMissing:
        mro = [c]
    for k in reversed(mro):
        # a later (more derived) non-mutable rebinding hides the mutable one
        for name in k.assigns:
            out.pop(name, None)
        for name, val in census.get(k.fq, {}).items():
            out[name] = (k, val)
    return out


def _instance_assigned(repo: Repo, c: ClassInfo) -> Dict[str, List[Tuple[ClassInfo, ast.Assign]]]:
    """self.X assignments in the __init__ methods along the MRO."""
    out: Dict[str, List[Tuple[ClassInfo, ast.Assign]]] = {}
    try:
        mro = repo.mro(c)
    except AnchorMissing:
        mro = [c]
    for k in mro:
        init = k.methods.get("__init__")
        if init is None:
            continue
        for n in walk_no_nested(init):
            if isinstance(n, ast.Assign):
                for t in n.targets:
                    for tt in (t.elts if isinstance(t, (ast.Tuple, ast.List)) else [t]):
                        ch = attr_chain(tt)
                        if ch and ch[0] == "self" and len(ch) == 2:
                            out.setdefault(ch[1], []).append((k, n))
            elif isinstance(n, ast.AnnAssign) and n.value is not None:
                ch = attr_chain(n.target)
                if ch and ch[0] == "self" and len(ch) == 2:
                    out.setdefault(ch[1], []).append((k, n))
    return out


# ------------------------------------------------------------------------------------ R2
def escape_rule(repo: Repo, rep, P: str, census, only=None, rule: str = "R2", floor: int = 15):
    n_loads = 0
    seen_loads = set()
    for c in _rv_classes(repo):
        if only is not None and not only(c):
            continue
        inh = _inherited_mutables(repo, c, census)
        if not inh:
            continue
        inst = _instance_assigned(repo, c)
        fns = []
        try:
            mro_c = repo.mro(c)
        except AnchorMissing:
            mro_c = [c]
        for k in mro_c:
            for fname, fn in list(k.methods.items()) + list(k.getters.items()) + [(n2 + ".setter", v) for n2, v in k.setters.items()]:
                if fname in k.methods and not fname.endswith(".setter"):
                    try:
                        fn = repo.own_method(k, fname)          # normal form: table-driven `setattr(self, f, getattr(self, "initial_" + f))` spelled out
                    except Exception:
                        pass
                fns.append((f"{k.qualname}.{fname}" if k is not c else fname, fn))
        for fname, fn in fns:
            if c.name in META_OK:
                continue
            parents: Dict[int, ast.AST] = {}
            for node in ast.walk(fn):
                for ch in ast.iter_child_nodes(node):
                    parents[id(ch)] = node
            for node in walk_no_nested(fn):
                if not isinstance(node, ast.Attribute) or node.attr not in inh:
                    continue
                recv = norm(node.value)
                if recv not in ("self", "cls", c.name) and recv != inh[node.attr][0].name and not recv.endswith("." + inh[node.attr][0].name):
                    continue
                # instance attribute of the same name assigned fresh in a constructor ⇒ self.X is per-instance
                if recv == "self" and node.attr in inst:
                    continue
                if isinstance(node.ctx, ast.Store):
                    continue
                if (id(node), inh[node.attr][0].fq) in seen_loads:
                    continue
                seen_loads.add((id(node), inh[node.attr][0].fq))
                n_loads += 1
                owner, val = inh[node.attr]
                con = f"{c.file.rel}:{c.qualname}.{fname}"
                where = f"{c.file.rel}:{node.lineno}"
                use = _classify_use(node, parents)
                text = f"{recv}.{node.attr}  ({use[0]}: {use[1][:70]})"
                if use[0] in ("read", "copy"):
                    rep.ok(f"{P}.{rule}", con, text, f"class-level `{owner.name}.{node.attr}` is only read / copied here")
                elif use[0] == "mutate":
                    rep.violation(f"{P}.{rule}", con, text,
                                  f"the class-level value `{owner.name}.{node.attr}` is mutated in place: every instance (and every clone) "
                                  "sees the change", where)
                elif use[0] == "store":
                    rep.violation(f"{P}.{rule}", con, text,
                                  f"the class-level value `{owner.name}.{node.attr}` is stored into instance state without a copy: "
                                  "all instances share one container and mutating one changes the others", where)
                elif use[0] == "alias":
                    # local alias: follow it
                    verdict = _follow_alias(fn, use[2])
                    if verdict is None:
                        rep.ok(f"{P}.{rule}", con, text, "local alias is only read")
                    else:
                        rep.violation(f"{P}.{rule}", con, text + f" → {verdict[:80]}",
                                      f"the class-level value `{owner.name}.{node.attr}` escapes through a local alias and is stored/mutated",
                                      where)
                else:
                    rep.info(f"{P}.{rule}", con, text, "use not classified (argument / return)")
    rep.count("class_mutable_loads_classified", n_loads, floor)


def array_chunk_defaults_rule(repo: Repo, rep, P: str, rule: str, within: Optional[Tuple[str, ...]] = None, floor: int = 1):
    """ArrayChunk-family payload classes (curves, waveforms, harmonics, mapping tables): a class-level list default
    reaches an instance only through a copy.  `within` restricts to chunk classes nested in the named module classes."""
    class Quiet:
        def __getattr__(self, name):
            return lambda *a, **k: None
    census = mutable_census(repo, Quiet(), P)

    def only(c: ClassInfo) -> bool:
        try:
            if not repo.is_subclass(c, "ArrayChunk"):
                return False
        except AnchorMissing:
            return False
        return within is None or any(w in c.qualname.split(".") for w in within)
    escape_rule(repo, rep, P, census, only=only, rule=rule, floor=floor)


def _classify_use(node: ast.AST, parents) -> Tuple[str, str, Optional[str]]:
    p = parents.get(id(node))
    txt = norm(p) if p is not None else ""
    if p is None:
        return "other", txt, None
    if isinstance(p, ast.Attribute) and p.value is node:
        gp = parents.get(id(p))
        if isinstance(gp, ast.Call) and gp.func is p:
            if p.attr in MUTATING_METHODS:
                return "mutate", norm(gp), None
            if p.attr in ("copy",):
                return "copy", norm(gp), None
            return "read", norm(gp), None
        return "read", txt, None
    if isinstance(p, ast.Subscript) and p.value is node:
        if isinstance(p.ctx, (ast.Store, ast.Del)):
            return "mutate", norm(parents.get(id(p)) or p), None
        if isinstance(p.slice, ast.Slice) and p.slice.lower is None and p.slice.upper is None:
            return "copy", txt, None
        return "read", txt, None
    if isinstance(p, ast.Call) and node in p.args:
        f = norm(p.func)
        if f in ("list", "dict", "set", "sorted", "tuple", "deepcopy", "copy.deepcopy", "copy.copy", "copy", "frozenset"):
            return "copy", txt, None
        if f in ("len", "isinstance", "callable", "bool", "pack", "struct.pack", "max", "min", "sum", "any", "all", "enumerate", "zip", "iter", "reversed", "repr", "str"):
            return "read", txt, None
        return "other", txt, None
    if isinstance(p, ast.Starred):
        return "read", txt, None
    if isinstance(p, ast.BoolOp) and isinstance(parents.get(id(p)), (ast.Assign, ast.Return, ast.IfExp, ast.BoolOp, ast.Call, ast.keyword)):
        return _classify_use(p, parents)       # `self.default or []`: the class-level object itself can be the result
    if isinstance(p, (ast.Compare, ast.BoolOp, ast.UnaryOp, ast.IfExp, ast.If, ast.While, ast.JoinedStr, ast.FormattedValue)):
        # `x if cond else self.default[:]` handled by Subscript; bare value flowing out of IfExp is treated below
        if isinstance(p, ast.IfExp) and (p.body is node or p.orelse is node):
            return _classify_use(p, parents)
        return "read", txt, None
    if isinstance(p, (ast.For, ast.comprehension)) and getattr(p, "iter", None) is node:
        return "read", txt, None
    if isinstance(p, ast.Assign) and p.value is node:
        t = p.targets[0]
        if isinstance(t, ast.Name):
            return "alias", txt, t.id
        return "store", txt, None
    if isinstance(p, ast.AugAssign) and p.target is node:
        return "mutate", txt, None
    if isinstance(p, ast.BinOp):
        return "read", txt, None          # list + list / list * n builds a new object
    if isinstance(p, ast.Return):
        return "other", txt, None
    if isinstance(p, ast.keyword):
        return "other", txt, None
    return "other", txt, None


def _follow_alias(fn, name: str) -> Optional[str]:
    for n in walk_no_nested(fn):
        if isinstance(n, ast.Call) and isinstance(n.func, ast.Attribute) and isinstance(n.func.value, ast.Name) and n.func.value.id == name \
                and n.func.attr in MUTATING_METHODS:
            return norm(n)
        if isinstance(n, ast.Assign):
            for t in n.targets:
                if isinstance(t, ast.Subscript) and isinstance(t.value, ast.Name) and t.value.id == name:
                    return norm(n)
                if isinstance(t, ast.Attribute) and isinstance(n.value, ast.Name) and n.value.id == name:
                    return norm(n)
    return None


# ------------------------------------------------------------------------------------ R3
def fresh_state_rule(repo: Repo, rep, P: str, census):
    n = 0
    for c in _rv_classes(repo):
        if c.name in META_OK:
            continue
        mutated: Dict[str, ast.AST] = {}
        fns = list(c.methods.items()) + list(c.getters.items()) + list(c.setters.items())
        for fname, fn in fns:
            for node in walk_no_nested(fn):
                attr = None
                if isinstance(node, ast.Call) and isinstance(node.func, ast.Attribute) and node.func.attr in MUTATING_METHODS:
                    ch = attr_chain(node.func.value)
                    if ch and ch[0] == "self" and len(ch) == 2:
                        attr = ch[1]
                if isinstance(node, (ast.Assign, ast.AugAssign)):
                    tg = node.targets if isinstance(node, ast.Assign) else [node.target]
                    for t in tg:
                        if isinstance(t, ast.Subscript):
                            ch = attr_chain(t.value)
                            if ch and ch[0] == "self" and len(ch) == 2:
                                attr = ch[1]
                if attr and attr not in mutated:
                    mutated[attr] = node
        if not mutated:
            continue
        inst = _instance_assigned(repo, c)
        inh = _inherited_mutables(repo, c, census)
        for attr, node in sorted(mutated.items()):
            n += 1
            con = f"{c.file.rel}:{c.qualname}.{attr}"
            where = f"{c.file.rel}:{node.lineno}"
            if attr in inst:
                bad = None
                for k, a in inst[attr]:
                    v = a.value
                    d, src = copy_depth(v) if v is not None else (INF, None)
                    fresh = src is None or d >= 1
                    if isinstance(v, ast.Call) and not (src is not None and d == 0):
                        fresh = True
                    if v is not None and not isinstance(v, (ast.Name, ast.Attribute)) and is_mutable_value(repo, k, v):
                        fresh = True       # literal / comprehension / [x] * n build a new container
                    if isinstance(v, (ast.Constant,)):
                        fresh = True       # None / scalar placeholder, replaced before mutation
                    if isinstance(v, ast.IfExp):
                        fresh = all((copy_depth(b)[1] is None or copy_depth(b)[0] >= 1) for b in (v.body, v.orelse))
                    if not fresh:
                        bad = (k, a)
                if bad:
                    rep.violation(f"{P}.R3", con, norm(bad[1]),
                                  f"`self.{attr}` is mutated in place by {c.name} but its constructor binds it to an existing object "
                                  "(no copy): instances share it", f"{bad[0].file.rel}:{bad[1].lineno}")
                else:
                    rep.ok(f"{P}.R3", con, f"self.{attr} = {norm(inst[attr][0][1].value)[:60]}", "fresh per instance")
            elif attr in inh:
                owner, val = inh[attr]
                rep.violation(f"{P}.R3", con, f"{owner.name}.{attr} = {norm(val)[:60]}  …  {norm(node)[:60]}",
                              f"`self.{attr}` is mutated in place but no constructor of {c.name} assigns it: the object being mutated is the "
                              f"class-level value `{owner.name}.{attr}`, shared by all instances", where)
            else:
                # attribute created elsewhere (lazily / by a collaborator): acceptable if some method assigns it fresh
                assigned = False
                for k in repo.mro(c):
                    for fn2 in list(k.methods.values()) + list(k.setters.values()):
                        for x in walk_no_nested(fn2):
                            if isinstance(x, ast.Assign) and any(norm(t) == f"self.{attr}" for t in x.targets):
                                assigned = True
                if assigned or attr.startswith("__"):
                    rep.ok(f"{P}.R3", con, f"self.{attr} assigned by a method before use", "per-instance", nontrivial=False)
                elif isinstance(c.node.bases and c.node.bases[0], ast.AST) and norm(c.node.bases[0]) in ("dict", "list"):
                    rep.ok(f"{P}.R3", con, "container subclass", "", nontrivial=False)
                else:
                    rep.info(f"{P}.R3", con, norm(node)[:80], "mutated attribute has no visible constructor assignment in this class hierarchy")
        # subclasses that define __init__ must call super().__init__ so the fresh containers are created
    for c in _rv_classes(repo):
        init = c.methods.get("__init__")
        if init is None or not c.node.bases:
            continue
        try:
            bases = [b for b in repo.mro(c)[1:] if "__init__" in b.methods]
        except AnchorMissing:
            continue
        if not bases:
            continue
        calls_super = any(isinstance(x, ast.Call) and isinstance(x.func, ast.Attribute) and x.func.attr == "__init__"
                          and isinstance(x.func.value, ast.Call) and norm(x.func.value.func) == "super" for x in walk_no_nested(init))
        calls_reset = any(isinstance(x, ast.Call) and norm(x.func) == "self.reset" for x in walk_no_nested(init))
        if calls_super:
            rep.ok(f"{P}.R3", f"{c.file.rel}:{c.qualname}.__init__", "super().__init__(…)", "base constructor creates the per-instance containers", nontrivial=False)
        else:
            # does the base constructor create containers this class relies on?
            base_attrs = set(_instance_assigned(repo, bases[0]))
            own_attrs = {a for a, lst in _instance_assigned(repo, c).items() if any(k is c for k, _ in lst)}
            missing = sorted(base_attrs - own_attrs)
            if missing:
                rep.violation(f"{P}.R3", f"{c.file.rel}:{c.qualname}.__init__", f"no super().__init__(); base assigns {missing[:6]}",
                              f"{c.name}.__init__ does not call the base constructor: the per-instance state {missing[:4]} is never created "
                              "(class-level fall-backs are shared)", f"{c.file.rel}:{init.lineno}")
    rep.count("in_place_mutated_attributes", n, 10)


def _mutated_attr_names(repo: Repo) -> Dict[str, Tuple[str, ast.AST]]:
    """attribute names mutated in place anywhere in rv (directly or through a local alias) -> example site."""
    out: Dict[str, Tuple[str, ast.AST]] = {}
    for rel, sf in sorted(repo.files.items()):
        if not sf.modname.startswith("rv") or sf.modname.startswith(("rv.tools", "rv._vendor")):
            continue
        meta_fns = {id(f) for cd in ast.walk(sf.tree) if isinstance(cd, ast.ClassDef) and cd.name in META_OK
                    for f in ast.walk(cd) if isinstance(f, (ast.FunctionDef, ast.AsyncFunctionDef))}
        for fn in ast.walk(sf.tree):
            if not isinstance(fn, (ast.FunctionDef, ast.AsyncFunctionDef)) or id(fn) in meta_fns:
                continue
            alias: Dict[str, str] = {}
            for n in walk_no_nested(fn):
                if isinstance(n, ast.Assign) and len(n.targets) == 1 and isinstance(n.targets[0], ast.Name) and isinstance(n.value, ast.Attribute):
                    alias[n.targets[0].id] = n.value.attr
            for n in walk_no_nested(fn):
                recv = None
                if isinstance(n, ast.Call) and isinstance(n.func, ast.Attribute) and n.func.attr in MUTATING_METHODS:
                    recv = n.func.value
                elif isinstance(n, (ast.Assign, ast.AugAssign)):
                    for t in (n.targets if isinstance(n, ast.Assign) else [n.target]):
                        if isinstance(t, ast.Subscript):
                            recv = t.value
                        elif isinstance(t, ast.Attribute) and isinstance(t.value, ast.Subscript):
                            recv = t.value.value          # X[k].field = v changes an element held by X
                if recv is None:
                    continue
                while isinstance(recv, ast.Subscript):
                    recv = recv.value
                if isinstance(recv, ast.Attribute):
                    out.setdefault(recv.attr, (f"{rel}:{fn.name}", n))
                elif isinstance(recv, ast.Name) and recv.id in alias:
                    out.setdefault(alias[recv.id], (f"{rel}:{fn.name}", n))
    return out


def shared_class_state_rule(repo: Repo, rep, P: str, census=None, rule: str = "R3"):
    """Class-level mutables that are mutated somewhere and never re-bound per instance; containers of stateful objects."""
    if census is None:
        class Quiet:
            def __getattr__(self, name):
                return lambda *a, **k: None
        census = mutable_census(repo, Quiet(), P)
    mutated = _mutated_attr_names(repo)
    n = 0
    for c in _rv_classes(repo):
        own = census.get(c.fq, {})
        if not own or c.name in META_OK:
            continue
        for attr, val in sorted(own.items()):
            n += 1
            con = f"{c.file.rel}:{c.qualname}.{attr}"
            where = f"{c.file.rel}:{getattr(val, 'lineno', c.node.lineno)}"
            # rebinding per instance (constructor of the class or of every subclass that uses it)
            rebound = attr in _instance_assigned(repo, c)
            subclasses_rebind = False
            if not rebound:
                subs = [k for k in _rv_classes(repo) if k is not c and c in _safe_mro(repo, k)]
                subclasses_rebind = bool(subs) and all(attr in _instance_assigned(repo, k) or attr in k.assigns for k in subs)
            # (a) container of stateful objects
            elt = None
            if isinstance(val, ast.ListComp):
                elt = val.elt
            elif isinstance(val, (ast.List, ast.Tuple)) and val.elts:
                elt = val.elts[0]
            if isinstance(elt, ast.Call):
                k = repo.class_of_expr(elt.func, c, c.file)
                if k is not None and _stateful(repo, k) and not rebound:
                    rep.violation(f"{P}.{rule}", con, f"{attr} = {norm(val)[:70]}",
                                  f"a class-level container of {k.name} objects: {k.name} carries per-instance state "
                                  f"({_stateful(repo, k)}), so every {c.name} shares it", where)
                    continue
            # (a') a class-level defaultdict inserts on every lookup: reading it through an instance already shares state
            if isinstance(val, ast.Call) and norm(val.func).split(".")[-1] == "defaultdict" and not rebound and not subclasses_rebind:
                rep.violation(f"{P}.{rule}", con, f"{attr} = {norm(val)[:60]}",
                              f"`{attr}` is a class-level defaultdict and no constructor gives each instance its own: every lookup through "
                              f"any {c.name} inserts into (and later edits) the one shared table", where)
                continue
            # (b) mutated in place somewhere, never re-bound
            if attr in mutated and not rebound and not subclasses_rebind:
                site, node = mutated[attr]
                # reading through .copy()/[:] in the same class is the accepted idiom: require that the mutation targets the attribute itself
                rep.violation(f"{P}.{rule}", con, f"{attr} = {norm(val)[:50]}  …  {norm(node)[:70]} ({site})",
                              f"`{attr}` is a class-level container, is mutated in place ({site}) and no constructor gives each "
                              f"instance its own: all {c.name} objects share one", where)
            else:
                rep.ok(f"{P}.{rule}", con, f"{attr} = {norm(val)[:50]}",
                       "re-bound per instance" if rebound or subclasses_rebind else "never mutated in place (read / copied only)", nontrivial=False)
    rep.count("class_level_mutables_checked", n, 25)


def _safe_mro(repo, k):
    try:
        return repo.mro(k)
    except AnchorMissing:
        return [k]


def _stateful(repo: Repo, k: ClassInfo) -> str:
    """Names of attributes a class's non-constructor methods assign on self ('' if none)."""
    names = []
    for c in _safe_mro(repo, k):
        for fname, fn in c.methods.items():
            if fname == "__init__":
                continue
            for n in walk_no_nested(fn):
                if isinstance(n, ast.Assign):
                    for t in n.targets:
                        ch = attr_chain(t)
                        if ch and ch[0] == "self" and len(ch) == 2 and ch[1] not in names:
                            names.append(ch[1])
    return ", ".join(names[:3])


def constructor_binding_rule(repo: Repo, rep, P: str):
    """self.X = <module-level mutable> / <other instance's attribute> in a constructor shares state."""
    globals_: Dict[str, Set[str]] = {}
    for rel, sf in repo.files.items():
        if not sf.modname.startswith("rv") or sf.modname.startswith(("rv.tools", "rv._vendor")):
            continue
        for st in sf.tree.body:
            if isinstance(st, ast.Assign) and len(st.targets) == 1 and isinstance(st.targets[0], ast.Name) and is_mutable_value(repo, None, st.value):
                globals_.setdefault(rel, set()).add(st.targets[0].id)
            if isinstance(st, ast.AnnAssign) and isinstance(st.target, ast.Name) and st.value is not None and is_mutable_value(repo, None, st.value):
                globals_.setdefault(rel, set()).add(st.target.id)
    n = 0
    for c in _rv_classes(repo):
        init = c.methods.get("__init__")
        if init is None:
            continue
        g = globals_.get(c.file.rel, set())
        for node in walk_no_nested(init):
            if isinstance(node, ast.Assign):
                n += 1
                v = node.value
                if isinstance(v, ast.Name) and v.id in g and any(attr_chain(t) and attr_chain(t)[0] == "self" for t in node.targets):
                    rep.violation(f"{P}.R3", f"{c.file.rel}:{c.qualname}.__init__", norm(node),
                                  f"the constructor binds instance state to the module-level object `{v.id}` without copying it: "
                                  "every instance shares it", f"{c.file.rel}:{node.lineno}")
    rep.count("constructor_assignments_scanned", n, 100)


# ------------------------------------------------------------------------------------ R4
def default_args_rule(repo: Repo, rep, P: str):
    n = 0
    n_fns = 0
    for rel, sf in sorted(repo.files.items()):
        if not sf.modname.startswith("rv") or sf.modname.startswith(("rv.tools", "rv._vendor")):
            continue
        for fn in ast.walk(sf.tree):
            if isinstance(fn, (ast.FunctionDef, ast.AsyncFunctionDef, ast.Lambda)):
                n_fns += 1
                for d in list(fn.args.defaults) + [x for x in fn.args.kw_defaults if x is not None]:
                    n += 1
                    if is_mutable_value(repo, None, d):
                        rep.violation(f"{P}.R4", f"{rel}:{getattr(fn, 'name', '<lambda>')}", f"default {norm(d)}",
                                      "mutable default argument: one object is shared by every call (and every instance constructed with the default)",
                                      f"{rel}:{d.lineno}")
    # the population is the functions of the package (the number of defaults among them is whatever the code has)
    rep.count("functions_scanned_for_defaults", n_fns, 300)
    rep.count("default_arguments_scanned", n, 10)
    rep.ok(f"{P}.R4", "rv/**", f"{n} default arguments", "none is a mutable container")
    # attrs-style defaults
    for c in _rv_classes(repo):
        for name, val in c.assigns.items():
            if isinstance(val, ast.Call) and norm(val.func) == "attr":
                for k in val.keywords:
                    if k.arg == "default" and is_mutable_value(repo, c, k.value):
                        rep.violation(f"{P}.R4", f"{c.file.rel}:{c.qualname}.{name}", norm(val), "attrs default is a shared mutable object (use factory=)",
                                      f"{c.file.rel}:{val.lineno}")


MEMO_DECORATORS = {"lru_cache", "cache", "functools.lru_cache", "functools.cache", "memoize", "memoized", "cached"}
MEMO_FIXTURE = """
@lru_cache(maxsize=8)
def parse(cls, data):
    m = cls()
    m.data = data
    return m
"""


def _immutable_value(v: ast.AST, defs: Dict[str, ast.AST], depth: int = 0) -> bool:
    """constants, immutable constructions, a bound method of one (`Struct(f).pack`), tuples of these, comparisons / arithmetic"""
    if depth > 4:
        return False
    if isinstance(v, ast.Name) and v.id in defs:
        return _immutable_value(defs[v.id], defs, depth + 1)
    if isinstance(v, ast.Constant) or (isinstance(v, ast.Call) and norm(v.func) in IMMUTABLE_CTORS) or isinstance(v, (ast.Compare, ast.BinOp, ast.JoinedStr, ast.BoolOp)):
        return True
    if isinstance(v, ast.Attribute) and isinstance(v.value, ast.Call) and norm(v.value.func) in ("Struct", "struct.Struct") \
            and v.attr in ("pack", "unpack", "unpack_from", "iter_unpack", "size", "format"):
        return True
    if isinstance(v, ast.Attribute) and isinstance(v.value, ast.Name) and v.value.id in defs and v.attr in ("pack", "unpack", "unpack_from", "iter_unpack", "size"):
        return _immutable_value(defs[v.value.id], defs, depth + 1)
    if isinstance(v, ast.Tuple):
        return all(_immutable_value(x, defs, depth + 1) for x in v.elts)
    if isinstance(v, ast.Call) and (norm(v.func) in ("pack", "struct.pack") or (isinstance(v.func, ast.Attribute) and v.func.attr in ("pack", "encode", "to_bytes", "hex"))):
        return True             # bytes / str
    if isinstance(v, ast.Call) and norm(v.func) in ("len", "isinstance", "ord", "chr", "min", "max", "sum", "abs", "divmod", "calcsize", "struct.calcsize"):
        return True
    return False


def memoized_returns(repo: Repo, ci: Optional[ClassInfo], fn: ast.FunctionDef) -> Optional[List[Tuple[ast.AST, str]]]:
    """None if fn is not memoized; else [(return node, 'mutable' | 'immutable' | 'unknown')]."""
    decos = [norm(d.func if isinstance(d, ast.Call) else d) for d in fn.decorator_list]
    if not any(d in MEMO_DECORATORS or d.split(".")[-1] in MEMO_DECORATORS for d in decos):
        return None
    defs: Dict[str, ast.AST] = {}
    for n in walk_no_nested(fn):
        if isinstance(n, ast.Assign) and len(n.targets) == 1 and isinstance(n.targets[0], ast.Name):
            defs.setdefault(n.targets[0].id, n.value)
    out = []
    for n in walk_no_nested(fn):
        if isinstance(n, ast.Return) and n.value is not None:
            v = defs.get(n.value.id, n.value) if isinstance(n.value, ast.Name) else n.value
            if is_mutable_value(repo, ci, v) or (isinstance(v, ast.Call) and norm(v.func) in ("cls", "self.__class__", "type(self)")):
                out.append((n, "mutable"))
            elif _immutable_value(v, defs):
                out.append((n, "immutable"))
            else:
                out.append((n, "unknown"))
    return out


def memoized_rule(repo: Repo, rep, P: str):
    """A memoized function hands the same object to every caller: it must not return a mutable object."""
    fx = ast.parse(MEMO_FIXTURE).body[0]
    hits = memoized_returns(repo, None, fx) or []
    rep.count("memoized_rule_positive_fixture_hits", sum(1 for _, k in hits if k == "mutable"), 1)
    n = 0
    for rel, sf in sorted(repo.files.items()):
        if not sf.modname.startswith("rv") or sf.modname.startswith(("rv.tools", "rv._vendor")):
            continue
        owner: Dict[int, ClassInfo] = {}
        for c in repo.all_classes():
            if c.file is sf:
                for fn in list(c.methods.values()) + list(c.getters.values()):
                    owner[id(fn)] = c
        for fn in ast.walk(sf.tree):
            if not isinstance(fn, (ast.FunctionDef, ast.AsyncFunctionDef)):
                continue
            res = memoized_returns(repo, owner.get(id(fn)), fn)
            if res is None:
                continue
            n += 1
            con = f"{rel}:{fn.name}"
            for node, kind in res:
                if kind == "mutable":
                    rep.violation(f"{P}.R4m", con, f"@{norm(fn.decorator_list[-1])[:40]} … {norm(node)}",
                                  "a memoized function returns a mutable object: every caller with equal arguments (other modules, "
                                  "other loads, clones) receives the same object, so editing it in one place changes the others",
                                  f"{rel}:{node.lineno}")
                elif kind == "unknown":
                    rep.inconclusive(f"{P}.R4m", con, norm(node), "memoized function returns a value of unknown mutability", f"{rel}:{node.lineno}")
                else:
                    rep.ok(f"{P}.R4m", con, norm(node), "memoized value is immutable")
    rep.count("memoized_functions", n)


# ------------------------------------------------------------------------------------ R5
POSITIVE_FIXTURE = """
def retune(self, name, lo, hi):
    ctl = self.controllers[name]
    ctl.value_type = (lo, hi)
    for k, c in self.controllers.items():
        c.default = 0
"""


def descriptor_stores(fn: ast.AST) -> List[ast.AST]:
    """Stores to attributes of objects taken from a per-class controllers/options table."""
    tainted: Set[str] = set()
    for node in walk_no_nested(fn):
        src = None
        if isinstance(node, ast.Assign) and len(node.targets) == 1:
            src, tgt = node.value, node.targets[0]
        elif isinstance(node, (ast.For, ast.comprehension)):
            src, tgt = node.iter, node.target
        else:
            continue
        s = norm(src)
        if (".controllers" in s or ".options" in s) and "user_defined" not in s:
            elts = tgt.elts if isinstance(tgt, (ast.Tuple, ast.List)) else [tgt]
            for x in elts:
                for y in (x.elts if isinstance(x, (ast.Tuple, ast.List)) else [x]):
                    if isinstance(y, ast.Name):
                        tainted.add(y.id)
    hits: List[ast.AST] = []
    if not tainted:
        return hits
    for node in walk_no_nested(fn):
        if isinstance(node, (ast.Assign, ast.AugAssign)):
            tg = node.targets if isinstance(node, ast.Assign) else [node.target]
            for t in tg:
                if isinstance(t, ast.Attribute) and isinstance(t.value, ast.Name) and t.value.id in tainted:
                    hits.append(node)
        if isinstance(node, ast.Call) and norm(node.func) == "setattr" and node.args and isinstance(node.args[0], ast.Name) \
                and node.args[0].id in tainted:
            hits.append(node)
    return hits


def descriptor_self_state(repo: Repo, rep, P: str, rule: str, only: Optional[Tuple[str, ...]] = None):
    """A descriptor object (a class with __get__/__set__) is one object per owning class.  Its access methods must keep
    per-instance state on `instance`, never on `self`: state written to `self` in __get__/__set__ is shared by all
    instances of the module class (and survives from one object to the next)."""
    n = 0
    for c in _rv_classes(repo):
        try:
            mro = repo.mro(c)
        except AnchorMissing:
            mro = [c]
        if not any("__get__" in k.methods or "__set__" in k.methods for k in mro):
            continue
        if only is not None and not any(k.name in only for k in mro):
            continue
        for mname in ("__get__", "__set__", "__delete__"):
            fn = c.methods.get(mname)
            if fn is None:
                continue
            n += 1
            selfname = fn.args.args[0].arg if fn.args.args else "self"
            bad = []
            for node in walk_no_nested(fn):
                tg = []
                if isinstance(node, ast.Assign):
                    tg = node.targets
                elif isinstance(node, (ast.AugAssign, ast.AnnAssign)):
                    tg = [node.target]
                for t in tg:
                    for tt in (t.elts if isinstance(t, (ast.Tuple, ast.List)) else [t]):
                        root = tt
                        while isinstance(root, (ast.Attribute, ast.Subscript)):
                            root = root.value
                        if isinstance(tt, (ast.Attribute, ast.Subscript)) and isinstance(root, ast.Name) and root.id == selfname:
                            bad.append(node)
                if isinstance(node, ast.Call) and norm(node.func) == "setattr" and node.args and norm(node.args[0]) == selfname:
                    bad.append(node)
                if isinstance(node, ast.Call) and isinstance(node.func, ast.Attribute) and node.func.attr in MUTATING_METHODS:
                    root = node.func.value
                    while isinstance(root, (ast.Attribute, ast.Subscript)):
                        root = root.value
                    if isinstance(root, ast.Name) and root.id == selfname:
                        bad.append(node)
            con = f"{c.file.rel}:{c.qualname}.{mname}"
            if bad:
                for b in bad:
                    rep.violation(f"{P}.{rule}", con, norm(b)[:100],
                                  f"`{mname}` of a descriptor writes to the descriptor object itself: the descriptor is one object per "
                                  "module class, so this state is shared by every module of the type (and leaks from one object to the next)",
                                  f"{c.file.rel}:{b.lineno}")
            else:
                rep.ok(f"{P}.{rule}", con, f"no store to `{selfname}.*`", "per-instance state is kept on the instance", nontrivial=False)
    rep.count(f"descriptor_access_methods[{','.join(only) if only else 'all'}]", n, 2)


def descriptor_rule(repo: Repo, rep, P: str):
    descriptor_self_state(repo, rep, P, "R5s")
    n = 0
    # the expected count on a healthy tree is zero: keep a positive example that must match on every run
    fx = ast.parse(POSITIVE_FIXTURE).body[0]
    rep.count("descriptor_rule_positive_fixture_hits", len(descriptor_stores(fx)), 2)
    for c in _rv_classes(repo):
        fns = list(c.methods.items()) + list(c.getters.items()) + list(c.setters.items())
        for fname, fn in fns:
            for hit in descriptor_stores(fn):
                if True:
                    n += 1
                    con = f"{c.file.rel}:{c.qualname}.{fname}"
                    if c.name in META_OK:
                        rep.ok(f"{P}.R5", con, norm(hit)[:80], "descriptor set-up by the metaclass (once per class)")
                    else:
                        rep.violation(f"{P}.R5", con, norm(hit)[:100],
                                      "an attribute of a Controller/Option object taken from the per-class table is written at run time: "
                                      "the descriptor is shared by every instance of the class", f"{c.file.rel}:{hit.lineno}")
    rep.count("descriptor_attribute_stores", n)
    rep.ok(f"{P}.R5", "rv/**", f"{n} run-time stores to per-class descriptor objects", "none outside the metaclass")
    # MetaModule mutates only its per-instance UserDefined objects
    mm = repo.cls("MetaModule", module="rv.modules.metamodule")
    from . import c15 as _c15
    upd = _c15.sync_method(repo)
    s = norm(upd) if upd else ""
    from .. import inline
    from ..packed import single_defs, resolve_names
    verdict = "?"
    if upd is not None:
        fn = upd
        mparam = fn.args.args[0].arg if fn.args.args else "metamodule"
        defs = single_defs(fn)
        sources: Dict[str, str] = {}          # loop target name -> the sequence its values come from

        elem_of: Dict[str, ast.expr] = {}     # loop target name -> the iterable whose elements it holds

        def bind(target, it):
            it = resolve_names(it, defs)
            if isinstance(target, ast.Name):
                sources[target.id] = norm(it)
                elem_of[target.id] = it
            elif isinstance(target, ast.Tuple) and isinstance(it, ast.Call) and norm(it.func) == "zip" and len(it.args) == len(target.elts):
                for t, a in zip(target.elts, it.args):
                    bind(t, a)
            elif isinstance(target, ast.Tuple) and isinstance(it, ast.Call) and norm(it.func) == "enumerate" and len(target.elts) == 2 and it.args:
                bind(target.elts[1], it.args[0])
        for lp in [n for n in ast.walk(fn) if isinstance(n, ast.For)]:
            bind(lp.target, lp.iter)
        # a, b = row   where `row` holds the elements of zip(A, B)
        for a_ in [n for n in ast.walk(fn) if isinstance(n, ast.Assign) and len(n.targets) == 1 and isinstance(n.targets[0], ast.Tuple)
                   and isinstance(n.value, ast.Name) and n.value.id in elem_of]:
            bind(a_.targets[0], elem_of[a_.value.id])
        stores = [n for n in ast.walk(fn) if isinstance(n, ast.Attribute) and isinstance(n.ctx, ast.Store) and n.attr in ("value_type", "default")]
        owners = {norm(n.value) for n in stores}
        if stores and all(isinstance(n.value, ast.Name) and sources.get(n.value.id) == f"{mparam}.user_defined" for n in stores):
            verdict = "ok"
        elif stores and any(isinstance(n.value, ast.Name) and ".controllers" in sources.get(n.value.id, "") for n in stores) \
                or any(".controllers[" in o or ".controllers.values()" in o for o in owners):
            verdict = "bad"
        elif not stores:
            verdict = "bad"
    if verdict == "ok":
        rep.ok(f"{P}.R5", f"{mm.file.rel}:MetaModule.MappingArray.update_user_defined_controllers", "user_defined_controller from metamodule.user_defined",
               "value types are re-derived on the per-instance controller objects")
    elif verdict == "?":
        rep.inconclusive(f"{P}.R5", f"{mm.file.rel}:MetaModule.MappingArray.update_user_defined_controllers", s[:200],
                         "the objects whose value_type / default are rewritten are not recognised", mm.file.rel)
    else:
        rep.violation(f"{P}.R5", f"{mm.file.rel}:MetaModule.MappingArray.update_user_defined_controllers", s[:200],
                      "user-controller value types must be written to the per-instance UserDefined objects", mm.file.rel)
    llf = repo.own_method(mm, "load_label")
    ll = norm(llf)
    from ..packed import single_defs as _sd17, resolve_names as _rn17
    _ld = _sd17(llf)
    label_stores = [_rn17(n.value, _ld) for n in ast.walk(llf) if isinstance(n, ast.Attribute) and isinstance(n.ctx, ast.Store) and n.attr == "label"]
    per_instance = [x for x in label_stores if isinstance(x, ast.Subscript) and norm(x.value) == "self.user_defined"]
    elsewhere = [x for x in label_stores if not (isinstance(x, ast.Subscript) and norm(x.value) == "self.user_defined")
                 and (isinstance(x, ast.Subscript) or isinstance(x, ast.Attribute) or (isinstance(x, ast.Call) and "controllers" in norm(x)))]
    if per_instance and len(per_instance) == len(label_stores):
        rep.ok(f"{P}.R5", f"{mm.file.rel}:MetaModule.load_label", "controller = self.user_defined[…]; controller.label = …", "labels live on per-instance objects")
    elif elsewhere:
        rep.violation(f"{P}.R5", f"{mm.file.rel}:MetaModule.load_label", f"{norm(elsewhere[0])[:80]}.label = …",
                      "labels must be stored on the per-instance UserDefined objects", mm.file.rel)
    else:
        rep.inconclusive(f"{P}.R5", f"{mm.file.rel}:MetaModule.load_label", ll[:160], "where the loaded label is stored is not recognised", mm.file.rel)


# ------------------------------------------------------------------------------------ globals
def globals_rule(repo: Repo, rep, P: str):
    # module-level mutable names and their writers
    names: Dict[str, str] = {}
    for rel, sf in sorted(repo.files.items()):
        if not sf.modname.startswith("rv") or sf.modname.startswith(("rv.tools", "rv._vendor")):
            continue
        for st in sf.tree.body:
            tg, val = None, None
            if isinstance(st, ast.Assign) and len(st.targets) == 1 and isinstance(st.targets[0], ast.Name):
                tg, val = st.targets[0].id, st.value
            elif isinstance(st, ast.AnnAssign) and isinstance(st.target, ast.Name) and st.value is not None:
                tg, val = st.target.id, st.value
            if tg and is_mutable_value(repo, None, val) and tg != "__all__":
                names[tg] = rel
    rep.count("module_level_mutables", len(names), 1)
    for rel, sf in sorted(repo.files.items()):
        if not sf.modname.startswith("rv") or sf.modname.startswith(("rv.tools", "rv._vendor")):
            continue

        def rec(node, prefix):
            for ch in ast.iter_child_nodes(node):
                if isinstance(ch, (ast.FunctionDef, ast.AsyncFunctionDef)):
                    fq = f"{rel}:{prefix}{ch.name}"
                    for x in walk_no_nested(ch):
                        g = None
                        if isinstance(x, ast.Assign):
                            for t in x.targets:
                                if isinstance(t, ast.Subscript) and isinstance(t.value, ast.Name) and t.value.id in names:
                                    g = t.value.id
                        if isinstance(x, ast.Call) and isinstance(x.func, ast.Attribute) and isinstance(x.func.value, ast.Name) \
                                and x.func.value.id in names and x.func.attr in MUTATING_METHODS:
                            g = x.func.value.id
                        if g:
                            allowed = MODULE_GLOBAL_WRITERS.get(g, {})
                            if any(fq.endswith(k.split(":")[1].split(".")[-1]) and fq.split(":")[0] == k.split(":")[0] for k in allowed):
                                rep.ok(f"{P}.R6", fq, norm(x)[:80], next(iter(allowed.values())))
                            else:
                                rep.violation(f"{P}.R6", fq, norm(x)[:100],
                                              f"the module-level container `{g}` is modified at run time: state shared by every object in the process",
                                              f"{rel}:{x.lineno}")
                    rec(ch, f"{prefix}{ch.name}.")
                elif isinstance(ch, ast.ClassDef):
                    rec(ch, f"{prefix}{ch.name}.")
                else:
                    rec(ch, prefix)
        rec(sf.tree, "")


# ------------------------------------------------------------------------------------ clones
def clone_rules(repo: Repo, rep, P: str):
    from . import c01, c02
    c01.clone_rule(repo, rep, P)
    c02.clone_rule(repo, rep, P)
    note = repo.cls("Note", module="rv.note")
    cl = note.methods.get("clone")
    if cl is not None:
        s = norm(cl)
        if "note = self.__class__()" in s and "setattr(note, name, getattr(self, name))" in s:
            rep.ok(f"{P}.R7", f"{note.file.rel}:Note.clone", "fresh Note; scalar fields copied", "a cloned note shares nothing with the original")
        else:
            rep.info(f"{P}.R7", f"{note.file.rel}:Note.clone", s[:120], "Note.clone changed")
