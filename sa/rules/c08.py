"""C08 — the connection graph and slot order persist across save/load (narrow structural claim)."""

from __future__ import annotations

import ast
import re
from typing import Dict, List, Optional, Tuple

from .. import packed, codec, docs, links, parity
from ..cfg import CFG
from ..links import Mut, SIDE
from ..model import AnchorMissing, Repo, attr_chain, norm, stmts_of, walk_no_nested
from . import c07

LEVEL = "other"
EXPLANATION = (
    "decides table-format and write-discipline only; equality of the reconstructed graph and slot order with the "
    "saved one depends on the shape of a run-time graph and is NOT decided. Checked necessary conditions: the "
    "SLNK/SLnK codec rows (variable-length little-endian signed int32 on both sides, same link table on both "
    "sides, SLNK emitted for every module slot, SLnK elided only when every slot is 0/-1); in the end-of-file "
    "rebuild every path through one link keeps each pair of parallel tables in step (one slot per incoming "
    "link, outgoing entry and slot written together on the same module at the same index), with the "
    "cross-referencing values proved in the list-length domain; census of every link-table writer."
)
DECLINED = ["graph and slot-order equality after reload for arbitrary link graphs (run-time graph shape, iteration order of the rebuild pass)",
            "files whose SLNK names a module position beyond the module list (the rebuild skips the entry)"]
ASSUMPTIONS = ["C07's per-operation consistency of connect() (the state being saved is consistent)"]


def shape_params(fn):
    return [a.arg for a in fn.args.args if a.arg != "self"]


def run(repo: Repo, rep, tier: str):
    codec_rows(repo, rep, "C08")
    rebuild_rules(repo, rep, "C08")
    c07.census_rule(repo, rep, "C08")


def codec_rows(repo: Repo, rep, P: str):
    spec = docs.load_spec(repo)
    sc = docs.spec_chunks(spec)
    secs = parity.sections(repo)
    parity.check_section(repo, rep, P, secs["module"], sc, only={"SLNK", "SLnK"}, reverse=False)
    mr = secs["module"].reader
    for cid, table in (("SLNK", "in_links"), ("SLnK", "in_link_slots")):
        w = [x for x in secs["module"].writer if x.cid == cid and x.payload.shape == "pack"]
        r = mr.get(cid)
        if not w or r is None:
            rep.violation(f"{P}.R1", f"src/python/rv/project.py:Project.chunks[{cid}]", cid, f"{cid} is not written / read", "src/python/rv/project.py")
            continue
        wsrc = [parity.last(s) for s in w[0].payload.src]
        # the packed sequence is the table itself (not a filtered / reordered derivative)
        for a in w[0].payload.args:
            inner = a.value if isinstance(a, ast.Starred) else a
            while isinstance(inner, ast.Call) and norm(inner.func) in ("list", "tuple") and len(inner.args) == 1:
                inner = inner.args[0]
            if isinstance(a, ast.Starred) and norm(inner) != f"module.{table}":
                rep.violation(f"{P}.R1", f"{w[0].rel}:{w[0].fn}[{cid}]", norm(a)[:120],
                              f"{cid} must carry the complete Module.{table} table, entry for entry (freed −1 entries included): the reader "
                              "restores positions from it", w[0].where)
        rt = sorted({m.table for m in links.function_muts(r.node) if m.kind in ("extend", "append")})
        if wsrc == [table] and rt == [table]:
            rep.ok(f"{P}.R1", f"{r.rel}:{r.cls}.process_{cid}", f"{cid}: {table}", "same table written and extended")
        elif not rt and any(isinstance(c_, ast.Call) and any(norm(a_).endswith(f".{table}") or norm(a_) == (shape_params(r.node) or ["data"])[0]
                                                             for a_ in c_.args) and not norm(c_.func).endswith(("unpack", ".extend", ".append", "len"))
                            for c_ in ast.walk(r.node)):
            # the table / the payload is handed to a function that was not read through
            rep.inconclusive(f"{P}.R1", f"{r.rel}:{r.cls}.process_{cid}", f"{cid}: written from {wsrc}; the reader hands the table to a call that is not read through",
                             f"where {cid} is stored is not recognised", r.where)
        else:
            rep.violation(f"{P}.R1", f"{r.rel}:{r.cls}.process_{cid}", f"{cid}: written from {wsrc}, read into {rt}",
                          f"{cid} must carry Module.{table} on both sides", r.where)
        # element count: reader derives n from len(data) // 4, writer from len(table)
        rf = r.fmt
        if rf is None:
            env = {}
            for a in walk_no_nested(r.node):
                if isinstance(a, ast.Assign) and len(a.targets) == 1 and isinstance(a.targets[0], ast.Name):
                    env.setdefault(a.targets[0].id, a.value)
            for c in walk_no_nested(r.node):
                if isinstance(c, ast.Call) and norm(c.func) in ("unpack", "struct.unpack") and c.args:
                    rf = codec.parse_fmt(repo, None, c.args[0], env)
        pcon = f"{r.rel}:{r.cls}.process_{cid}"
        if rf is None or not rf.variable:
            rep.inconclusive(f"{P}.R1", pcon, norm(r.node)[:120], "unpack format of the link table not recognised", r.where)
        elif rf.order != "<" or rf.codes != "i":
            rep.violation(f"{P}.R1", pcon, rf.text, "links are little-endian signed int32 (−1 marks a freed slot)", r.where)
        elif rf.count.replace(" ", "") in ("len(data)//4", "len(data)>>2", "int(len(data)/4)"):
            rep.ok(f"{P}.R1", pcon, f"{rf.show()} with n = {rf.count}")
        else:
            cnt_ = rf.count.replace(" ", "")
            m_ = re.fullmatch(r"len\(data\)(?:(//|>>)(\d+))?", cnt_)
            wrong_ = m_ is not None and not ((m_.group(1) == "//" and m_.group(2) == "4") or (m_.group(1) == ">>" and m_.group(2) == "2"))
            if wrong_:
                rep.violation(f"{P}.R1", pcon, f"{rf.show()} with n = {rf.count}", "element count must be payload length / 4", r.where)
            else:
                rep.inconclusive(f"{P}.R1", pcon, f"{rf.show()} with n = {rf.count}", "element count of the link table is not of a form this rule reads", r.where)
        wf = w[0].payload.fmt
        if wf is None or not wf.variable or wf.codes != "i" or wf.order != "<":
            rep.violation(f"{P}.R1", f"{w[0].rel}:{w[0].fn}[{cid}]", w[0].payload.text, "links are little-endian signed int32 (−1 marks a freed slot)", w[0].where)
    # SLNK on every path of a non-None module; both lists packed with the same structure
    from ..guards import canon_text
    sl = [x for x in secs["module"].writer if x.cid == "SLNK"]
    guards = sorted({tuple(canon_text(g) for g in x.guards if canon_text(g) != "module is not None") for x in sl})
    complementary = len(guards) == 2 and len(guards[0]) == len(guards[1]) == 1 and canon_text(f"not ({guards[0][0]})") in (guards[1][0],) \
        or (len(guards) == 2 and len(guards[0]) == len(guards[1]) == 1 and {guards[0][0][:guards[0][0].index("(")] if "(" in guards[0][0] else "",
                                                                          guards[1][0][:guards[1][0].index("(")] if "(" in guards[1][0] else ""} == {"empty", "nonempty"}
            and guards[0][0].split("(", 1)[1] == guards[1][0].split("(", 1)[1])
    if guards == [()] or complementary:
        rep.ok(f"{P}.R1", "src/python/rv/project.py:Project.chunks[SLNK]", f"SLNK under {guards}", "emitted for every module")
    else:
        rep.violation(f"{P}.R1", "src/python/rv/project.py:Project.chunks[SLNK]", str(guards),
                      "SLNK must be emitted for every non-empty module slot (an empty list as an empty chunk)", "src/python/rv/project.py")
    slk = [x for x in secs["module"].writer if x.cid == "SLnK"]
    if slk:
        from . import c01 as _c01
        from ..guards import canon as _canon

        def cg_of(x: str) -> str:
            try:
                return _canon(_c01._simplify_guard(_c01._with_named_sets(repo, slk[0].rel, ast.parse(x, mode="eval").body)))
            except SyntaxError:
                return canon_text(x)
        cg = [cg_of(x) for x in slk[0].guards]
        g = [x for x in cg if x.startswith(("exists_", "all_", "any(", "not (all", "not (any", "all(")) or "in_link_slots" in x]
        if g and g[0] == "exists_notin(module.in_link_slots;[-1, 0])":
            rep.ok(f"{P}.R1", "src/python/rv/project.py:Project.chunks[SLnK]", g[0], "slot chunk elided only when every slot is 0 or −1")
        elif not g:
            rep.ok(f"{P}.R1", "src/python/rv/project.py:Project.chunks[SLnK]", str(cg), "slot chunk always written")
        else:
            rep.violation(f"{P}.R1", "src/python/rv/project.py:Project.chunks[SLnK]", str(slk[0].guards),
                          "SLnK may be omitted only when all slots are 0/−1 (what the rebuild can reproduce)", slk[0].where)
        if "len(module.in_links)" in slk[0].payload.text and "module.in_link_slots" in slk[0].payload.text:
            rep.ok(f"{P}.R1", "src/python/rv/project.py:Project.chunks[SLnK]", slk[0].payload.text, "slots packed with the links' element count")
    # trailing −1 stripping is symmetric in both handlers
    strips = {}
    for cid in ("SLNK", "SLnK"):
        r = mr.get(cid)
        if r is not None:
            strips[cid] = strips_trailing(r.node)
    if len(strips) == 2:
        if bool(strips["SLNK"]) == bool(strips["SLnK"]):
            rep.ok(f"{P}.R1", f"{mr['SLNK'].rel}:{mr['SLNK'].cls}.process_SLNK/process_SLnK",
                   f"trailing −1 stripping: {strips['SLNK'] or 'none'} / {strips['SLnK'] or 'none'}", "trailing freed entries dropped from both tables alike")
        else:
            bad = "SLNK" if not strips["SLNK"] else "SLnK"
            r = mr[bad]
            rep.violation(f"{P}.R1", f"{r.rel}:{r.cls}.process_{bad}", norm(r.node)[:120],
                          "trailing −1 entries must be stripped the same way from links and slots (tables stay parallel)", r.where)


def strips_trailing(fn: ast.AST, sentinel: int = -1) -> str:
    """Text of a loop that removes trailing `sentinel` entries of a list (and nothing else), or ''."""
    for n in ast.walk(fn):
        if not isinstance(n, ast.While) or n.orelse:
            continue
        t = n.test
        var = None
        conj = t.values if isinstance(t, ast.BoolOp) and isinstance(t.op, ast.And) else [t]
        last_is = False
        nonempty = False
        for c in conj:
            if isinstance(c, ast.Compare) and len(c.ops) == 1 and isinstance(c.ops[0], ast.Eq):
                l, r = c.left, c.comparators[0]
                # x[-1:] == [-1]
                if isinstance(l, ast.Subscript) and isinstance(l.slice, ast.Slice) and norm(l.slice.lower or ast.Constant(value=None)) == str(sentinel) \
                        and l.slice.upper is None and norm(r) == f"[{sentinel}]":
                    var, last_is, nonempty = norm(l.value), True, True
                # x[-1] == -1
                elif isinstance(l, ast.Subscript) and not isinstance(l.slice, ast.Slice) and norm(l.slice) == "-1" and norm(r) == str(sentinel):
                    var, last_is = norm(l.value), True
            elif isinstance(c, (ast.Name, ast.Attribute)):
                nonempty = nonempty or True
                var = var or norm(c)
            elif isinstance(c, ast.Compare) and isinstance(c.left, ast.Call) and norm(c.left.func) == "len":
                nonempty = True
        if not (var and last_is and nonempty):
            continue
        body = [b for b in n.body if not isinstance(b, ast.Pass)]
        if len(body) != 1:
            continue
        b = body[0]
        removes = (isinstance(b, ast.Expr) and isinstance(b.value, ast.Call) and norm(b.value) == f"{var}.pop()") or \
                  (isinstance(b, ast.Expr) and isinstance(b.value, ast.Call) and norm(b.value) == f"{var}.pop(-1)") or \
                  (isinstance(b, ast.Delete) and len(b.targets) == 1 and norm(b.targets[0]) == f"{var}[-1]")
        if removes:
            return f"while {norm(t)}: {norm(b)}"
    return ""


def _inner_loops(fn: ast.FunctionDef) -> List[Tuple[ast.For, ast.For]]:
    """(outer loop over modules, inner loop over that module's in_links)."""
    out = []
    for st in fn.body:
        if isinstance(st, ast.For) and isinstance(st.target, ast.Name):
            # the outer loop visits modules (in whatever order / through whatever view of the module list): recognised by the
            # inner loop, which walks <its variable>.in_links
            for sub in ast.walk(st):
                if isinstance(sub, ast.For) and sub is not st and f"{st.target.id}.in_links" in norm(packed.resolve_in_block(sub.iter, st.body)):
                    out.append((st, sub))
    return out


def _freed_slot_indexing(rep, P: str, rel: str, construct: str, fn: ast.FunctionDef):
    """A rebuild pass that indexes the module table with a link value that may be -1 (freed slot) reads modules[-1];
    that is harmless only after the trailing empty positions have been dropped (otherwise it is None and loading raises)."""
    body = fn.body
    trim_at = None
    from . import c04
    trims = c04.trailing_none_trims(fn)
    for i, st in enumerate(body):
        if any(st is t for t in trims):
            trim_at = i              # the last statement of the trim
    for i, st in enumerate(body):
        if not isinstance(st, ast.For):
            continue
        for inner in [n for n in ast.walk(st) if isinstance(n, ast.For) and n is not st]:
            ivars = {n.id for n in ast.walk(inner.target) if isinstance(n, ast.Name)}
            for sub in ast.walk(inner):
                if isinstance(sub, ast.Subscript) and norm(sub.value) == "self.object.modules" and isinstance(sub.slice, ast.Name) \
                        and sub.slice.id in ivars and isinstance(sub.ctx, ast.Load):
                    v = sub.slice.id
                    # guarded: an earlier statement of the loop body leaves the iteration when v == -1
                    guarded = False
                    for s2 in inner.body:
                        if s2.lineno >= sub.lineno:
                            break
                        if isinstance(s2, ast.If) and norm(s2.test) in (f"{v} == -1", f"{v} < 0", f"-1 == {v}") \
                                and isinstance(s2.body[-1], (ast.Continue, ast.Break, ast.Return)):
                            guarded = True
                    if guarded:
                        rep.ok(f"{P}.R2", construct, f"modules[{v}]", "freed slots (-1) are skipped before the table is indexed")
                    elif trim_at is not None and trim_at < i:
                        rep.ok(f"{P}.R2", construct, f"modules[{v}] after the trailing-empty trim",
                               "for a freed slot modules[-1] is the last real module and the entry is ignored")
                    else:
                        rep.violation(f"{P}.R2", construct, norm(sub),
                                      f"`{v}` can be -1 (freed slot) here and modules[-1] is read before trailing empty positions are "
                                      "dropped: a file that ends with an empty module position and has a freed link slot fails to load",
                                      f"{rel}:{sub.lineno}")


def _rebuild_run_condition(outer: ast.For, inner: ast.For, mvar: str) -> Tuple[str, str]:
    """('ok' | '?' | <what is wrong>, text): when is `inner` (the rebuild of one module's slots) reached in an iteration of `outer`?
    Collected from the guard clauses before it and the `if`s around it; evaluated for (module present?, file gave slots?)."""
    tests: List[Tuple[ast.expr, bool]] = []          # (test, must be true to reach the inner loop)
    defs: Dict[str, ast.expr] = {}

    def find(stmts) -> Optional[bool]:
        for st in stmts:
            if st is inner:
                return True
            if isinstance(st, ast.Assign) and len(st.targets) == 1 and isinstance(st.targets[0], ast.Name):
                defs[st.targets[0].id] = st.value
            if isinstance(st, ast.If):
                if st.body and isinstance(st.body[-1], ast.Continue) and not st.orelse and not any(inner is x for b in st.body for x in ast.walk(b)):
                    tests.append((st.test, False))
                    continue
                if any(inner is x for b in st.body for x in ast.walk(b)):
                    tests.append((st.test, True))
                    return find(st.body)
                if any(inner is x for b in st.orelse for x in ast.walk(b)):
                    tests.append((st.test, False))
                    return find(st.orelse)
                if any(isinstance(x, (ast.Continue, ast.Break, ast.Return, ast.Raise)) for b in st.body + st.orelse for x in ast.walk(b)):
                    return None
            elif isinstance(st, (ast.For, ast.While, ast.With, ast.Try)) and any(inner is x for x in ast.walk(st)):
                return None
            elif any(isinstance(x, (ast.Continue, ast.Break, ast.Return)) for x in ast.walk(st)):
                return None
        return False
    if not find(outer.body):
        return "?", ""
    shown = " and ".join((("" if pol else "not ") + f"({norm(t)})") for t, pol in tests) or "(always)"

    class Unknown(Exception):
        pass

    def ev(e: ast.expr, present: bool, slots: bool, depth: int = 0):
        if depth > 6:
            raise Unknown()
        if isinstance(e, ast.Name):
            if e.id == mvar:
                return present
            if e.id in defs:
                return ev(defs[e.id], present, slots, depth + 1)
            raise Unknown()
        if isinstance(e, ast.Constant) and isinstance(e.value, bool):
            return e.value
        if isinstance(e, ast.UnaryOp) and isinstance(e.op, ast.Not):
            return not ev(e.operand, present, slots, depth)
        if isinstance(e, ast.BoolOp):
            if isinstance(e.op, ast.And):
                for v in e.values:
                    if not ev(v, present, slots, depth):
                        return False
                return True
            for v in e.values:
                if ev(v, present, slots, depth):
                    return True
            return False
        if isinstance(e, ast.Call) and norm(e.func) == "bool" and len(e.args) == 1:
            return ev(e.args[0], present, slots, depth)
        if isinstance(e, ast.Compare) and len(e.ops) == 1 and norm(e.left) == mvar and isinstance(e.comparators[0], ast.Constant) and e.comparators[0].value is None:
            if isinstance(e.ops[0], ast.Is):
                return not present
            if isinstance(e.ops[0], ast.IsNot):
                return present
        from ..guards import canon
        c = canon(e)
        if norm(e) == f"{mvar}.in_link_slots" or c == f"nonempty({mvar}.in_link_slots)":
            if not present:
                raise Unknown()         # would raise at run time: not a case this rule decides
            return slots
        if c == f"empty({mvar}.in_link_slots)":
            if not present:
                raise Unknown()
            return not slots
        raise Unknown()
    wrong = []
    try:
        for present in (False, True):
            for slots in ((False,) if not present else (False, True)):
                reached = True
                for t, pol in tests:
                    if ev(t, present, slots) != pol:
                        reached = False
                        break
                want = present and not slots
                if reached != want:
                    wrong.append(("an empty position" if not present else ("a module with stored slots" if slots else "a module without stored slots"))
                                 + (" is rebuilt" if reached else " is not rebuilt"))
    except Unknown:
        return "?", shown
    if wrong:
        return "; ".join(wrong), shown
    return "ok", shown


def rebuild_rules(repo: Repo, rep, P: str):
    sv = repo.cls("SunVoxReader", module="rv.readers.sunvox")
    from .. import inline
    fn = inline.normalize(repo, sv, repo.own_method(sv, "process_end_of_file"), aliases=True)
    rel = sv.file.rel
    construct = f"{rel}:SunVoxReader.process_end_of_file"
    rep.func("rv.readers.sunvox.SunVoxReader.process_end_of_file")
    loops = _inner_loops(fn)
    rep.count("rebuild_link_loops", len(loops), 2)
    _freed_slot_indexing(rep, P, rel, construct, fn)
    if len(loops) < 2:
        rep.violation(f"{P}.R2", construct, "rebuild passes", "the end-of-file pass that rebuilds missing slots and outgoing tables is gone",
                      f"{rel}:{fn.lineno}")
        return
    # ---------------- pass 1: missing in_link_slots
    outer, inner = loops[0]
    mvar = norm(outer.target)
    # the pass only runs for modules without stored slots: the condition under which the inner loop is reached, evaluated over the
    # two facts it may depend on (is there a module in this position; did the file give it slots)
    verdict, shown = _rebuild_run_condition(outer, inner, mvar)
    if verdict == "ok":
        rep.ok(f"{P}.R2", construct, shown, "slots are rebuilt only when the file carried none")
    elif verdict == "?":
        rep.inconclusive(f"{P}.R2", construct, shown, "the condition under which a module's slots are rebuilt is not of a form this rule reads", f"{rel}:{outer.lineno}")
    else:
        rep.violation(f"{P}.R2", construct, shown,
                      f"the slot rebuild must run exactly for modules whose file carried no slot chunk ({verdict})", f"{rel}:{outer.lineno}")
    if norm(outer.iter) == "self.object.modules[1:] + self.object.modules[:1]":
        rep.ok(f"{P}.R2", construct, norm(outer.iter), "non-output modules first, output last (SunVox's own order)", nontrivial=False)
    else:
        rep.info(f"{P}.R2", construct, norm(outer.iter), "iteration order of the slot rebuild changed (affects slot numbering; not decided)")
    g = CFG(inner, loop_body=True)
    paths = g.paths(g.entry, [g.exit, g.break_exit, g.ret_exit], max_visits=1, limit=2000, labels_excluded={"exc", "reraise", "nomatch"}) or []
    seen = set()
    n1 = 0
    for path in paths:
        muts, aliases, binds = links.path_events(g, path)
        shape = tuple(m.short() for m in muts)
        if shape in seen:
            continue
        seen.add(shape)
        n1 += 1
        text = "; ".join(shape) or "(no table mutation)"
        where = f"{rel}:{muts[0].node.lineno if muts else inner.lineno}"
        dangling = any("non-existent" in norm(g.nodes[n].ast) for n, _ in path if g.nodes[n].kind == "stmt" and g.nodes[n].ast is not None)
        own_slots = [m for m in muts if m.base == mvar and m.table == "in_link_slots" and m.kind == "append"]
        if dangling:
            rep.info(f"{P}.R2", construct, text, "link to a position beyond the module list: entry skipped (malformed input, declined)")
            continue
        if len(own_slots) != 1:
            rep.violation(f"{P}.R2", construct, text,
                          f"a path through one incoming link appends {len(own_slots)} slot(s) to {mvar}.in_link_slots: in_links and "
                          "in_link_slots go out of step after loading", where)
            continue
        others = [m for m in muts if m.base != mvar]
        ol = [m for m in others if m.table == "out_links"]
        os_ = [m for m in others if m.table == "out_link_slots"]
        if [m.kind for m in ol] != [m.kind for m in os_] or {m.base for m in ol} != {m.base for m in os_}:
            rep.violation(f"{P}.R2", construct, text,
                          "the source module's out_links and out_link_slots are not extended together: the outgoing tables go out of step",
                          where)
            continue
        if own_slots[0].value == "-1":
            if others:
                rep.violation(f"{P}.R2", construct, text, "a freed incoming entry (−1) must not create an outgoing entry", where)
            else:
                rep.ok(f"{P}.R2", construct, text, "freed entry keeps its place: slot −1, no outgoing entry")
            continue
        if len(ol) != 1:
            rep.violation(f"{P}.R2", construct, text, "a live incoming link must be recorded exactly once on its source module", where)
            continue
        # cross references in the list-length domain
        env: Dict[str, str] = {}
        for var, val, _ in binds:
            env[var] = norm(val)
        src_base = ol[0].base
        slot_val = env.get(own_slots[0].value, own_slots[0].value)
        back_val = env.get(os_[0].value, os_[0].value)
        link_val = env.get(ol[0].value, ol[0].value)
        ok = True
        if slot_val not in (f"len({src_base}.out_link_slots)", f"len({src_base}.out_links)"):
            ok = False
            rep.violation(f"{P}.R3", construct, text, f"{mvar}.in_link_slots receives `{slot_val}`; it must be the position the link gets in "
                          f"{src_base}'s outgoing tables (their length before the append)", where)
        if back_val != f"len({mvar}.in_link_slots)":
            ok = False
            rep.violation(f"{P}.R3", construct, text, f"{src_base}.out_link_slots receives `{back_val}`; it must be the position of this link in "
                          f"{mvar}.in_links (length of in_link_slots before the append)", where)
        if link_val != f"{mvar}.index":
            ok = False
            rep.violation(f"{P}.R3", construct, text, f"{src_base}.out_links receives `{link_val}` instead of the target's index", where)
        # the captured lengths must be taken before the appends
        order = [norm(g.nodes[n].ast) for n, _ in path if g.nodes[n].kind == "stmt" and g.nodes[n].ast is not None]
        def pos(sub):
            return next((i for i, s in enumerate(order) if sub in s), -1)
        def eval_pos(var_or_expr: str, holder_append: str) -> int:
            """where len(T) is evaluated: at its capture statement, or at the append that contains it"""
            return pos(f"{var_or_expr} = len(") if var_or_expr in env else pos(holder_append)

        def table_of(val: str) -> str:
            return val[len("len("):-1] if val.startswith("len(") and val.endswith(")") else ""
        t_slot, t_back = table_of(slot_val), table_of(back_val)
        p_slot = eval_pos(own_slots[0].value, f"{mvar}.in_link_slots.append(")
        p_back = eval_pos(os_[0].value, ".out_link_slots.append(")
        captures_ok = bool(t_slot) and bool(t_back) and 0 <= p_slot <= pos(f"{t_slot}.append(") and 0 <= p_back <= pos(f"{t_back}.append(") \
            and (own_slots[0].value in env or p_slot < pos(f"{t_slot}.append(") or t_slot != f"{mvar}.in_link_slots") \
            and (os_[0].value in env or p_back < pos(f"{t_back}.append(") or t_back.endswith(".out_link_slots") is False or p_back == pos(".out_link_slots.append("))
        # an inline len(T) inside the append to T itself reads the length before appending (arguments are evaluated first)
        if not captures_ok:
            if ok:
                rep.inconclusive(f"{P}.R3", construct, text, "order of length captures vs appends not recognised", where)
                ok = False
        if ok:
            rep.ok(f"{P}.R3", construct, text, "slot = position at the other end, captured before the appends; outgoing entry = target index")
    rep.count("rebuild_pass1_path_shapes", n1, 2)
    # ---------------- pass 2: outgoing tables from incoming
    outer2, inner2 = loops[1]
    g2 = CFG(inner2, loop_body=True)
    paths2 = g2.paths(g2.entry, [g2.exit, g2.break_exit, g2.ret_exit], max_visits=2, limit=4000, labels_excluded={"exc", "reraise", "nomatch"}) or []
    paths2 = [p_ for p_ in paths2 if g2.feasible(p_)]
    seen = set()
    n2 = 0
    for path in paths2:
        muts, aliases, binds = links.path_events(g2, path)
        shape = tuple(m.short() for m in muts)
        if shape in seen or not muts:
            continue
        seen.add(shape)
        n2 += 1
        text = "; ".join(shape)
        where = f"{rel}:{muts[0].node.lineno}"
        sets_l = [m for m in muts if m.kind == "setidx" and m.table == "out_links"]
        sets_s = [m for m in muts if m.kind == "setidx" and m.table == "out_link_slots"]
        bad = None
        if len(sets_l) != len(sets_s):
            bad = "outgoing entry and its slot are not written together"
        else:
            for a, b in zip(sets_l, sets_s):
                if a.index != b.index or a.base != b.base:
                    bad = f"outgoing entry written at [{a.index}] of {a.base} but its slot at [{b.index}] of {b.base}"
        foreign = [m for m in muts if m.table in ("in_links", "in_link_slots")]
        if foreign:
            bad = "the second pass must not modify incoming tables"
        if bad:
            rep.violation(f"{P}.R2", construct, text, bad + ": the outgoing tables are inconsistent after loading", where)
        else:
            rep.ok(f"{P}.R2", construct, text[:200], "outgoing entry and slot written at the same index of the same module")
    rep.count("rebuild_pass2_path_shapes", n2, 1)
    # pass 2 relation: for the i-th incoming link of `mod` from source S at slot k = mod.in_link_slots[i]:
    #   S.out_links[k] = mod.index   and   S.out_link_slots[k] = i        (S = modules[mod.in_links[i]])
    import re as _re
    mvar2 = norm(outer2.target)
    ivar = lvar = None
    it2 = inner2.iter
    if isinstance(it2, ast.Call) and norm(it2.func) == "enumerate" and isinstance(inner2.target, ast.Tuple) and len(inner2.target.elts) == 2:
        ivar, lvar = norm(inner2.target.elts[0]), norm(inner2.target.elts[1])
    verdicts = []
    for path in paths2:
        muts, aliases, binds = links.path_events(g2, path)
        sets_l = [m for m in muts if m.kind == "setidx" and m.table == "out_links"]
        sets_s = [m for m in muts if m.kind == "setidx" and m.table == "out_link_slots"]
        if not sets_l and not sets_s:
            continue
        env: Dict[str, str] = {}
        from ..packed import once_defs
        for var, val in once_defs(outer2.body).items():       # locals of the enclosing loop body (table aliases of `mod`)
            env[var] = norm(val)
        for var, val, _ in binds:
            env[var] = norm(val)

        def res_expr(t: str) -> str:
            for _ in range(4):
                t2 = _re.sub(r"(?<![\w.])([A-Za-z_]\w*)\b", lambda m: "(" + env[m.group(1)] + ")" if m.group(1) in env and not env[m.group(1)].isidentifier()
                             and not _re.fullmatch(r"[\w.\[\]]+", env[m.group(1)]) else env.get(m.group(1), m.group(1)), t)
                if t2 == t:
                    break
                t = t2
            return t
        ok = bool(sets_l) and bool(sets_s) and ivar is not None
        why = ""
        for a_, b_ in zip(sets_l, sets_s):
            idx_a, idx_b = res_expr(a_.index), res_expr(b_.index)
            base_a = res_expr(a_.base)
            want_idx = f"{mvar2}.in_link_slots[{ivar}]"
            want_base = f"self.object.modules[{lvar}]"
            alt_base = f"self.object.modules[{mvar2}.in_links[{ivar}]]"
            if idx_a != want_idx or idx_b != want_idx:
                ok, why = False, f"written at [{idx_a}] / [{idx_b}], expected [{want_idx}]"
            elif base_a not in (want_base, alt_base):
                ok, why = False, f"written on {base_a}, expected {want_base}"
            elif res_expr(a_.value) != f"{mvar2}.index":
                ok, why = False, f"out_links entry is {res_expr(a_.value)}, expected {mvar2}.index"
            elif res_expr(b_.value) != ivar:
                ok, why = False, f"out_link_slots entry is {res_expr(b_.value)}, expected {ivar}"
        verdicts.append((ok, why, "; ".join(m.short() for m in muts)))
    # the mirror entry is written for every stored slot k >= 0 (k == -1 marks a freed entry): the guard around the assignment
    parents2: Dict[int, ast.AST] = {}
    for n in ast.walk(inner2):
        for c in ast.iter_child_nodes(n):
            parents2[id(c)] = n
    odefs = dict(once_defs(outer2.body))
    odefs.update(once_defs(inner2.body))
    from ..packed import resolve_names
    for st in ast.walk(inner2):
        if isinstance(st, ast.Assign) and isinstance(st.targets[0], ast.Subscript) and norm(st.targets[0].value).endswith("out_links"):
            conds = []
            cur: ast.AST = st
            while id(cur) in parents2 and cur is not inner2:
                par = parents2[id(cur)]
                if isinstance(par, ast.If):
                    inbody = any(cur is x for x in par.body)
                    conds.append((par.test, inbody))
                # guard clauses earlier in the same statement list: `if T: continue` before this statement means `not T` here
                for fld in ("body", "orelse"):
                    lst = getattr(par, fld, None)
                    if isinstance(lst, list) and any(cur is x for x in lst):
                        for sib in lst:
                            if sib is cur:
                                break
                            if isinstance(sib, ast.If) and not sib.orelse and sib.body and isinstance(sib.body[-1], (ast.Continue, ast.Return, ast.Break, ast.Raise)):
                                conds.append((sib.test, False))
                cur = par
            kexpr = norm(resolve_names(st.targets[0].slice, odefs))
            good = False
            detail = "no guard"
            for t, inbody in conds:
                t2 = resolve_names(t, odefs)
                while isinstance(t2, ast.UnaryOp) and isinstance(t2.op, ast.Not):
                    t2, inbody = t2.operand, not inbody
                if isinstance(t2, ast.Compare) and len(t2.ops) == 1 and norm(t2.left) == kexpr:
                    try:
                        c = repo.fold(t2.comparators[0])
                    except Exception:
                        continue
                    op = type(t2.ops[0])
                    if not inbody:
                        op = {ast.Eq: ast.NotEq, ast.NotEq: ast.Eq, ast.Lt: ast.GtE, ast.GtE: ast.Lt, ast.Gt: ast.LtE, ast.LtE: ast.Gt}.get(op)
                    detail = f"{kexpr} {op.__name__ if op else '?'} {c}"
                    if (op is ast.NotEq and c == -1) or (op is ast.GtE and c == 0) or (op is ast.Gt and c == -1):
                        good = True
            if good:
                rep.ok(f"{P}.R3", construct, f"if {detail}: {norm(st)[:60]}", "every stored slot except the freed marker is mirrored")
            else:
                rep.violation(f"{P}.R3", construct, f"{norm(st)[:80]} under `{detail}`",
                              "the outgoing entry must be written for every stored slot k >= 0 and only for those (−1 marks a freed entry): "
                              "links whose slot fails this guard are missing from the source module's outgoing table after loading",
                              f"{rel}:{st.lineno}")
    if not verdicts:
        rep.violation(f"{P}.R3", construct, "no assignment into the outgoing tables",
                      "the outgoing tables are no longer rebuilt as out_links[slot] = target, out_link_slots[slot] = incoming position",
                      f"{rel}:{inner2.lineno}")
    elif all(v[0] for v in verdicts):
        rep.ok(f"{P}.R3", construct, "out_links[slot] = target index; out_link_slots[slot] = position in target's in_links",
               "the consistency relation of C07 instantiated on every stored link")
    else:
        bad = next(v for v in verdicts if not v[0])
        if ivar is None:
            rep.inconclusive(f"{P}.R3", construct, bad[2][:160], "second pass does not enumerate the incoming links", f"{rel}:{inner2.lineno}")
        else:
            rep.violation(f"{P}.R3", construct, bad[2][:200],
                          f"the outgoing tables are no longer rebuilt as out_links[slot] = target, out_link_slots[slot] = incoming position ({bad[1]})",
                          f"{rel}:{inner2.lineno}")
