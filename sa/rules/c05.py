"""C05 — re-saving is stable (set_raw/get_raw inverse on every path) and saving is pure."""

from __future__ import annotations

import ast
import re
from typing import Dict, List, Optional, Set, Tuple

from .. import effects
from ..cfg import CFG, Node
from ..model import AnchorMissing, NotConst, Repo, attr_chain, norm, walk_no_nested

LEVEL = "other"
EXPLANATION = (
    "def-use analysis on the CFG of Module.set_raw / get_raw: every definition of the value stored for a "
    "controller reaches the store only through from_raw_value(raw) — including the lenient out-of-range branch — "
    "and get_raw returns to_raw_value of the attribute, so with the affine inverse pair of C10 "
    "get_raw(set_raw(r)) = r for every stored r; effect analysis over the call graph of save "
    "(write_to/read/clone → chunks → getters): no store to a public attribute and no in-place mutation of "
    "non-fresh state; no nondeterminism source in that call graph; loading runs with range errors downgraded. "
    "a chunk that is left out depending on the value it would carry (SLnK when all slots are 0/-1) must be rebuilt "
    "as that value by the reader: the admitted constants are compared with what the end-of-file pass appends "
    "(today a known finding: the rebuild gives len(source.out_link_slots)). "
    "n-fold idempotence for arbitrary files in general (canonicalisation of trailing -1, foreign link tables) "
    "depends on run-time values and is not decided."
)
DECLINED = ["idempotence of load∘save for arbitrary foreign files beyond the elision/rebuild pair (trailing -1 links, inconsistent tables) — run-time values"]
ASSUMPTIONS = ["call resolution by class-hierarchy analysis over rv (over-approximate)",
               "a local bound to a constructor call, copy(), [:], list(), deepcopy() or a comprehension is fresh"]

NONDET_CALLS = {"time.time", "time.time_ns", "time.monotonic", "random.random", "random.randint", "random.choice",
                "random.shuffle", "uuid.uuid4", "uuid.uuid1", "os.urandom", "id", "hash", "datetime.now",
                "datetime.datetime.now", "datetime.utcnow", "secrets.token_bytes", "os.getpid"}


def run(repo: Repo, rep, tier: str):
    raw_inverse_paths(repo, rep, "C05", "R1")
    from . import c10
    c10.inverse_pairs(repo, rep, "C05", "R1a")
    from . import c02
    c02.cmid_record_pair(repo, rep, "C05", "R1b")        # MIDI binding records: writer ∘ reader = identity, so they cannot drift
    purity(repo, rep, "C05")
    # what an object saves depends only on that object: no class-level table that loading/editing another object writes into
    from . import c17
    c17.shared_class_state_rule(repo, rep, "C05", rule="R2s")
    lenient_read(repo, rep, "C05")
    canonical_forms(repo, rep, "C05")
    elided_slots_fixed_point(repo, rep, "C05", "R6")


# ------------------------------------------------------------------------------------ R1
def _reaching_defs(g: CFG, var: str) -> Dict[int, Set[int]]:
    """node id -> set of node ids whose assignment to `var` may reach the node's entry."""
    def defines(n: Node) -> bool:
        if n.kind == "stmt" and isinstance(n.ast, ast.Assign):
            return any(isinstance(t, ast.Name) and t.id == var for t in n.ast.targets)
        if n.kind == "stmt" and isinstance(n.ast, ast.AugAssign):
            return isinstance(n.ast.target, ast.Name) and n.ast.target.id == var
        return False

    def transfer(node: Node, st, label):
        if defines(node) and label != "exc":
            return frozenset([node.id])
        return st
    return g.solve(frozenset([-1]), transfer, lambda a, b: a | b)


def raw_inverse_paths(repo: Repo, rep, P: str, rule: str):
    mod = repo.cls("Module", module="rv.modules.module")
    rel = mod.file.rel
    # ---------------- set_raw
    from .. import inline
    fn = inline.normalize(repo, mod, repo.own_method(mod, "set_raw"))
    rep.func("rv.modules.module.Module.set_raw")
    construct = f"{rel}:Module.set_raw"
    params = [a.arg for a in fn.args.args if a.arg != "self"]
    raw = params[1] if len(params) > 1 else "raw_value"
    g = CFG(fn)
    stores = [n for n in g.nodes if n.kind == "stmt" and isinstance(n.ast, ast.Assign)
              and any(isinstance(t, ast.Subscript) and norm(t.value) == "self.controller_values" for t in n.ast.targets)]
    if not stores:
        rep.violation(f"{P}.{rule}", construct, "self.controller_values[name] = value", "set_raw no longer stores the value", f"{rel}:{fn.lineno}")
    # every normal return of set_raw has stored a value: a path that returns without storing drops the raw value it was given
    if stores:
        store_ids = {n.id for n in stores}
        paths = g.paths(g.entry, [g.exit], max_visits=1, limit=4000, labels_excluded={"exc", "reraise", "nomatch"})
        if paths is None:
            rep.inconclusive(f"{P}.{rule}", construct, "", "too many paths through set_raw", f"{rel}:{fn.lineno}")
        else:
            skipping = [p_ for p_ in paths if g.feasible(p_) and not any(nid in store_ids for nid, _ in p_)
                        and not any(g.nodes[nid].kind == "stmt" and isinstance(g.nodes[nid].ast, ast.Raise) for nid, _ in p_)]
            if not skipping:
                rep.ok(f"{P}.{rule}", construct, f"{len(paths)} path(s) to a normal return", "each stores the decoded value")
            else:
                tests = [(norm(g.nodes[nid].ast), lab) for nid, lab in skipping[0] if g.nodes[nid].kind == "test"]
                cond = "; ".join(f"{t} is {lab}" for t, lab in tests)[:200]
                benign = any(("get_raw" in t or "to_raw_value" in t) and raw in t for t, _ in tests)
                if benign:
                    rep.inconclusive(f"{P}.{rule}", construct, cond, "set_raw can return without storing, under a test that compares raw values (not decided)",
                                     f"{rel}:{fn.lineno}")
                else:
                    rep.violation(f"{P}.{rule}", construct, cond or "unconditional return",
                                  f"set_raw can return without decoding and storing `{raw}` (path: {cond}): the value in the file is dropped and the "
                                  "controller keeps what it had — e.g. a raw value that merely equals the currently held (decoded) value of a "
                                  "negative-minimum controller is never decoded", f"{rel}:{fn.lineno}")
    # which local is from_raw_value?
    conv_names = set()
    for n in walk_no_nested(fn):
        if isinstance(n, ast.Assign) and isinstance(n.value, ast.Call) and norm(n.value.func) == "getattr" and len(n.value.args) >= 2 \
                and isinstance(n.value.args[1], ast.Constant) and n.value.args[1].value == "from_raw_value" and isinstance(n.targets[0], ast.Name):
            conv_names.add(n.targets[0].id)
            dflt = norm(n.value.args[2]) if len(n.value.args) > 2 else None
            if dflt != "int":
                rep.violation(f"{P}.{rule}", construct, norm(n), "types without from_raw_value must fall back to int()", f"{rel}:{n.lineno}")

    def through_conv(e: ast.AST) -> bool:
        for c in ast.walk(e):
            if isinstance(c, ast.Call) and ((isinstance(c.func, ast.Name) and c.func.id in conv_names)
                                            or (isinstance(c.func, ast.Attribute) and c.func.attr == "from_raw_value")
                                            or (isinstance(c.func, ast.Call) and norm(c.func.func) == "getattr" and len(c.func.args) == 3
                                                and isinstance(c.func.args[1], ast.Constant) and c.func.args[1].value == "from_raw_value"
                                                and norm(c.func.args[2]) == "int")):
                if len(c.args) == 1 and norm(c.args[0]) == raw:
                    return True
        return False

    def unresolved_call_on_raw(e: ast.AST) -> Optional[str]:
        """text of a call that takes the raw value and whose callee this rule cannot name (a method of a local object, a local
        callable that is not the from_raw_value look-up): what it returns is not known."""
        for c in ast.walk(e):
            if isinstance(c, ast.Call) and any(isinstance(x, ast.Name) and x.id == raw for a in c.args for x in ast.walk(a)):
                f = c.func
                if isinstance(f, ast.Name) and f.id not in conv_names and f.id not in ("int", "float", "round", "bool", "abs", "min", "max", "str"):
                    return norm(c)
                if isinstance(f, ast.Attribute) and f.attr != "from_raw_value":
                    return norm(c)
                if isinstance(f, (ast.Call, ast.Subscript)) and not through_conv(c):
                    return norm(c)
        return None
    for s in stores:
        val = s.ast.value
        if not isinstance(val, ast.Name):
            if through_conv(val):
                rep.ok(f"{P}.{rule}", construct, s.text(), "stored value = from_raw_value(raw)")
            else:
                rep.violation(f"{P}.{rule}", construct, s.text(), "the stored value is not from_raw_value(raw_value)", f"{rel}:{s.lineno}")
            continue
        rd = _reaching_defs(g, val.id)
        defs = rd.get(s.id, frozenset())
        n_defs = 0
        for d in sorted(defs):
            if d == -1:
                rep.violation(f"{P}.{rule}", construct, s.text(), f"`{val.id}` may be undefined when stored", f"{rel}:{s.lineno}")
                continue
            n_defs += 1
            dn = g.nodes[d]
            # on which path? (describe by the nearest enclosing handler)
            where_txt = "lenient (except RangeValidationError) branch" if "handler" in _ctx_of(fn, dn.ast) else "normal path"
            if through_conv(dn.ast.value) or _derived_from_conv(g, dn, through_conv, set()):
                rep.ok(f"{P}.{rule}", construct, f"{dn.text()}  [{where_txt}]", "definition passes through from_raw_value(raw)")
            elif unresolved_call_on_raw(dn.ast.value) or _reads_unresolved(g, dn, unresolved_call_on_raw, set()):
                rep.inconclusive(f"{P}.{rule}", construct, f"{dn.text()}  [{where_txt}]",
                                 f"the stored value comes from a call on `{raw}` whose callee is not resolved", f"{rel}:{dn.lineno}")
            else:
                rep.violation(f"{P}.{rule}", construct, f"{dn.text()}  [{where_txt}]",
                              f"on the {where_txt} the value stored for the controller is `{norm(dn.ast.value)}`, not "
                              f"from_raw_value({raw}); get_raw later applies to_raw_value to it, so for a controller with a negative "
                              "minimum an out-of-range stored value grows by |min| on every load/save cycle",
                              f"{rel}:{dn.lineno}")
        rep.count("set_raw_value_definitions", n_defs, 2)
    # ---------------- get_raw
    from .. import inline
    gfn = inline.flatten(repo, mod, repo.own_method(mod, "get_raw"))
    rep.func("rv.modules.module.Module.get_raw")
    gcon = f"{rel}:Module.get_raw"
    conv = set()
    for n in walk_no_nested(gfn):
        if isinstance(n, ast.Assign) and isinstance(n.value, ast.Call) and norm(n.value.func) == "getattr" and len(n.value.args) >= 2 \
                and isinstance(n.value.args[1], ast.Constant) and n.value.args[1].value == "to_raw_value" and isinstance(n.targets[0], ast.Name):
            conv.add(n.targets[0].id)
            if (norm(n.value.args[2]) if len(n.value.args) > 2 else None) != "int":
                rep.violation(f"{P}.{rule}", gcon, norm(n), "types without to_raw_value must fall back to int()", f"{rel}:{n.lineno}")
    rets = [n for n in walk_no_nested(gfn) if isinstance(n, ast.Return)]
    gname = [a.arg for a in gfn.args.args if a.arg != "self"][0]
    for r in rets:
        v = r.value
        ok = isinstance(v, ast.Call) and len(v.args) == 1 and \
            ((isinstance(v.func, ast.Name) and v.func.id in conv) or (isinstance(v.func, ast.Attribute) and v.func.attr == "to_raw_value")
             or (isinstance(v.func, ast.Call) and norm(v.func.func) == "getattr" and len(v.func.args) == 3 and isinstance(v.func.args[1], ast.Constant)
                 and v.func.args[1].value == "to_raw_value" and norm(v.func.args[2]) == "int"))
        if ok:
            arg = v.args[0]
            names = {n.id for n in ast.walk(arg) if isinstance(n, ast.Name)}
            # the value variable: assigned from getattr(self, name)
            src_vars = {n.targets[0].id for n in walk_no_nested(gfn) if isinstance(n, ast.Assign) and isinstance(n.targets[0], ast.Name)
                        and norm(n.value) == f"getattr(self, {gname})"}
            # follow plain copies / the inlined helper's parameter temporaries
            changed = True
            while changed:
                changed = False
                for n in walk_no_nested(gfn):
                    if isinstance(n, ast.Assign) and isinstance(n.targets[0], ast.Name) and isinstance(n.value, ast.Name) \
                            and n.value.id in src_vars and n.targets[0].id not in src_vars:
                        src_vars.add(n.targets[0].id)
                        changed = True
            src_ok = bool(names & src_vars) or any(isinstance(n, ast.Assign) and isinstance(n.targets[0], ast.Name) and n.targets[0].id in names
                                                   and any(isinstance(m, ast.Name) and m.id in src_vars for m in ast.walk(n.value))
                                                   for n in walk_no_nested(gfn))

            # the attribute read written directly into the converted expression (helpers read through)
            src_ok = src_ok or any(isinstance(m, ast.Call) and norm(m) == f"getattr(self, {gname})" for m in ast.walk(arg))

            def is_none_test(t, var_ok):
                return isinstance(t, ast.Compare) and len(t.ops) == 1 and isinstance(t.ops[0], ast.Is) and norm(t.comparators[0]) == "None"
            none_ok = isinstance(arg, ast.IfExp) and is_none_test(arg.test, lambda x: True) and norm(arg.body) == "0"
            none_ok = none_ok or any(isinstance(n, ast.If) and is_none_test(n.test, lambda x: True) and len(n.body) == 1
                                     and isinstance(n.body[0], ast.Assign) and norm(n.body[0].value) == "0"
                                     and norm(n.body[0].targets[0]) == norm(n.test.left) for n in walk_no_nested(gfn))
            none_ok = none_ok or any(isinstance(n, ast.IfExp) and is_none_test(n.test, lambda x: True) and norm(n.body) == "0" for n in walk_no_nested(gfn))
            enum_ok = any(isinstance(n, ast.If) and isinstance(n.test, ast.Call) and norm(n.test.func) == "isinstance" and len(n.test.args) == 2
                          and norm(n.test.args[1]).split(".")[-1] in ("Enum", "IntEnum")
                          and any(isinstance(b, ast.Assign) and norm(b.value) == f"{norm(n.test.args[0])}.value" for b in n.body)
                          for n in walk_no_nested(gfn))
            enum_ok = enum_ok or any(isinstance(n, ast.IfExp) and isinstance(n.test, ast.Call) and norm(n.test.func) == "isinstance"
                                     and norm(n.body).endswith(".value") for n in walk_no_nested(gfn))
            if src_ok and none_ok and enum_ok:
                rep.ok(f"{P}.{rule}", gcon, norm(r), "to_raw_value(attribute value; enum → .value; None → 0)")
            else:
                # the three ingredients are looked for in the spellings listed above; one that is not found may be spelled otherwise
                rep.inconclusive(f"{P}.{rule}", gcon, norm(r),
                                 f"get_raw: conversion of the attribute's current value not recognised (source {src_ok}, None→0 {none_ok}, enum→value {enum_ok})",
                                 f"{rel}:{r.lineno}")
        elif isinstance(v, ast.Call) and not (isinstance(v.func, ast.Name) and v.func.id in ("int", "round", "float", "bool", "abs", "str")
                                               and not any(isinstance(n, ast.Name) and isinstance(n.ctx, ast.Store) and n.id == v.func.id for n in ast.walk(gfn))):
            rep.inconclusive(f"{P}.{rule}", gcon, norm(r), f"get_raw returns the result of `{norm(v.func)}`, which is not resolved to a conversion",
                             f"{rel}:{r.lineno}")
        else:
            rep.violation(f"{P}.{rule}", gcon, norm(r),
                          "get_raw returns a value that does not pass through to_raw_value: the stored form of offset "
                          "ranges is wrong", f"{rel}:{r.lineno}")
    # both sides resolve the value type the same way
    s_src, g_src = norm(inline.flatten(repo, mod, fn)), norm(gfn)
    if "instance_value_type(self)" in s_src and "instance_value_type(self)" in g_src:
        rep.ok(f"{P}.{rule}", construct, "t = controller.instance_value_type(self)", "same value-type resolution in get_raw and set_raw", nontrivial=False)
    else:
        rep.violation(f"{P}.{rule}", construct, "instance_value_type", "get_raw and set_raw resolve the value type differently", f"{rel}:{fn.lineno}")


def _derived_from_conv(g: CFG, node: Node, through_conv, seen: Set[int], depth: int = 0) -> bool:
    """Every local the definition reads (other than callables) is itself defined only through the conversion."""
    if depth > 6 or node.id in seen:
        return False
    seen.add(node.id)
    rhs = node.ast.value
    # the value expression must be of the form f(x) / x where x carries the converted value
    callee_ids = {id(x) for c in ast.walk(rhs) if isinstance(c, ast.Call) for x in ast.walk(c.func)}      # what is called is not data
    names = [n.id for n in ast.walk(rhs) if isinstance(n, ast.Name) and isinstance(n.ctx, ast.Load) and id(n) not in callee_ids]
    callee_names = {c.func.id for c in ast.walk(rhs) if isinstance(c, ast.Call) and isinstance(c.func, ast.Name)}
    data_names = [n for n in names if n not in callee_names]
    if len(set(data_names)) != 1:
        return False
    var = data_names[0]
    rd = _reaching_defs(g, var).get(node.id, frozenset())
    if not rd or -1 in rd:
        return False
    for d in rd:
        dn = g.nodes[d]
        if not isinstance(dn.ast, ast.Assign):
            return False
        if not (through_conv(dn.ast.value) or _derived_from_conv(g, dn, through_conv, seen, depth + 1)):
            return False
    return True


def _reads_unresolved(g: CFG, node: Node, unresolved, seen: Set[int], depth: int = 0) -> bool:
    """some local the definition reads is (transitively) defined from an unresolved call on the raw value."""
    if depth > 6 or node.id in seen:
        return False
    seen.add(node.id)
    rhs = node.ast.value
    for nm in {n.id for n in ast.walk(rhs) if isinstance(n, ast.Name) and isinstance(n.ctx, ast.Load)}:
        for d in _reaching_defs(g, nm).get(node.id, frozenset()):
            if d == -1:
                continue
            dn = g.nodes[d]
            if isinstance(dn.ast, ast.Assign) and (unresolved(dn.ast.value) or _reads_unresolved(g, dn, unresolved, seen, depth + 1)):
                return True
    return False


def _ctx_of(fn, node) -> str:
    out = ""

    def rec(stmts, ctx):
        nonlocal out
        for st in stmts:
            if st is node:
                out = ctx
            if isinstance(st, ast.Try):
                rec(st.body, ctx + ">try")
                for h in st.handlers:
                    rec(h.body, ctx + ">handler")
                rec(st.orelse, ctx)
                rec(st.finalbody, ctx + ">finally")
            elif isinstance(st, (ast.If, ast.For, ast.While, ast.With)):
                rec(st.body, ctx)
                rec(getattr(st, "orelse", []), ctx)
    rec(fn.body, "")
    return out


# ------------------------------------------------------------------------------------ R2 / R3
PRIVATE_OK = {
    "_data": "lazy materialisation of Pattern.data",
    "_attached": "UserDefined attach flag re-derived from the option (idempotent)",
    "_f": "struct writer buffer", "_index": "struct reader cursor",
}


def save_closure(repo: Repo):
    cg = effects.CallGraph(repo)
    roots = [cg.fn("Container", "write_to"), cg.fn("Container", "read"), cg.fn("Module", "clone")]
    # stop at the load side: clone/read re-enter the reader on fresh bytes
    stop = {k for k in cg.fns if ":read_sunvox_file" in k or "/readers/" in k}
    return cg, roots, cg.closure(roots, stop=stop)


def purity(repo: Repo, rep, P: str):
    cg, roots, clo = save_closure(repo)
    rep.count("save_call_graph_functions", len(clo), 60)
    n_eff = 0
    private_seen: Dict[str, str] = {}
    for key, (f, parent) in sorted(clo.items()):
        name = key.split(".")[-1]
        if name in ("__init__",) or name.startswith("__init"):
            continue     # constructors build fresh objects
        if f.kind == "setter":
            continue     # reached only through stores, which are themselves reported
        for e in effects.effects(f):
            if e.fresh:
                continue
            n_eff += 1
            where = f"{f.rel}:{e.node.lineno}"
            tgt = e.target
            first = tgt.split(".")[1].split("[")[0].split("(")[0] if "." in tgt else tgt
            if "[= " in tgt:
                first = tgt.split("[= ")[1].split(".")[1].split("…")[0].split(".")[0]
            if first.startswith("_") or not e.public:
                private_seen.setdefault(first, key)
                continue
            chain = " → ".join(cg.chain(clo, key)[-4:])
            rep.violation(f"{P}.R2", key.replace("<get>", "").replace("<set>", ""), norm(e.node)[:120],
                          f"saving reaches `{tgt}` {'assignment' if e.kind == 'store' else 'in-place mutation'} ({chain}): "
                          "writing a file changes the object's observable state / the second save differs from the first", where)
    for p, key in sorted(private_seen.items()):
        if p in PRIVATE_OK:
            rep.ok(f"{P}.R2", key, f"private `{p}`", PRIVATE_OK[p], nontrivial=False)
        else:
            rep.info(f"{P}.R2", key, f"private `{p}`", "private state written during save (listed, not flagged)")
    rep.count("non_fresh_effects_examined", n_eff)
    rep.ok(f"{P}.R2", "save call graph", f"{len(clo)} functions from Container.write_to/read and Module.clone",
           "no store to / in-place mutation of public non-fresh state")
    # determinism
    n_calls = 0
    for key, (f, parent) in sorted(clo.items()):
        for n in walk_no_nested(f.node):
            if isinstance(n, ast.Call):
                n_calls += 1
                name = norm(n.func)
                if name in NONDET_CALLS or name.split(".")[0] in ("random", "secrets", "uuid") or name.startswith("time."):
                    rep.violation(f"{P}.R3", key, norm(n)[:100],
                                  "a nondeterministic value is computed while saving: two saves of the same object differ",
                                  f"{f.rel}:{n.lineno}")
            if isinstance(n, (ast.For, ast.comprehension)):
                it = n.iter
                if isinstance(it, ast.Attribute) and it.attr in ("behaviors",):
                    rep.violation(f"{P}.R3", key, norm(it), "iteration over a set while saving (order not deterministic)", f"{f.rel}:{it.lineno}")
                if isinstance(it, ast.Call) and norm(it.func) == "set":
                    rep.violation(f"{P}.R3", key, norm(it), "iteration over a set while saving (order not deterministic)", f"{f.rel}:{it.lineno}")
    rep.count("calls_scanned_for_nondeterminism", n_calls, 150)
    rep.ok(f"{P}.R3", "save call graph", f"{n_calls} calls scanned", "no time/random/uuid/id/hash/set-order dependence")
    rep.sample({"save_call_graph": sorted(k.split(":")[-1] for k in clo)[:25]})


def writer_purity(repo: Repo, rep, P: str, rule: str, rel_part: str, floor: int):
    """The purity rule restricted to the save-side functions of one source file (shared with C16, C15)."""
    cg, roots, clo = save_closure(repo)
    n = 0
    for key, (f, parent) in sorted(clo.items()):
        if rel_part not in f.rel:
            continue
        name = key.split(".")[-1]
        if name.startswith("__init") or f.kind == "setter":
            continue
        n += 1
        bad = False
        for e in effects.effects(f):
            if e.fresh:
                continue
            tgt = e.target
            first = tgt.split(".")[1].split("[")[0].split("(")[0] if "." in tgt else tgt
            if "[= " in tgt:
                first = tgt.split("[= ")[1].split(".")[1].split("…")[0].split(".")[0]
            if first.startswith("_") or not e.public:
                continue
            bad = True
            chain = " → ".join(cg.chain(clo, key)[-4:])
            rep.violation(f"{P}.{rule}", key.replace("<get>", "").replace("<set>", ""), norm(e.node)[:120],
                          f"saving reaches `{tgt}` {'assignment' if e.kind == 'store' else 'in-place mutation'} ({chain}): "
                          "writing the object changes the state that is supposed to survive the save", f"{f.rel}:{e.node.lineno}")
        if not bad:
            rep.ok(f"{P}.{rule}", key.replace("<get>", "").replace("<set>", ""), "no store to / mutation of public non-fresh state",
                   nontrivial=False)
    rep.count(f"save_side_functions[{rel_part}]", n, floor)


def _param_names(f) -> Set[str]:
    return {a.arg for a in f.node.args.args} if hasattr(f.node, "args") else set()


# ------------------------------------------------------------------------------------ R4
def lenient_read(repo: Repo, rep, P: str):
    from ..cfg import desugar_exitstack
    from .. import inline
    fn = desugar_exitstack(inline.flatten(repo, None, repo.func("rv.readers.reader", "read_sunvox_file"), sf=repo.module("rv.readers.reader")))
    sf = repo.module("rv.readers.reader")
    arg = None
    for n in walk_no_nested(fn):
        if isinstance(n, ast.With):
            for it in n.items:
                c = it.context_expr
                if isinstance(c, ast.Call) and norm(c.func).split(".")[-1] == "override_raise_controller_value_errors" and c.args:
                    arg = c.args[0]
    if arg is None:
        rep.violation(f"{P}.R4", f"{sf.rel}:read_sunvox_file", "with override_raise_controller_value_errors(...)",
                      "loading no longer runs with range errors downgraded: a file with out-of-range stored values cannot be opened",
                      f"{sf.rel}:{fn.lineno}")
        return
    try:
        v = repo.fold(arg, sf=sf)
    except NotConst:
        rep.inconclusive(f"{P}.R4", f"{sf.rel}:read_sunvox_file", norm(arg), "override argument not constant", f"{sf.rel}:{fn.lineno}")
        return
    if v is False:
        rep.ok(f"{P}.R4", f"{sf.rel}:read_sunvox_file", f"override({norm(arg)}) with {norm(arg)} = False", "range errors are warnings while loading")
    else:
        rep.violation(f"{P}.R4", f"{sf.rel}:read_sunvox_file", f"override({norm(arg)}) = {v!r}",
                      "loading runs in strict mode: a file carrying an out-of-range controller value raises instead of loading",
                      f"{sf.rel}:{fn.lineno}")
    # the validation helper only raises under the flag
    from . import c09
    verdict, text, h = c09.strict_only_raise(repo)
    hcon = "src/python/rv/errors.py:raise_or_warn_controller_value_validation"
    if verdict == "ok":
        rep.ok(f"{P}.R4", hcon, text)
    elif verdict == "bad":
        rep.violation(f"{P}.R4", hcon, norm(h)[:160],
                      f"validation failures must raise only in strict mode and otherwise just warn ({text})", f"src/python/rv/errors.py:{h.lineno}")
    else:
        rep.inconclusive(f"{P}.R4", hcon, norm(h)[:160], f"strict/lenient split not recognised ({text})", f"src/python/rv/errors.py:{h.lineno}")


def elided_slots_fixed_point(repo: Repo, rep, P: str, rule: str):
    """A chunk that the writer leaves out depending on the VALUE it would carry must come back as that value when it is absent.

    SLnK (a module's incoming slot table) is left out when every slot is 0 or −1.  Saving and loading is then a fixed point only if a
    module read without SLnK gets exactly 0 for every live link and −1 for every freed one.  The rule reads the elision guard from
    the project writer and the values the end-of-file pass appends to `in_link_slots` of a module that has none; a rebuilt value
    that is not one of the constants the guard admits means: a stored table of zeros that disagrees with the rebuild (two modules
    claiming slot 0 of one source) is saved without SLnK, reloaded with other slots and saved WITH SLnK — the second save differs
    from the first."""
    from .. import codec, inline
    from ..guards import canon as _canon, canon_text
    from . import c01 as _c01
    proj = repo.cls("Project", module="rv.project")
    rows = codec.writer_rows(repo, proj, repo.own_method(proj, "chunks"))
    slk = [r for r in rows if r.cid == "SLnK"]
    wcon = f"{proj.file.rel}:Project.chunks[SLnK]"
    if not slk:
        rep.inconclusive(f"{P}.{rule}", wcon, "", "no SLnK row found in the project writer", proj.file.rel)
        return

    def cg_of(x: str) -> str:
        try:
            return _canon(_c01._simplify_guard(_c01._with_named_sets(repo, slk[0].rel, ast.parse(x, mode="eval").body)))
        except SyntaxError:
            return canon_text(x)
    cg = [cg_of(x) for x in slk[0].guards]
    value_guards = [x for x in cg if "in_link_slots" in x]
    if not value_guards:
        rep.ok(f"{P}.{rule}", wcon, str(cg)[:120], "SLnK is written whenever the link table is: nothing is left to the reader's default")
        return
    m_ = re.fullmatch(r"exists_notin\((\w+)\.in_link_slots;\[(.*)\]\)", value_guards[0])
    if m_ is None or len(value_guards) != 1:
        rep.inconclusive(f"{P}.{rule}", wcon, "; ".join(value_guards)[:160], "the condition under which SLnK is left out is not of a form this rule reads", slk[0].where)
        return
    try:
        admitted = sorted(int(x) for x in m_.group(2).split(","))
    except ValueError:
        rep.inconclusive(f"{P}.{rule}", wcon, value_guards[0], "elided slot values not constant", slk[0].where)
        return
    # reader: what a module without SLnK gets
    sv = repo.cls("SunVoxReader", module="rv.readers.sunvox")
    eof = inline.normalize(repo, sv, repo.own_method(sv, "process_end_of_file"), aliases=True)
    rcon = f"{sv.file.rel}:SunVoxReader.process_end_of_file"
    from ..packed import resolve_in_block
    rebuilt = []            # (text, constant or None, node)
    for lp in [n for n in ast.walk(eof) if isinstance(n, ast.For) and isinstance(n.target, ast.Name)]:
        mv = lp.target.id
        skips = [st for st in lp.body if isinstance(st, ast.If) and f"{mv}.in_link_slots" in norm(st.test)]
        if not skips:
            continue             # not the pass that serves modules without stored slots
        for c in ast.walk(lp):
            if isinstance(c, ast.Call) and isinstance(c.func, ast.Attribute) and c.func.attr == "append" and norm(c.func.value) == f"{mv}.in_link_slots" and len(c.args) == 1:
                v = c.args[0]
                # a local assigned in the same block names its value
                blocks = [n.body for n in ast.walk(lp) if isinstance(n, (ast.For, ast.If))] + [n.orelse for n in ast.walk(lp) if isinstance(n, ast.If)]
                holding = [blk for blk in blocks if any(c is x for st in blk for x in ast.walk(st))]
                if holding:
                    inner_blk = min(holding, key=lambda blk: sum(1 for st in blk for _ in ast.walk(st)))
                    v = resolve_in_block(v, inner_blk)
                try:
                    k = repo.fold(v, ci=sv)
                except Exception:
                    k = None
                rebuilt.append((norm(v), k if isinstance(k, int) and not isinstance(k, bool) else None, c))
    if not rebuilt:
        rep.inconclusive(f"{P}.{rule}", rcon, "", "the pass that gives slots to a module read without SLnK was not found", f"{sv.file.rel}:{eof.lineno}")
        return
    free = [(t, n) for t, k, n in rebuilt if k is None]
    outside = [(t, k, n) for t, k, n in rebuilt if k is not None and k not in admitted]
    if not free and not outside:
        rep.ok(f"{P}.{rule}", rcon, f"rebuilt slots {sorted({k for _, k, _ in rebuilt})} ⊆ elided values {admitted}",
               "a table that was left out comes back as the same table")
        return
    t0 = (free[0][0] if free else outside[0][0])
    t0 = re.sub(r"len\((.+?)\.(out_link_slots|out_links)\)", r"len(<source>.\2)", t0)
    node = free[0][1] if free else outside[0][2]
    rep.violation(f"{P}.{rule}", wcon, f"elided when all slots in {admitted}; rebuilt as {t0}",
                  f"SLnK is left out whenever every stored slot is one of {admitted}, but a module read without SLnK gets `{t0}` for a live link, "
                  "which is 0 only when this link is the first outgoing link of its source.  For a file whose explicit SLnK says 0 where that "
                  "count is not 0 (two modules claiming slot 0 of one source; link bytes of other writers or mutated) the first save drops SLnK, "
                  "the next load rebuilds different slots and the next save writes SLnK: load∘save is not a fixed point after one cycle",
                  f"{sv.file.rel}:{getattr(node, 'lineno', eof.lineno)}")


def canonical_forms(repo: Repo, rep, P: str):
    """Trailing -1 link entries are dropped on load in both link handlers (same canonical form after any cycle)."""
    mr = repo.cls("ModuleReader", module="rv.readers.module")
    for cid, var in (("SLNK", "links"), ("SLnK", "slots")):
        fn = repo.own_method(mr, f"process_{cid}")
        s = norm(fn)
        if f"while {var}[-1:] == [-1]:" in s and f"{var}.pop()" in s:
            rep.ok(f"{P}.R5", f"{mr.file.rel}:ModuleReader.process_{cid}", f"while {var}[-1:] == [-1]: {var}.pop()", "trailing freed entries stripped")
        else:
            rep.info(f"{P}.R5", f"{mr.file.rel}:ModuleReader.process_{cid}", s[:120], "trailing -1 stripping changed")
