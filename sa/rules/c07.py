"""C07 — connecting and disconnecting keep the link tables mutually consistent."""

from __future__ import annotations

import ast
from typing import Dict, List, Optional, Set, Tuple

from .. import links
from ..cfg import CFG, Node
from ..links import Mut, PAIR, SIDE, TABLES
from ..model import AnchorMissing, Repo, attr_chain, norm, walk_no_nested

LEVEL = "other"
EXPLANATION = (
    "path-sensitive analysis of Project.connect: no early exit from the operand loops (every requested pair "
    "is processed); on every acyclic path through one pair iteration the four parallel link tables are "
    "mutated pairwise, on both ends, with cross-referencing slot values proved in a list-length symbolic "
    "domain; look-ups that refuse foreign modules dominate every mutation; operator sugar siblings agree; "
    "who-may-write census of the link tables over all of rv. Inductive argument: if every writer preserves "
    "the consistency relation per operation, it holds after any history. Does not decide equality of the "
    "connection set with what an arbitrary sequence asks for (list contents are runtime values)."
)
DECLINED = [
    "that the set of connections equals what an arbitrary operation sequence asks for (depends on list contents)",
    "the disconnect path's reliance on the uniqueness of an entry found by list.index()",
]
ASSUMPTIONS = ["list.append adds exactly one element at index len(list)", "Module identity is used by list.index (no __eq__ on Module)"]

ALLOWED_WRITERS = {
    "src/python/rv/project.py:Project.connect": "the connect/disconnect operation itself",
    "src/python/rv/readers/module.py:ModuleReader.process_SLNK": "load: incoming links as stored",
    "src/python/rv/readers/module.py:ModuleReader.process_SLnK": "load: incoming slots as stored",
    "src/python/rv/readers/sunvox.py:SunVoxReader.process_end_of_file": "load: rebuild of missing slots and all outgoing tables",
    "src/python/rv/modules/module.py:Module.__init__": "creation of four empty tables",
}


def run(repo: Repo, rep, tier: str):
    from .. import inline
    proj = repo.cls("Project", module="rv.project")
    fn = inline.flatten(repo, proj, repo.own_method(proj, "connect"))
    rep.func("rv.project.Project.connect")
    fn = unmemoize_operand_lookups(fn)
    connect_rules(repo, rep, "C07", proj, fn)
    optional_index_tests(repo, rep, "C07", proj, fn)
    operator_rules(repo, rep, "C07")
    rep.count("files_in_scope", repo.consult_all())
    census_rule(repo, rep, "C07")


def unmemoize_operand_lookups(fn: ast.FunctionDef) -> ast.FunctionDef:
    """`L = None` in the body of the outer operand loop and `if L is None: L = E` inside the inner one, E a look-up that does not
    depend on anything the inner loop changes (`self.module_index(from_module)`, `from_module.out_links`): the value is the same
    in every inner iteration, so the guard only saves work.  Read as `L = E` in every iteration (the form the rules follow)."""
    import copy as _copy
    loops, _ = operand_loops(fn)
    if len(loops) < 2:
        return fn
    new = _copy.deepcopy(fn)
    loops, _ = operand_loops(new)
    outer, inner = loops[-2], loops[-1]
    resets: Dict[str, ast.stmt] = {}
    for st in outer.body:
        if st is inner:
            break
        if isinstance(st, ast.Assign) and isinstance(st.value, ast.Constant) and st.value.value is None and all(isinstance(t, ast.Name) for t in st.targets):
            for t in st.targets:
                resets[t.id] = st
    if not resets:
        return fn
    inner_assigned = {n.id for b in inner.body for n in ast.walk(b) if isinstance(n, ast.Name) and isinstance(n.ctx, (ast.Store, ast.Del))} | \
        {n.id for n in ast.walk(inner.target) if isinstance(n, ast.Name)}

    def pure_invariant(e: ast.expr) -> bool:
        for x in ast.walk(e):
            if isinstance(x, ast.Call) and not (isinstance(x.func, ast.Attribute) and norm(x.func) == "self.module_index") and norm(x.func) != "len":
                return False
            if isinstance(x, ast.Name) and isinstance(x.ctx, ast.Load) and x.id in inner_assigned - set(resets):
                return False
            if isinstance(x, (ast.Lambda, ast.Yield, ast.Await, ast.NamedExpr, ast.GeneratorExp, ast.ListComp)):
                return False
        return True
    done: Set[str] = set()
    bad = False

    def rewrite(stmts: List[ast.stmt]) -> List[ast.stmt]:
        nonlocal bad
        out: List[ast.stmt] = []
        for st in stmts:
            if isinstance(st, ast.If) and not st.orelse and isinstance(st.test, ast.Compare) and len(st.test.ops) == 1 and isinstance(st.test.ops[0], ast.Is) \
                    and isinstance(st.test.left, ast.Name) and st.test.left.id in resets and isinstance(st.test.comparators[0], ast.Constant) \
                    and st.test.comparators[0].value is None \
                    and all(isinstance(b, ast.Assign) and len(b.targets) == 1 and isinstance(b.targets[0], ast.Name) and b.targets[0].id in resets
                            and pure_invariant(b.value) for b in st.body) and any(b.targets[0].id == st.test.left.id for b in st.body):
                out.extend(st.body)
                done.update(b.targets[0].id for b in st.body)
                continue
            for fld in ("body", "orelse", "finalbody"):
                sub = getattr(st, fld, None)
                if isinstance(sub, list) and sub and isinstance(sub[0], ast.stmt):
                    setattr(st, fld, rewrite(sub))
            if isinstance(st, ast.Try):
                for h in st.handlers:
                    h.body = rewrite(h.body)
            out.append(st)
        return out
    inner.body = rewrite(inner.body)
    if not done:
        return fn
    # every memo that was reset must have been rewritten, and must not be assigned anywhere else in the inner loop
    for nm in done:
        n_assign = sum(1 for b in inner.body for n in ast.walk(b) if isinstance(n, ast.Name) and n.id == nm and isinstance(n.ctx, ast.Store))
        if n_assign != 1:
            return fn
    for nm in done:
        st = resets[nm]
        st.targets = [t for t in st.targets if t.id != nm]
    outer.body = [st for st in outer.body if not (isinstance(st, ast.Assign) and not st.targets)]
    ast.fix_missing_locations(new)
    from .. import inline
    inline.number(new)
    return new


def _optional_index_method(repo: Repo, name: str) -> Optional[str]:
    """The link table T when Module.<name>(x) is "the position of x in self.T, or None when it is not there"
    (`try: return self.T.index(x) / except ValueError: return None`, or `self.T.index(x) if x in self.T else None`)."""
    try:
        mod = repo.cls("Module", module="rv.modules.module")
    except Exception:
        return None
    r = repo.lookup(mod, name)
    if r is None or r[1] != "method":
        return None
    fn = r[2]
    try:
        from .. import inline
        fn = inline.normalize(repo, r[0], fn)
    except Exception:
        pass
    body = [st for st in fn.body if not (isinstance(st, ast.Expr) and isinstance(st.value, ast.Constant))]
    params = [a.arg for a in fn.args.args[1:]]
    if len(params) != 1:
        return None
    # try: R = self.T.index(x) / except ValueError: R = None / return R        (a helper read through)
    if len(body) == 2 and isinstance(body[0], ast.Try) and isinstance(body[1], ast.Return) and isinstance(body[1].value, ast.Name) \
            and len(body[0].body) == 1 and isinstance(body[0].body[0], ast.Assign) and len(body[0].handlers) == 1 \
            and len(body[0].handlers[0].body) == 1 and isinstance(body[0].handlers[0].body[0], ast.Assign) and not body[0].orelse and not body[0].finalbody:
        rv_ = body[1].value.id
        a1, a2 = body[0].body[0], body[0].handlers[0].body[0]
        if norm(a1.targets[0]) == rv_ and norm(a2.targets[0]) == rv_:
            t_ = body[0]
            body = [ast.Try(body=[ast.Return(value=a1.value)], handlers=[ast.ExceptHandler(type=t_.handlers[0].type, name=None, body=[ast.Return(value=a2.value)])],
                            orelse=[], finalbody=[])]

    def index_call(e) -> Optional[str]:
        if isinstance(e, ast.Call) and isinstance(e.func, ast.Attribute) and e.func.attr == "index" and len(e.args) == 1 and norm(e.args[0]) == params[0] \
                and isinstance(e.func.value, ast.Attribute) and norm(e.func.value.value) == "self" and e.func.value.attr in TABLES:
            return e.func.value.attr
        return None

    def is_none(e) -> bool:
        return e is None or (isinstance(e, ast.Constant) and e.value is None)
    if len(body) == 1 and isinstance(body[0], ast.Try) and len(body[0].body) == 1 and isinstance(body[0].body[0], ast.Return) \
            and len(body[0].handlers) == 1 and norm(body[0].handlers[0].type) == "ValueError" if body and isinstance(body[0], ast.Try) and body[0].handlers \
            and body[0].handlers[0].type is not None else False:
        t = index_call(body[0].body[0].value)
        h = body[0].handlers[0].body
        if t and len(h) == 1 and isinstance(h[0], ast.Return) and is_none(h[0].value) and not body[0].orelse and not body[0].finalbody:
            return t
    if len(body) == 1 and isinstance(body[0], ast.Return) and isinstance(body[0].value, ast.IfExp):
        e = body[0].value
        t = index_call(e.body)
        if t and is_none(e.orelse) and norm(e.test) == f"{params[0]} in self.{t}":
            return t
    return None


def optional_index_tests(repo: Repo, rep, P: str, proj, fn: ast.FunctionDef):
    """R8: a value that is "position in a link table, or None" may be 0, so it must be tested with `is None` / `is not None`;
    a truthiness test reads a link in slot 0 as no link (the pair is then linked a second time / not unlinked)."""
    rel = proj.file.rel
    construct = f"{rel}:Project.connect"
    opt: Dict[str, Tuple[str, str]] = {}
    for n in ast.walk(fn):
        if isinstance(n, ast.Assign) and len(n.targets) == 1 and isinstance(n.targets[0], ast.Name) and isinstance(n.value, ast.Call) \
                and isinstance(n.value.func, ast.Attribute) and len(n.value.args) == 1 and not n.value.keywords:
            t = _optional_index_method(repo, n.value.func.attr)
            if t is not None:
                opt[n.targets[0].id] = (t, norm(n.value))
    # names bound more than once to different things are not followed
    for nm in list(opt):
        defs = [n for n in ast.walk(fn) if isinstance(n, ast.Name) and n.id == nm and isinstance(n.ctx, ast.Store)]
        if len(defs) != 1:
            del opt[nm]
    if not opt:
        return

    def truth_positions(e: ast.expr):
        if isinstance(e, ast.Name):
            yield e
        elif isinstance(e, ast.UnaryOp) and isinstance(e.op, ast.Not):
            yield from truth_positions(e.operand)
        elif isinstance(e, ast.BoolOp):
            for v in e.values:
                yield from truth_positions(v)
    n_tests = 0
    for n in ast.walk(fn):
        test = n.test if isinstance(n, (ast.If, ast.While, ast.IfExp, ast.Assert)) else None
        if test is None:
            continue
        for nm in truth_positions(test):
            if nm.id in opt:
                n_tests += 1
                t, src = opt[nm.id]
                rep.violation(f"{P}.R8", construct, norm(test),
                              f"`{nm.id}` is {src}: the position of the link in {t}, or None; its truth value is tested, so a link in position 0 "
                              f"is read as no link (witness: the first link of a module, connected twice / disconnected)", f"{rel}:{n.lineno}")
    if n_tests == 0:
        rep.ok(f"{P}.R8", construct, ", ".join(sorted(opt)), "optional link positions are tested with `is None` only")


def ownership_refusal(repo: Repo, rep, P: str):
    """R4 alone (shared with C17): both operands are looked up in this project's module list before any link table is touched."""
    from .. import inline
    proj = repo.cls("Project", module="rv.project")
    fn = unmemoize_operand_lookups(inline.flatten(repo, proj, repo.own_method(proj, "connect")))
    loops, params = operand_loops(fn)
    if not loops:
        rep.inconclusive(f"{P}.R4", f"{proj.file.rel}:Project.connect", "", "no operand loops", proj.file.rel)
        return
    g = CFG(loops[-1], loop_body=True)
    _refusal_dominates(repo, rep, P, f"{proj.file.rel}:Project.connect", proj.file.rel, g)
    from . import c14
    c14.module_index_rule(repo, rep, P, "R4")


# ------------------------------------------------------------------------------ helpers
def operand_loops(fn: ast.FunctionDef) -> Tuple[List[ast.For], List[str]]:
    params = [a.arg for a in fn.args.args if a.arg != "self"][:2]
    loops: List[ast.For] = []

    def rec(stmts):
        for st in stmts:
            if isinstance(st, ast.For):
                from ..packed import subst_locals
                it = subst_locals(fn, st.iter)
                names = {n.id for n in ast.walk(it) if isinstance(n, ast.Name)}
                if names & set(params):
                    loops.append(st)
                rec(st.body)
            elif isinstance(st, (ast.If, ast.With, ast.While)):
                rec(st.body)
                rec(getattr(st, "orelse", []))
            elif isinstance(st, ast.Try):
                rec(st.body)
                for h in st.handlers:
                    rec(h.body)
                rec(st.finalbody)
    rec(fn.body)
    return loops, params


def _whole_operand(e: ast.expr, params: List[str], fn: Optional[ast.FunctionDef]) -> Optional[str]:
    """The operand parameter that `e` denotes in full (directly, copied, or normalised `[p] if single else p`)."""
    while isinstance(e, ast.Call) and norm(e.func) in ("list", "tuple", "iter") and len(e.args) == 1:
        e = e.args[0]
    if isinstance(e, ast.Name) and e.id in params:
        return e.id
    if isinstance(e, ast.Name) and fn is not None:
        from ..packed import subst_locals
        r = subst_locals(fn, e)
        if not (isinstance(r, ast.Name) and r.id == e.id):
            return _whole_operand(r, params, None)
    if isinstance(e, ast.IfExp):
        for single, whole in ((e.body, e.orelse), (e.orelse, e.body)):
            if isinstance(whole, ast.Name) and whole.id in params and isinstance(single, (ast.List, ast.Tuple)) and len(single.elts) == 1 \
                    and norm(single.elts[0]) == whole.id:
                return whole.id
    return None


def loops_cover_all_pairs(loops: List[ast.For], params: List[str], fn: Optional[ast.FunctionDef] = None) -> Optional[str]:
    """None if the loops iterate the full cross product of both operands; else a reason."""
    covered = set()
    for l in loops:
        it = l.iter
        w = _whole_operand(it, params, fn)
        if w is not None:
            covered.add(w)
        elif isinstance(it, ast.Call) and norm(it.func).split(".")[-1] == "product" and not it.keywords:
            for a in it.args:
                wa = _whole_operand(a, params, fn)
                if wa is not None:
                    covered.add(wa)
                else:
                    return f"product argument {norm(a)} is not an operand list"
        else:
            # recognised partial iterations: a slice / a single element of an operand, operands zipped pairwise
            partial = (isinstance(it, ast.Subscript) and _whole_operand(it.value, params, fn) is not None) or \
                (isinstance(it, ast.Call) and norm(it.func) in ("zip", "itertools.zip_longest", "zip_longest", "islice", "itertools.islice")
                 and any(_whole_operand(a, params, fn) is not None for a in it.args))
            return ("" if partial else "?") + f"loop iterates {norm(it)}, not the whole operand list"
    missing = [p for p in params if p not in covered]
    if missing:
        return f"operand list(s) {missing} are not iterated"
    # nesting: every later loop must be inside the first (cross product), unless a single product loop
    for a, b in zip(loops, loops[1:]):
        if not any(n is b for n in ast.walk(a)):
            return "operand loops are not nested (pairs are not the cross product)"
    return None


def connect_rules(repo: Repo, rep, P: str, proj, fn: ast.FunctionDef):
    rel = proj.file.rel
    construct = f"{rel}:Project.connect"
    loops, params = operand_loops(fn)
    if len(params) < 2:
        rep.inconclusive(f"{P}.R1", construct, "", "connect does not take two operands", f"{rel}:{fn.lineno}")
        return
    if not loops:
        rep.inconclusive(f"{P}.R1", construct, "", "no loop over the operand lists found", f"{rel}:{fn.lineno}")
        return
    why = loops_cover_all_pairs(loops, params, fn)
    if why and why.startswith("?"):
        rep.inconclusive(f"{P}.R1", construct, "; ".join(f"for {norm(l.target)} in {norm(l.iter)}" for l in loops),
                         f"what the loop iterates is not read: {why[1:]}", f"{rel}:{loops[0].lineno}")
    elif why:
        rep.violation(f"{P}.R1", construct, "; ".join(f"for {norm(l.target)} in {norm(l.iter)}" for l in loops),
                      f"not every (from, to) pair is visited: {why}", f"{rel}:{loops[0].lineno}")
    else:
        rep.ok(f"{P}.R1", construct, "; ".join(f"for {norm(l.target)} in {norm(l.iter)}" for l in loops),
               "full cross product of the operand lists")
    rep.count("operand_loops", len(loops), 1)
    # R1: no return / break leaves the operand loops early
    loop_ids = {id(l) for l in loops}
    n_exits = 0

    def scan(stmts, nearest_is_operand_loop):
        nonlocal n_exits
        for st in stmts:
            if isinstance(st, ast.Return):
                n_exits += 1
                rep.violation(f"{P}.R1", construct, f"return   (inside `for {norm(loops[-1].target)} in {norm(loops[-1].iter)}`; guard: {_guard_of(fn, st)})",
                              "`return` inside the operand loops abandons every remaining (from, to) pair of the "
                              "request: a list operand that contains an already handled pair leaves later pairs untouched",
                              f"{rel}:{st.lineno}")
            elif isinstance(st, ast.Break) and nearest_is_operand_loop:
                n_exits += 1
                rep.violation(f"{P}.R1", construct, f"break   (guard: {_guard_of(fn, st)})",
                              "`break` out of an operand loop skips the remaining pairs", f"{rel}:{st.lineno}")
            elif isinstance(st, (ast.For, ast.While)):
                scan(st.body, id(st) in loop_ids)
                scan(st.orelse, nearest_is_operand_loop)
            elif isinstance(st, ast.If):
                scan(st.body, nearest_is_operand_loop)
                scan(st.orelse, nearest_is_operand_loop)
            elif isinstance(st, ast.With):
                scan(st.body, nearest_is_operand_loop)
            elif isinstance(st, ast.Try):
                scan(st.body, nearest_is_operand_loop)
                for h in st.handlers:
                    scan(h.body, nearest_is_operand_loop)
                scan(st.orelse, nearest_is_operand_loop)
                scan(st.finalbody, nearest_is_operand_loop)
    scan(loops[0].body, True)
    if n_exits == 0:
        rep.ok(f"{P}.R1", construct, "no return/break inside the operand loops")
    # ---- the per-pair body
    inner = loops[-1]
    body_holder = inner
    helper_name = None
    if not any(isinstance(n, ast.Attribute) and n.attr in TABLES for st in inner.body for n in ast.walk(st)):
        # body delegated to a helper method?
        for st in inner.body:
            for c in ast.walk(st):
                if isinstance(c, ast.Call) and isinstance(c.func, ast.Attribute) and norm(c.func.value) == "self" \
                        and c.func.attr in proj.methods:
                    h = proj.methods[c.func.attr]
                    if any(isinstance(n, ast.Attribute) and n.attr in TABLES for n in ast.walk(h)):
                        body_holder = h
                        helper_name = c.func.attr
    g = CFG(body_holder, loop_body=helper_name is None)
    pconstruct = construct if helper_name is None else f"{rel}:Project.{helper_name}"
    ends = [g.exit, g.raise_exit] + ([g.ret_exit, g.break_exit] if helper_name is None else [])
    paths = g.paths(g.entry, ends, max_visits=1, limit=5000)
    if paths is None:
        rep.inconclusive(f"{P}.R2", pconstruct, "", "too many paths through one pair iteration", f"{rel}:{inner.lineno}")
        return
    paths = [p_ for p_ in paths if g.feasible(p_)]         # e.g. `slot = None` in a handler, then `if slot is not None` taken
    rep.count("pair_iteration_paths", len(paths), 4)
    n_mut_paths = 0
    seen_shapes = set()
    for path in paths:
        end = path[-1][0]
        muts, aliases, binds = links.path_events(g, path)
        last_real = [g.nodes[n] for n, _ in path if g.nodes[n].kind in ("stmt", "test", "handler")]
        ends_in_raise = end == g.raise_exit
        explicit_raise = ends_in_raise and last_real and isinstance(last_real[-1].ast, ast.Raise)
        if ends_in_raise and not explicit_raise:
            continue   # spurious exception edge of an ordinary statement
        shape = (tuple(m.short() for m in muts), "raise" if ends_in_raise else "normal")
        if shape in seen_shapes:
            continue
        seen_shapes.add(shape)
        where = f"{rel}:{muts[0].node.lineno}" if muts else f"{rel}:{inner.lineno}"
        if ends_in_raise:
            # R4: refusal before mutation
            if muts:
                rep.violation(f"{P}.R4", pconstruct, f"{'; '.join(m.short() for m in muts)}; then {last_real[-1].text()}",
                              "a path mutates link tables and then refuses the request: a refused link leaves changes behind",
                              where)
            else:
                rep.ok(f"{P}.R4", pconstruct, last_real[-1].text(), "refusal path performs no table mutation")
            continue
        if not muts:
            continue
        n_mut_paths += 1
        _pair_discipline(rep, P, pconstruct, rel, muts, where)
        _cross_refs(rep, P, pconstruct, rel, g, path, muts, where)
    rep.count("mutating_path_shapes", n_mut_paths, 2)
    if helper_name is None:
        _iteration_independence(rep, P, construct, rel, loops, g)
    _refusal_dominates(repo, rep, P, pconstruct, rel, g)
    from . import c14
    c14.module_index_rule(repo, rep, P, "R4")
    _unwrap_rule(rep, P, construct, rel, fn)


def _iteration_independence(rep, P, construct, rel, loops: List[ast.For], g: CFG):
    """R7: no local is carried from one pair iteration into the next.

    A variable that the per-pair body both assigns and reads before (re)assigning it on some path,
    and that the innermost loop does not rebind, keeps the value a previous pair gave it — e.g. an
    operand of the outer loop unwrapped in place while the per-pair flag is reset.
    """
    inner = loops[-1]
    rebound = {n.id for n in ast.walk(inner.target) if isinstance(n, ast.Name)}
    assigned: Set[str] = set()
    for n in g.nodes:
        if n.kind == "stmt" and n.ast is not None:
            for t in _assigned_names(n.ast):
                assigned.add(t)
        elif n.kind == "for":
            assigned |= {x.id for x in ast.walk(n.ast.target) if isinstance(x, ast.Name)}
    # upward-exposed uses: forward "definitely assigned" dataflow
    def transfer(node: Node, st, label):
        if node.kind == "stmt" and node.ast is not None and label != "exc":
            return st | frozenset(_assigned_names(node.ast))
        if node.kind == "for" and label == "iter":
            return st | frozenset(x.id for x in ast.walk(node.ast.target) if isinstance(x, ast.Name))
        return st
    states = g.solve(frozenset(), transfer, lambda a, b: a & b)
    carried: Dict[str, Node] = {}
    for n in g.nodes:
        if n.id not in states or n.ast is None or n.kind in ("with_exit", "handler", "except"):
            continue
        root = n.ast.iter if n.kind == "for" else n.ast
        used = {x.id for x in ast.walk(root) if isinstance(x, ast.Name) and isinstance(x.ctx, ast.Load)}
        used |= {x.target.id for x in ast.walk(root) if isinstance(x, ast.AugAssign) and isinstance(x.target, ast.Name)}       # `d |= u` reads d
        for v in used:
            if v in assigned and v not in rebound and v not in states[n.id] and v not in carried:
                carried[v] = n
    outer_targets = {x.id for l in loops[:-1] for x in ast.walk(l.target) if isinstance(x, ast.Name)}
    if not carried:
        rep.ok(f"{P}.R7", construct, f"per-pair body rebinds {sorted(rebound)}; assigns {sorted(assigned)}",
               "no local is read before being (re)assigned in the pair iteration")
        return
    for v, n in sorted(carried.items()):
        kind = "the outer loop's operand" if v in outer_targets else "a local"
        rep.violation(f"{P}.R7", construct, f"{v}: read at `{n.text()}` before its assignment in the same iteration",
                      f"`{v}` ({kind}) is re-assigned inside the per-pair body but read at the top of the next pair "
                      "iteration, so what one pair did to it (e.g. stripping the ~ marker) leaks into the following "
                      "pairs while the per-pair flag is reset: `connect(~a, [b, c])` disconnects only the first pair",
                      f"{rel}:{n.lineno}")


def _assigned_names(st: ast.AST) -> List[str]:
    out = []
    tg = []
    if isinstance(st, ast.Assign):
        tg = st.targets
    elif isinstance(st, (ast.AugAssign, ast.AnnAssign)):
        tg = [st.target]
    for t in tg:
        for x in ast.walk(t):
            if isinstance(x, ast.Name) and isinstance(x.ctx, ast.Store):
                out.append(x.id)
    return out


def _guard_of(fn, target) -> str:
    """Nearest enclosing `if` test of a statement."""
    best = ""

    def rec(stmts, guard):
        nonlocal best
        for st in stmts:
            if st is target:
                best = guard
            if isinstance(st, ast.If):
                rec(st.body, norm(st.test))
                rec(st.orelse, "not " + norm(st.test))
            elif isinstance(st, (ast.For, ast.While, ast.With)):
                rec(st.body, guard)
            elif isinstance(st, ast.Try):
                rec(st.body, guard)
                for h in st.handlers:
                    rec(h.body, guard)
    rec(fn.body, "")
    return best


def _pair_discipline(rep, P, construct, rel, muts: List[Mut], where):
    text = "; ".join(m.short() for m in muts)
    unknown = [m for m in muts if m.kind not in ("append", "setidx")]
    if unknown:
        rep.inconclusive(f"{P}.R2", construct, text, f"unmodelled table mutation {unknown[0].short()}", where)
        return
    groups: Dict[Tuple[str, str], Dict[str, List[Mut]]] = {}
    for m in muts:
        groups.setdefault((m.base, SIDE[m.table]), {}).setdefault(m.table, []).append(m)
    ok = True
    for (base, side), tabs in groups.items():
        l = tabs.get(f"{side}_links", [])
        s = tabs.get(f"{side}_link_slots", [])
        if [m.kind for m in l] != [m.kind for m in s]:
            ok = False
            rep.violation(f"{P}.R2", construct, text,
                          f"on this path {base}.{side}_links gets {[m.kind for m in l]} but its parallel table "
                          f"{base}.{side}_link_slots gets {[m.kind for m in s]}: the two lists go out of step", where)
            continue
        for a, b in zip(l, s):
            if a.kind == "setidx":
                if a.index != b.index:
                    ok = False
                    rep.violation(f"{P}.R2", construct, f"{a.short()}; {b.short()}",
                                  f"parallel tables of {base} are blanked at different positions ({a.index} vs {b.index})", where)
                if a.value != b.value or a.value not in ("-1",):
                    ok = False
                    rep.violation(f"{P}.R2", construct, f"{a.short()}; {b.short()}",
                                  "freed entries must be marked -1 in both parallel tables", where)
    sides = {}
    for (base, side), tabs in groups.items():
        sides.setdefault(side, []).append((base, [m.kind for m in tabs.get(f"{side}_links", [])]))
    ins, outs = sides.get("in", []), sides.get("out", [])
    if bool(ins) != bool(outs):
        ok = False
        rep.violation(f"{P}.R2", construct, text,
                      "only one end of the link is updated on this path (incoming tables of the target and outgoing "
                      "tables of the source must change together)", where)
    elif ins and outs:
        if sorted(k for _, k in ins) != sorted(k for _, k in outs):
            ok = False
            rep.violation(f"{P}.R2", construct, text, "the two ends of the link are updated differently", where)
        if {b for b, _ in ins} & {b for b, _ in outs}:
            ok = False
            rep.violation(f"{P}.R2", construct, text,
                          "incoming and outgoing tables of the SAME module are updated: the other end is not recorded", where)
    if ok:
        rep.ok(f"{P}.R2", construct, text, "parallel tables and both ends updated together")
        rep.sample({"path_mutations": [m.short() for m in muts]})


def _cross_refs(rep, P, construct, rel, g: CFG, path, muts: List[Mut], where):
    """R3 in a list-length symbolic domain."""
    aliases: Dict[str, Tuple[str, str]] = {}
    appended: Dict[Tuple[str, str], int] = {}
    env: Dict[str, tuple] = {}
    events = []       # (kind, tableref, position/index-symbol, value-symbol, node)

    roots: Dict[str, str] = {}       # plain copies of module variables: `to_module = operand`  (re-set when the name is bound to anything else)

    def root(nm: str) -> str:
        seen_ = set()
        while nm in roots and nm not in seen_:
            seen_.add(nm)
            nm = roots[nm]
        return nm

    def tref(e):
        r_ = links.table_ref(e, aliases)
        return (root(r_[0]), r_[1]) if r_ is not None else None

    def sym(e: ast.AST) -> tuple:
        if isinstance(e, ast.Name):
            return env.get(e.id, ("var", e.id))
        if isinstance(e, ast.BinOp) and isinstance(e.op, (ast.Sub, ast.Add)) and isinstance(e.right, ast.Constant) and isinstance(e.right.value, int):
            # len(T) − 1 right after an append to T is the position of the new entry: lengths are counted relative to the path start
            l = sym(e.left)
            if l[0] == "len":
                k = l[2] - e.right.value if isinstance(e.op, ast.Sub) else l[2] + e.right.value
                if k >= 0:
                    return ("len", l[1], k)
        if isinstance(e, ast.Call):
            f = e.func
            if norm(f) == "len" and len(e.args) == 1:
                r = tref(e.args[0])
                if r is not None:
                    return ("len", r, appended.get(r, 0))
            if isinstance(f, ast.Attribute) and f.attr == "index" and len(e.args) == 1:
                r = tref(f.value)
                if r is not None:
                    return ("index", r, sym(e.args[0]))
                if norm(f.value) == "self.modules":
                    return ("modidx", root(norm(e.args[0])))
            if norm(f) == "self.module_index" and len(e.args) == 1:
                return ("modidx", root(norm(e.args[0])))
        if isinstance(e, ast.UnaryOp) and isinstance(e.op, ast.USub) and isinstance(e.operand, ast.Constant):
            return ("const", -e.operand.value)
        if isinstance(e, ast.Constant):
            return ("const", e.value)
        if isinstance(e, ast.Attribute) and e.attr == "index":
            return ("modattr", norm(e.value))
        return ("expr", norm(e))

    for nid, lab in path:
        n = g.nodes[nid]
        if n.kind != "stmt" or n.ast is None or lab == "exc":
            continue
        st = n.ast
        if isinstance(st, ast.Assign) and len(st.targets) == 1 and isinstance(st.targets[0], ast.Name):
            r = links.table_ref(st.value, aliases)
            if r is not None:
                aliases[st.targets[0].id] = (root(r[0]), r[1])
                continue
            if isinstance(st.value, ast.Name):
                roots[st.targets[0].id] = root(st.value.id)
            else:
                roots.pop(st.targets[0].id, None)
            env[st.targets[0].id] = sym(st.value)
            continue
        if isinstance(st, ast.Assign):
            for t in st.targets:
                if isinstance(t, ast.Subscript):
                    r = tref(t.value)
                    if r is not None:
                        events.append(("setidx", r, sym(t.slice), sym(st.value), st))
        for c in ast.walk(st):
            if isinstance(c, ast.Call) and isinstance(c.func, ast.Attribute) and c.func.attr == "append" and c.args:
                r = tref(c.func.value)
                if r is not None:
                    events.append(("append", r, appended.get(r, 0), sym(c.args[0]), c))
                    appended[r] = appended.get(r, 0) + 1
    text = "; ".join(m.short() for m in muts)
    apps = [e for e in events if e[0] == "append"]
    sets = [e for e in events if e[0] == "setidx"]
    if apps:
        by = {e[1][1]: e for e in apps}
        if not all(t in by for t in TABLES) or len(apps) != 4:
            return   # reported by R2
        in_l, in_s, out_l, out_s = by["in_links"], by["in_link_slots"], by["out_links"], by["out_link_slots"]
        tgt, src = in_l[1][0], out_l[1][0]
        ok = True

        def unread(v) -> bool:
            """a value the evaluator could not name (a bare variable / an arbitrary expression) somewhere inside"""
            if isinstance(v, tuple):
                return (bool(v) and v[0] in ("var", "expr")) or any(unread(x) for x in v[1:])
            return False
        if any(unread(e_[3]) for e_ in (in_l, in_s, out_l, out_s)):
            rep.inconclusive(f"{P}.R3", construct, text, "a value appended to a link table is not followed to the module index / table length it comes from", where)
            return
        # values of the link lists: index of the module at the other end
        if in_l[3] != ("modidx", src):
            ok = False
            rep.violation(f"{P}.R3", construct, f"{tgt}.in_links.append(...) value {in_l[3]}",
                          f"the incoming table of `{tgt}` must record the index of the source `{src}`", where)
        if out_l[3] != ("modidx", tgt):
            ok = False
            rep.violation(f"{P}.R3", construct, f"{src}.out_links.append(...) value {out_l[3]}",
                          f"the outgoing table of `{src}` must record the index of the target `{tgt}`", where)
        # slots: position of the entry at the other end
        want_in_s = ("len", (src, "out_links"), out_l[2])
        want_out_s = ("len", (tgt, "in_links"), in_l[2])
        if in_s[3] != want_in_s:
            ok = False
            rep.violation(f"{P}.R3", construct, text,
                          f"{tgt}.in_link_slots receives {_show(in_s[3])}; it must be the position of the new entry in "
                          f"{src}.out_links (= its length before the append)", where)
        if out_s[3] != want_out_s:
            ok = False
            rep.violation(f"{P}.R3", construct, text,
                          f"{src}.out_link_slots receives {_show(out_s[3])}; it must be the position of the new entry in "
                          f"{tgt}.in_links (= its length before the append)", where)
        if in_l[2] != in_s[2] or out_l[2] != out_s[2]:
            ok = False
            rep.violation(f"{P}.R3", construct, text, "entry and slot are appended at different positions", where)
        if ok:
            rep.ok(f"{P}.R3", construct, text,
                   f"in_links[L_in]={src}, in_link_slots[L_in]=L_out, out_links[L_out]={tgt}, out_link_slots[L_out]=L_in")
    if sets:
        by: Dict[str, tuple] = {e[1][1]: e for e in sets}
        if not all(t in by for t in TABLES) or len(sets) != 4:
            return
        in_l, in_s, out_l, out_s = by["in_links"], by["in_link_slots"], by["out_links"], by["out_link_slots"]
        tgt, src = in_l[1][0], out_l[1][0]
        ok = True
        want_in = ("index", (tgt, "in_links"), ("modidx", src))
        want_out = ("index", (src, "out_links"), ("modidx", tgt))
        def unread2(v) -> bool:
            if isinstance(v, tuple):
                return (bool(v) and v[0] in ("var", "expr")) or any(unread2(x) for x in v[1:])
            return False
        if any(unread2(e_[2]) for e_ in (in_l, in_s, out_l, out_s)):
            rep.inconclusive(f"{P}.R3", construct, text, "the position at which a link table is blanked is not followed to an index() look-up", where)
            return
        for e, want, nm in ((in_l, want_in, "in_links"), (in_s, want_in, "in_link_slots"),
                            (out_l, want_out, "out_links"), (out_s, want_out, "out_link_slots")):
            if e[2] != want:
                ok = False
                rep.violation(f"{P}.R3", construct, text,
                              f"{nm} is blanked at {_show(e[2])}; expected the position of the link being removed "
                              f"({_show(want)})", where)
            if e[3] != ("const", -1):
                ok = False
                rep.violation(f"{P}.R3", construct, text, f"{nm} freed entry is not -1", where)
        if ok:
            rep.ok(f"{P}.R3", construct, text, "both ends blanked at the position of the removed link")


def _show(s) -> str:
    if isinstance(s, tuple) and s and s[0] == "len":
        return f"len({s[1][0]}.{s[1][1]}) taken after {s[2]} append(s)"
    if isinstance(s, tuple) and s and s[0] == "index":
        return f"{s[1][0]}.{s[1][1]}.index({_show(s[2])})"
    if isinstance(s, tuple) and s and s[0] == "modidx":
        return f"module_index({s[1]})"
    return str(s)


def _refusal_dominates(repo, rep, P, construct, rel, g: CFG):
    lookups = []
    for n in g.nodes:
        if n.kind == "stmt" and isinstance(n.ast, ast.Assign):
            v = n.ast.value
            if isinstance(v, ast.Call) and (norm(v.func) == "self.module_index" or norm(v.func) == "self.modules.index"):
                lookups.append(n)
    by_arg: Dict[str, List[Node]] = {}
    for l in lookups:
        by_arg.setdefault(norm(l.ast.value.args[0]) if l.ast.value.args else "?", []).append(l)
    if len(by_arg) < 2:
        rep.violation(f"{P}.R4", construct, "; ".join(l.text() for l in lookups) or "module_index look-ups",
                      "both operands must be looked up in this project's module list before any table is touched "
                      "(that look-up is what refuses modules of another project)",
                      f"{rel}:{lookups[0].lineno if lookups else 0}")
        return
    dom = g.dominators()
    aliases: Dict[str, Tuple[str, str]] = {}
    mut_nodes = []
    for n in g.nodes:
        if n.kind == "stmt" and n.ast is not None:
            if links.stmt_muts(n.ast, aliases):
                mut_nodes.append(n)
    # every mutation is dominated by a look-up of EACH operand (the look-ups may be written once per branch)
    bad = [m for m in mut_nodes if not all(any(l.id in dom.get(m.id, set()) for l in ls) for ls in by_arg.values())]
    if bad:
        rep.violation(f"{P}.R4", construct, bad[0].text(),
                      "a link table is mutated on a path that has not yet checked that both modules belong to this project",
                      f"{rel}:{bad[0].lineno}")
    else:
        rep.ok(f"{P}.R4", construct, "; ".join(l.text() for l in lookups), f"dominate all {len(mut_nodes)} mutation statements")
    # the failure of a look-up leads to ModuleOwnershipError
    for l in lookups:
        excs = [m for m, lab in g.succ[l.id] if lab == "exc"]
        good = False
        for m in excs:
            if g.nodes[m].kind == "except":
                for h, _ in g.succ[m]:
                    hn = g.nodes[h]
                    if hn.kind == "handler":
                        typ = norm(hn.ast.type) if hn.ast.type is not None else "BaseException"
                        raises = [s for s in hn.ast.body if isinstance(s, ast.Raise) and s.exc is not None
                                  and "ModuleOwnershipError" in norm(s.exc)]
                        if raises and any(t in typ for t in ("ValueError", "Exception", "BaseException")):
                            good = True
        if good:
            rep.ok(f"{P}.R4", construct, l.text(), "ValueError → ModuleOwnershipError")
        else:
            rep.violation(f"{P}.R4", construct, l.text(),
                          "a module that is not in this project is no longer refused with ModuleOwnershipError",
                          f"{rel}:{l.lineno}")


def _unwrap_rule(rep, P, construct, rel, fn):
    """connect unwraps a DisconnectingModule on either operand and takes the disconnect branch: the condition that selects the
    unlink branch depends (through data or control) on `isinstance(x, DisconnectingModule)` for BOTH operands, and both are
    replaced by `.orig`."""
    loops, params = operand_loops(fn)
    operand_vars = [n.id for l in loops[-2:] for n in ast.walk(l.target) if isinstance(n, ast.Name)]
    if len(operand_vars) < 2:
        rep.inconclusive(f"{P}.R5", construct, "", "operand loops not found", f"{rel}:{fn.lineno}")
        return
    body = loops[-2] if len(loops) >= 2 else loops[-1]         # what the outer loop does before the inner one runs before every pair as well
    parents: Dict[int, ast.AST] = {}
    for n in ast.walk(body):
        for c in ast.iter_child_nodes(n):
            parents[id(c)] = n
    # aliases of the operand variables (from_module = from_operand / tuple assignment / .orig / conditional expression)
    origin: Dict[str, Set[str]] = {v: {v} for v in operand_vars}
    changed = True
    while changed:
        changed = False
        for n in ast.walk(body):
            if isinstance(n, ast.Assign) and len(n.targets) == 1:
                pairs = []
                t, v = n.targets[0], n.value
                if isinstance(t, ast.Tuple) and isinstance(v, ast.Tuple) and len(t.elts) == len(v.elts):
                    pairs = list(zip(t.elts, v.elts))
                else:
                    pairs = [(t, v)]
                for tt, vv in pairs:
                    if isinstance(tt, ast.Name):
                        src = set()
                        for m in ast.walk(vv):
                            if isinstance(m, ast.Name) and m.id in origin:
                                src |= origin[m.id]
                        if src and not src <= origin.get(tt.id, set()):
                            origin.setdefault(tt.id, set()).update(src)
                            changed = True
    # the unlink branch: an If one of whose branches stores -1 into a link table
    unlink_if = None
    for n in ast.walk(body):
        if isinstance(n, ast.If):
            def blanks(stmts):
                return any(isinstance(x, ast.Assign) and isinstance(x.targets[0], ast.Subscript) and norm(x.value) == "-1"
                           for st in stmts for x in ast.walk(st))
            b, o = blanks(n.body), blanks(n.orelse)
            if b != o and not isinstance(n.test, ast.Constant):
                # the outermost non-constant test that separates blanking from not blanking
                if unlink_if is None:
                    unlink_if = n
    if unlink_if is None:
        rep.inconclusive(f"{P}.R5", construct, "", "branch that blanks a link (… = -1) not found", f"{rel}:{fn.lineno}")
        return
    # dependence closure of the branch condition
    seen_names: Set[str] = set()
    tested: Set[str] = set()
    work = [unlink_if.test]
    # control dependence of the unlink branch itself
    cur: ast.AST = unlink_if
    while id(cur) in parents:
        cur = parents[id(cur)]
        if isinstance(cur, ast.If):
            work.append(cur.test)
    while work:
        e = work.pop()
        for m in ast.walk(e):
            if isinstance(m, ast.Call) and norm(m.func) == "isinstance" and len(m.args) == 2 and "DisconnectingModule" in norm(m.args[1]):
                for q in ast.walk(m.args[0]):
                    if isinstance(q, ast.Name):
                        tested |= origin.get(q.id, {q.id})
            if isinstance(m, ast.Name) and m.id not in seen_names:
                seen_names.add(m.id)
                for a in ast.walk(body):
                    if isinstance(a, (ast.Assign, ast.AugAssign)):
                        tg = a.targets if isinstance(a, ast.Assign) else [a.target]
                        if any(isinstance(x, ast.Name) and x.id == m.id for t in tg for x in ast.walk(t)):
                            work.append(a.value)
                            c2: ast.AST = a
                            while id(c2) in parents:
                                c2 = parents[id(c2)]
                                if isinstance(c2, ast.If):
                                    work.append(c2.test)
    unwrapped: Set[str] = set()
    for m in ast.walk(body):
        if isinstance(m, ast.Attribute) and m.attr == "orig":
            for q in ast.walk(m.value):
                if isinstance(q, ast.Name):
                    unwrapped |= origin.get(q.id, {q.id})
    need = set(operand_vars)
    missing_t, missing_u = sorted(need - tested), sorted(need - unwrapped)
    if not missing_t and not missing_u:
        rep.ok(f"{P}.R5", construct, f"if {norm(unlink_if.test)}: … = -1", "either operand may carry the ~ marker (the unlink condition depends on both isinstance tests)")
    elif not unwrapped and not missing_t:
        rep.inconclusive(f"{P}.R5", construct, f"if {norm(unlink_if.test)}",
                         "both operands are tested for the ~ marker, but how the marker is unwrapped (no `.orig` access) is not recognised",
                         f"{rel}:{unlink_if.lineno}")
    elif not (tested & need) and not (unwrapped & need):
        # neither the test nor the unwrapping is visible on either operand: it happens somewhere this rule does not read
        rep.inconclusive(f"{P}.R5", construct, f"if {norm(unlink_if.test)}",
                         "where the ~ marker of the operands is tested and unwrapped is not recognised", f"{rel}:{unlink_if.lineno}")
    else:
        rep.violation(f"{P}.R5", construct, f"if {norm(unlink_if.test)}",
                      f"the ~ marker is unwrapped for operands {sorted(need - set(missing_u))} and tested for {sorted(need - set(missing_t))} only "
                      "(both needed, each selecting the disconnect branch)", f"{rel}:{unlink_if.lineno}")


# ------------------------------------------------------------------------------ R5
def operator_rules(repo: Repo, rep, P: str):
    modfile = repo.module("rv.modules.module")
    rel = modfile.rel
    want = {"__lshift__": "self.parent.connect(other, self)", "__rshift__": "self.parent.connect(self, other)"}
    n = 0
    from .. import inline
    for cname in ("Module", "ModuleList"):
        ci = repo.cls(cname, module="rv.modules.module")
        for op, call in want.items():
            r_ = repo.lookup(ci, op)          # own or inherited (a shared mixin)
            fn = r_[2] if r_ is not None and r_[1] == "method" else None
            if fn is not None and r_[0] is not ci:
                ci_owner = r_[0]
            else:
                ci_owner = ci
            if fn is None:
                rep.violation(f"{P}.R5", f"{rel}:{cname}.{op}", f"def {op}", "operator removed", f"{rel}:{ci.node.lineno}")
                continue
            n += 1
            from ..packed import subst_locals
            fn = inline.flatten(repo, ci_owner, fn, sf=modfile)
            calls = [norm(subst_locals(fn, c)) for c in walk_no_nested(fn) if isinstance(c, ast.Call) and norm(c.func).endswith(".connect")]
            if calls != [call]:
                # flow-sensitive copies at the top level: `other__a = other; self.parent.connect(other__a, self); other__a = ModuleList(…)`
                import copy as _copy
                env_c: Dict[str, str] = {}
                calls2 = []
                for st_ in fn.body:
                    for c in walk_no_nested(st_):
                        if isinstance(c, ast.Call) and norm(c.func).endswith(".connect"):
                            c2 = _copy.deepcopy(c)
                            for m_ in ast.walk(c2):
                                if isinstance(m_, ast.Name) and m_.id in env_c:
                                    m_.id = env_c[m_.id]
                            calls2.append(norm(c2))
                    if isinstance(st_, ast.Assign) and len(st_.targets) == 1 and isinstance(st_.targets[0], ast.Name) and isinstance(st_.value, ast.Name):
                        env_c[st_.targets[0].id] = env_c.get(st_.value.id, st_.value.id)
                    else:
                        for m_ in ast.walk(st_):
                            if isinstance(m_, ast.Name) and isinstance(m_.ctx, ast.Store):
                                env_c.pop(m_.id, None)
                if calls2 == [call]:
                    calls = calls2
            if calls == [call]:
                rep.ok(f"{P}.R5", f"{rel}:{cname}.{op}", call)
            else:
                rep.violation(f"{P}.R5", f"{rel}:{cname}.{op}", "; ".join(calls) or "(no connect call)",
                              f"`{'<<' if op == '__lshift__' else '>>'}` must call {call} (operand order decides the direction)",
                              f"{rel}:{fn.lineno}")
            # returns the right operand (chaining)
            rets = [norm(s.value) for s in walk_no_nested(fn) if isinstance(s, ast.Return) and s.value is not None]
            if rets != ["other"]:
                rep.info(f"{P}.R5", f"{rel}:{cname}.{op}", "; ".join(rets), "operator does not return the other operand")
    rep.count("operator_methods", n, 4)
    mod = repo.cls("Module", module="rv.modules.module")
    inv = mod.methods.get("__invert__")
    invn = inline.normalize(repo, mod, inv) if inv is not None else None
    rets = [st.value for st in walk_no_nested(invn) if isinstance(st, ast.Return) and st.value is not None] if invn is not None else []
    wraps = [r for r in rets if isinstance(r, ast.Call) and norm(r.func).split(".")[-1] == "DisconnectingModule"
             and (any(norm(a) == "self" for a in r.args) or any(norm(k.value) == "self" for k in r.keywords))]
    if rets and len(wraps) == len(rets):
        rep.ok(f"{P}.R5", f"{rel}:Module.__invert__", "return DisconnectingModule(self)")
    elif rets and not any(isinstance(r, ast.Call) for r in rets):
        rep.violation(f"{P}.R5", f"{rel}:Module.__invert__", norm(inv)[:100] if inv else "missing",
                      "~module must wrap the module in the disconnect marker", f"{rel}:{inv.lineno if inv else 0}")
    else:
        rep.inconclusive(f"{P}.R5", f"{rel}:Module.__invert__", norm(inv)[:100] if inv else "missing",
                         "construction of the disconnect marker not recognised", f"{rel}:{inv.lineno if inv else 0}")
    dm = repo.cls("DisconnectingModule", module="rv.modules.module")

    def key_written(fn) -> Optional[str]:
        """K such that __init__ stores its parameter under instance-dictionary key K."""
        ps = [a.arg for a in fn.args.args if a.arg != "self"]
        for n in ast.walk(fn):
            if isinstance(n, ast.Assign) and len(n.targets) == 1 and isinstance(n.targets[0], ast.Subscript) \
                    and norm(n.targets[0].value) in ("self.__dict__", "vars(self)") and isinstance(n.targets[0].slice, ast.Constant) and norm(n.value) in ps:
                return n.targets[0].slice.value
            if isinstance(n, ast.Call) and isinstance(n.func, ast.Attribute) and n.func.attr == "update" and norm(n.func.value) in ("self.__dict__", "vars(self)"):
                for k in n.keywords:
                    if k.arg is not None and norm(k.value) in ps:
                        return k.arg
                if n.args and isinstance(n.args[0], ast.Dict):
                    for kk, vv in zip(n.args[0].keys, n.args[0].values):
                        if isinstance(kk, ast.Constant) and norm(vv) in ps:
                            return kk.value
            if isinstance(n, ast.Call) and norm(n.func) in ("object.__setattr__", "super().__setattr__") and len(n.args) >= 2:
                args = n.args[1:] if norm(n.func) == "object.__setattr__" else n.args
                if len(args) == 2 and isinstance(args[0], ast.Constant) and norm(args[1]) in ps:
                    return args[0].value
        return None

    def key_read(fn) -> Optional[str]:
        for st in walk_no_nested(fn):
            if isinstance(st, ast.Return) and st.value is not None:
                v = st.value
                if isinstance(v, ast.Subscript) and norm(v.value) in ("self.__dict__", "vars(self)") and isinstance(v.slice, ast.Constant):
                    return v.slice.value
                if isinstance(v, ast.Call) and norm(v.func) in ("object.__getattribute__", "super().__getattribute__") and v.args \
                        and isinstance(v.args[-1], ast.Constant):
                    return v.args[-1].value
                if norm(v) == "self":
                    return "<self>"
        return None
    inv2, init2 = dm.methods.get("__invert__"), dm.methods.get("__init__")
    kw_, kr_ = (key_written(inline.normalize(repo, dm, init2)) if init2 is not None else None,
                key_read(inline.normalize(repo, dm, inv2, sf=dm.file, also=_module_helper_names(repo, dm.file))) if inv2 is not None else None)
    if kw_ is not None and kw_ == kr_:
        rep.ok(f"{P}.R5", f"{rel}:DisconnectingModule", "__init__ stores orig; __invert__ returns it")
    elif kw_ is not None and kr_ is not None:
        rep.violation(f"{P}.R5", f"{rel}:DisconnectingModule", f"stored under {kw_!r}, ~ returns {kr_!r}", "the disconnect marker no longer carries the original module",
                      f"{rel}:{dm.node.lineno}")
    else:
        rep.inconclusive(f"{P}.R5", f"{rel}:DisconnectingModule", f"stored under {kw_!r}, ~ returns {kr_!r}",
                         "how the disconnect marker keeps the original module is not recognised", f"{rel}:{dm.node.lineno}")


def _module_helper_names(repo: Repo, sf) -> Tuple[str, ...]:
    return tuple(st.name for st in sf.tree.body if isinstance(st, ast.FunctionDef) and st.name.startswith("_"))


# ------------------------------------------------------------------------------ R6
def census_rule(repo: Repo, rep, P: str, only_report_new: bool = False):
    cen = links.census(repo)
    total = 0
    for fnq, muts in sorted(cen.items()):
        total += len(muts)
        if fnq in ALLOWED_WRITERS:
            rep.ok(f"{P}.R6", fnq, f"{len(muts)} mutation site(s)", ALLOWED_WRITERS[fnq], nontrivial=True)
            continue
        tabs = {m.table for m in muts}
        lonely = [t for t in tabs if PAIR[t] not in tabs]
        text = "; ".join(m.short() for m in muts[:4])
        where = f"{fnq.split(':')[0]}:{muts[0].node.lineno}"
        if lonely:
            rep.violation(f"{P}.R6", fnq, text,
                          f"a new function mutates {sorted(lonely)} without touching the parallel table(s) "
                          f"{sorted(PAIR[t] for t in lonely)}: the link tables can no longer be consistent", where)
        else:
            rep.inconclusive(f"{P}.R6", fnq, text,
                             "a new writer of the link tables is outside the set of functions whose paths are analysed; "
                             "the inductive consistency argument no longer covers every writer", where)
    for fnq in ALLOWED_WRITERS:
        if fnq not in cen:
            rep.info(f"{P}.R6", fnq, "", "expected writer no longer mutates link tables")
    rep.count("link_table_mutation_sites", total, 20)
    rep.count("link_table_writers", len(cen), 5)
